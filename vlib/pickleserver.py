"""Fresh interpreter for C29: loads cloudpickled jobs / submitters / workers written by the parent,
reports what it sees and runs jobs the way `pydra.engine.job.load_and_run` does.

One JSON object per line on stdin/stdout.  File descriptor 1 is redirected to /dev/null as soon as the
protocol stream has been duplicated, so that audit messengers or task bodies that print cannot
corrupt the protocol.

  {"op": "seed"}                          -> {"seed": PYTHONHASHSEED, "probe": n, "pid": n}
  {"op": "load_run", "pkl": path, "rerun": bool, "kind": "wf"|"py_prov"|"py_ident"|"shell",
   "prog": program (wf only)}
        -> {"checksum", "task_checksum", "job": describe_job, "submitter": describe_submitter,
            "loop_ok": bool, "is_async": bool, "ran": "ok" | "raised", "run_error"?, "where"?,
            "outputs": JSON rendering of the outputs the child read back from its own result file,
            "result_file": path, "errored": bool}
  {"op": "load_obj", "pkl": path, "what": "submitter"|"worker"} -> {"desc": describe_*}
"""
from __future__ import annotations

import json
import os
import sys
import traceback
from pathlib import Path


# ------------------------------------------------------------------ descriptions (both sides)
def _r(v):
    return repr(v)


def describe_worker(w):
    """every attrs field of the worker except the event loop and the process pool (both are
    process-local resources that are intentionally re-created)"""
    import attrs

    out = {"$type": f"{type(w).__module__}.{type(w).__qualname__}"}
    if attrs.has(type(w)):
        for f in attrs.fields(type(w)):
            if f.name in ("loop", "pool"):
                continue
            out[f.name] = _r(getattr(w, f.name))
    for k, v in getattr(w, "__dict__", {}).items():
        if k not in ("loop", "pool") and k not in out:
            out[k] = _r(v)
    return out


def describe_audit(a):
    d = {}
    for k, v in vars(a).items():
        if k == "messengers":
            d[k] = [f"{type(m).__module__}.{type(m).__qualname__}" for m in (v or [])]
        elif k == "audit_flags":
            d[k] = int(v.value)
        else:
            d[k] = _r(v)
    return d


def describe_env(e):
    import attrs

    if e is None:
        return None
    out = {"$type": f"{type(e).__module__}.{type(e).__qualname__}"}
    if attrs.has(type(e)):
        out.update({f.name: _r(getattr(e, f.name)) for f in attrs.fields(type(e))})
    return out


def describe_submitter(s):
    """every instance attribute of the submitter; `loop` is the only one left out (a new loop of
    the receiving process replaces it by design)"""
    out = {}
    for k, v in s.__dict__.items():
        if k == "loop":
            continue
        if k == "worker":
            out[k] = describe_worker(v)
        elif k == "audit":
            out[k] = describe_audit(v)
        elif k == "environment":
            out[k] = describe_env(v)
        elif k == "readonly_caches":
            out[k] = None if v is None else [str(p) for p in v]
        else:
            out[k] = _r(v)
    return out


def describe_hooks(h):
    import attrs

    return {f.name: getattr(getattr(h, f.name), "__qualname__", _r(getattr(h, f.name)))
            for f in attrs.fields(type(h))}


def describe_job(j):
    """every instance attribute of the job except the task (compared through its checksum), the
    submitter (described separately) and the cached checksum (reported separately)"""
    out = {}
    for k, v in j.__dict__.items():
        if k in ("task", "submitter", "_checksum"):
            continue
        if k == "audit":
            out[k] = describe_audit(v)
        elif k == "environment":
            out[k] = describe_env(v)
        elif k == "hooks":
            out[k] = describe_hooks(v)
        else:
            out[k] = _r(v)
    out["$audit_is_submitters"] = j.audit is j.submitter.audit if j.submitter is not None else None
    return out


def render_outputs(kind, outputs, prog=None):
    """JSON rendering of a job's outputs (used identically by the parent; passed through JSON so
    that both sides compare lists with lists)"""
    from vlib.gen import wfcache as GW
    from vlib.gen import workflows as G

    if outputs is None:
        return None
    if kind == "wf":
        r = G.outputs_of(prog, outputs)
    elif kind in ("py_prov", "py_ident"):
        r = GW.canon_val(outputs.out)
    elif kind == "shell":
        r = [outputs.stdout, outputs.stderr, outputs.return_code]
    else:
        raise ValueError(kind)
    return json.loads(json.dumps(r))


# ------------------------------------------------------------------ server
def handle(req):
    import cloudpickle as cp
    from pydra.engine.job import load_job

    from vlib.harness import exception_signature, short

    op = req["op"]
    if op == "seed":
        return dict(seed=os.environ.get("PYTHONHASHSEED"), probe=hash("probe") % 1000, pid=os.getpid())
    if op == "load_obj":
        with open(req["pkl"], "rb") as f:
            obj = cp.load(f)
        try:
            if req["what"] == "submitter":
                return dict(desc=describe_submitter(obj),
                            loop_ok=obj.loop is not None and not obj.loop.is_closed()
                            and obj.worker.loop is obj.loop)
            return dict(desc=describe_worker(obj))
        finally:
            w = obj.worker if req["what"] == "submitter" else obj
            w.close()
    if op == "load_run":
        job = load_job(req["pkl"])
        out = dict(name=job.name)
        try:
            out["cached_checksum_in_pickle"] = job._checksum
            out["checksum"] = job.checksum
            out["task_checksum"] = job.task._checksum
            out["job"] = describe_job(job)
            out["submitter"] = describe_submitter(job.submitter)
            sub = job.submitter
            out["loop_ok"] = bool(sub.loop is not None and not sub.loop.is_closed()
                                  and sub.worker.loop is sub.loop)
            out["is_async"] = bool(job.is_async)
            cwd = os.getcwd()
            try:  # the body of pydra.engine.job.load_and_run
                if job.is_async:
                    job.submitter.submit(job, rerun=req["rerun"])
                else:
                    job.run(rerun=req["rerun"])
                out["ran"] = "ok"
            except Exception as e:
                out.update(ran="raised", run_error=short(e), where=exception_signature(e, "child-run-raises"),
                           tb=traceback.format_exc()[-1200:])
            finally:
                os.chdir(cwd)
            res = job.result()
            out["result_found"] = res is not None
            if res is not None:
                out["errored"] = bool(res.errored)
                out["result_cache_dir"] = str(res.cache_dir)
                out["outputs"] = render_outputs(req["kind"], res.outputs, req.get("prog"))
            out["result_file"] = str(job.cache_dir / "_result.pklz")
            out["result_file_exists"] = (job.cache_dir / "_result.pklz").exists()
        finally:
            try:
                job.submitter.worker.close()
            except Exception:
                pass
        return out
    return dict(error=f"unknown op {op}")


def _watch_parent():
    """the server lives in its own session (so that the parent can kill it together with its pool
    processes); it must therefore notice by itself when the parent is gone"""
    import signal
    import time

    ppid = os.getppid()
    while True:
        time.sleep(2)
        if os.getppid() != ppid:
            if os.getpgrp() == os.getpid():
                os.killpg(os.getpid(), signal.SIGKILL)
            os._exit(1)


def main():
    import threading

    os.environ.setdefault("NO_ET", "true")
    threading.Thread(target=_watch_parent, daemon=True).start()
    proto = os.fdopen(os.dup(1), "w")
    os.dup2(os.open(os.devnull, os.O_WRONLY), 1)
    sys.stdout = open(os.devnull, "w")
    for line in sys.stdin:
        line = line.strip()
        if not line:
            continue
        req = json.loads(line)
        try:
            out = handle(req)
        except Exception as e:  # reported to the parent, which decides what it means
            out = dict(error=f"{type(e).__name__}: {e}"[:400], tb=traceback.format_exc()[-1500:])
        proto.write(json.dumps(out, default=repr) + "\n")
        proto.flush()


if __name__ == "__main__":
    main()
