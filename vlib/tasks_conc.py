"""Task definitions of the `conc` checks (C10 concurrent submitters, C18 termination).

Importable by name in every process (pool workers included).
"""
from __future__ import annotations

import typing as ty

from pydra.compose import python, workflow

from vlib.ref.workflow import fmt as _fmt
from vlib.tasks import _gate

BIG_N = 3000  # the result pickle of Counter is a few kB, so that a partial write is a real prefix


def big_of(x):
    """deterministic bulky output of Counter (the oracle recomputes it)"""
    return [f"{x}:{i}" for i in range(BIG_N)]


@python.define(outputs={"out": ty.Any, "nonce": str, "big": list})
def Counter(x: ty.Any, log: str, delay_ms: int = 0):
    """C10 body: passes the harness gates `body_entered` / `body_left`, appends ONE line to `log`
    (O_APPEND: atomic, so the number of lines IS the number of executions) and returns a
    deterministic part (`out`, `big`) and a per-execution part (`nonce`)."""
    import os as _os
    import time as _time

    from vlib.inject import conc10 as _c

    _c.gate("body_entered")
    nonce = f"{_os.getpid()}-{_time.monotonic_ns()}"
    fd = _os.open(log, _os.O_WRONLY | _os.O_APPEND | _os.O_CREAT, 0o644)
    try:
        _os.write(fd, (nonce + "\n").encode())
    finally:
        _os.close(fd)
    if delay_ms:
        _time.sleep(delay_ms / 1000.0)
    _c.gate("body_left")
    return {"out": f"v({x})", "nonce": nonce, "big": [f"{x}:{i}" for i in range(3000)]}


@workflow.define(outputs=["out", "nonce", "big"])
def CounterWf(x: ty.Any, log: str, delay_ms: int = 0):
    """C10, workflow shape: the same body as the only node of a workflow (everything arrives as
    workflow inputs, nothing is closed over)"""
    c = workflow.add(Counter(x=x, log=log, delay_ms=delay_ms), name="c")
    return c.out, c.nonce, c.big


@workflow.define(outputs=["out", "nonce", "big"])
def CounterWfShared(x: ty.Any, log: str, delay_ms: int = 0, salt: int = 0):
    """C10, shape "different workflows sharing a node job": every submitter passes its own `salt`,
    so the workflow jobs (and their locks) differ while the node job is one and the same"""
    c = workflow.add(Counter(x=x, log=log, delay_ms=delay_ms), name="c")
    return c.out, c.nonce, c.big


# ------------------------------------------------------------------ typed workflow tasks (C18)
@python.define
def ST1(a: str) -> str:
    out = f"f({_fmt(a)})"
    _gate(out)
    return out


@python.define
def ST2(a: str, b: str) -> str:
    out = f"g({_fmt(a)},{_fmt(b)})"
    _gate(out)
    return out
