"""Shared execution of a generated workflow program under a chosen schedule (C14-C18).

case spec: {"prog": <program>, "choices": [int...], "k": int|None, "fails": [tokens],
            "worker": "sched"|"debug"|"cf", "precache": int (number of leading nodes pre-run),
            "n_procs": int}
"""
from __future__ import annotations

import os
from pathlib import Path

from vlib.gen import workflows as G
from vlib.inject import sched
from vlib.ref import workflow as RW


class Observation:
    """What one run showed (plain data: the run itself happens in a forked child)."""

    def __init__(self):
        self.errored = False        # the submission returned an errored result
        self.exception = None       # "TypeName: message" if the submission raised
        self.exception_type = None
        self.error_text = ""        # everything pydra reported about the failure
        self.events = []            # gate log
        self.max_blocked = 0
        self.releases = []
        self.settle_timeouts = 0
        self.outputs = None         # normalised workflow outputs (or None)
        self.timed_out = False      # the child did not finish within the watchdog (inconclusive)


def precache_program(prog, m):
    """the program restricted to its first m nodes (same tasks, same inputs => same checksums)"""
    nodes = prog["nodes"][:m]
    used = set()
    for nd in nodes:
        for s in nd["in"].values():
            if s[0] in ("wfin", "split"):
                used.add(s[1])
    return dict(inputs={k: v for k, v in prog["inputs"].items() if k in used}, nodes=nodes,
                outs=[nodes[-1]["name"]], wf_split=None)


WATCHDOG_S = 240


def run_case(case, d) -> Observation:
    """Runs the case in a forked child under a wall-clock watchdog.  A child that does not finish
    is killed with everything it started and reported as `timed_out` (inconclusive here: C18 owns
    termination)."""
    import json
    import signal
    import time

    d = Path(d)
    d.mkdir(parents=True, exist_ok=True)
    out = d / "observation.json"
    pid = os.fork()
    if pid == 0:
        code = 0
        try:
            os.setsid()
            data = _run_case_child(case, d)
            out.write_text(json.dumps(data, default=repr))
        except BaseException:  # noqa
            import traceback

            out.write_text(json.dumps(dict(child_crash=traceback.format_exc()[-3000:])))
            code = 3
        finally:
            os._exit(code)
    t0 = time.time()
    done = False
    while time.time() - t0 < WATCHDOG_S:
        r, _ = os.waitpid(pid, os.WNOHANG)
        if r:
            done = True
            break
        time.sleep(0.02)
    obs = Observation()
    if not done:
        try:
            os.killpg(pid, signal.SIGKILL)
        except ProcessLookupError:
            pass
        os.waitpid(pid, 0)
        obs.timed_out = True
    else:
        try:  # whatever the child's pool left behind
            os.killpg(pid, signal.SIGKILL)
        except (ProcessLookupError, PermissionError):
            pass
    gate = d / "gate"
    if out.exists():
        data = json.loads(out.read_text())
        if "child_crash" in data:
            from vlib.harness import HarnessError

            raise HarnessError("schedule case child crashed: " + data["child_crash"])
        for k, v in data.items():
            setattr(obs, k, v)
        obs.releases = [tuple(r) for r in obs.releases]
    obs.events = sched.read_log(gate)
    return obs


def _run_case_child(case, d):
    from pydra.engine.submitter import Submitter

    prog = case["prog"]
    data = dict(errored=False, exception=None, exception_type=None, error_text="", max_blocked=0,
                releases=[], settle_timeouts=0, outputs=None)
    cache = d / "cache"
    cache.mkdir(parents=True, exist_ok=True)
    if case.get("precache"):
        pre = precache_program(prog, case["precache"])
        os.environ.pop("VERIF_GATE", None)
        try:
            G.build(pre, d / "src")(cache_root=cache, worker="debug")
        except Exception as e:  # noqa: the prefix itself does not run (C03's business); go on cold
            data["precache_failed"] = f"{type(e).__name__}"
    rerun = bool(case.get("rerun"))
    if rerun:
        # a complete earlier run of the same workflow in the same cache root; the run under
        # observation then re-executes everything (rerun=True, propagated to the nodes)
        os.environ.pop("VERIF_GATE", None)
        try:
            G.build(prog, d / "src")(cache_root=cache, worker="debug")
        except Exception as e:  # noqa
            data["precache_failed"] = f"{type(e).__name__}"
    gate = sched.make_gate(d / "gate")
    sched.set_failures(gate, case.get("fails") or [])
    task = G.build(prog, d / "src")
    worker = case.get("worker", "sched")
    if worker == "sched":
        res, w = sched.run_scheduled(task, cache, gate, case.get("choices") or [],
                                     max_concurrent=case.get("k"), n_procs=case.get("n_procs", 8),
                                     hold_report=case.get("hold") or (), rerun=rerun,
                                     propagate_rerun=True)
        data.update(max_blocked=w.max_blocked, releases=list(w.releases), settle_timeouts=w.settle_timeouts)
    else:
        open(os.path.join(gate, "free"), "w").close()
        os.environ["VERIF_GATE"] = gate
        kw = {}
        if case.get("k") is not None:
            kw["max_concurrent"] = case["k"]
        if worker == "cf":
            kw["n_procs"] = case.get("n_procs", 4)
        try:
            try:
                with Submitter(worker=worker, cache_root=cache, propagate_rerun=True, **kw) as sub:
                    res = sub(task, raise_errors=False, rerun=rerun)
            except Exception as e:  # noqa
                res = e
        finally:
            os.environ.pop("VERIF_GATE", None)
    parts = []
    if isinstance(res, Exception):
        data["exception"] = f"{type(res).__name__}: {res}"[:2000]
        data["exception_type"] = type(res).__name__
        parts.append(str(res))
        parts.extend(getattr(res, "__notes__", []) or [])
    else:
        data["errored"] = bool(res.errored)
        if res.errored:
            try:
                errs = res.errors
                if errs:
                    parts.append("\n".join(map(str, errs.get("error message", [])))
                                 if isinstance(errs, dict) else str(errs))
            except Exception as e:  # noqa
                parts.append(f"<unreadable error file: {e}>")
        elif res.outputs is not None:
            try:
                data["outputs"] = G.outputs_of(prog, res.outputs)
            except Exception as e:  # noqa
                data["exception"] = f"{type(e).__name__}: {e}"
                data["exception_type"] = type(e).__name__
    data["error_text"] = "\n".join(parts)[-6000:]
    return data


def expected_jobs(prog):
    """{token: set(dep tokens)} for every job of the program (reference interpreter)"""
    jobs = {}
    for j in RW.jobs_of(prog):
        jobs.setdefault(j["token"], set()).update(j["deps"])
    return jobs


def node_of_token(prog):
    out = {}
    for j in RW.jobs_of(prog):
        out.setdefault(j["token"], set()).add(j["node"])
    return out


def downstream_nodes(prog, failed_nodes):
    """nodes (transitively) consuming any of `failed_nodes` (node-granular dependence)"""
    bad = set(failed_nodes)
    changed = True
    while changed:
        changed = False
        for nd in prog["nodes"]:
            if nd["name"] in bad:
                continue
            if any(s[0] in ("node", "splitnode") and s[1] in bad for s in nd["in"].values()):
                bad.add(nd["name"])
                changed = True
    return bad - set(failed_nodes)
