"""Shared execution of a generated workflow program under a chosen schedule (C14-C18).

case spec: {"prog": <program>, "choices": [int...], "k": int|None, "fails": [tokens],
            "worker": "sched"|"debug"|"cf", "precache": int (number of leading nodes pre-run),
            "n_procs": int}
"""
from __future__ import annotations

import os
from pathlib import Path

from vlib.gen import workflows as G
from vlib.inject import sched
from vlib.ref import workflow as RW


class Observation:
    def __init__(self):
        self.result = None          # pydra Result or None
        self.exception = None       # exception raised by the submission
        self.events = []            # gate log
        self.max_blocked = 0
        self.releases = []
        self.settle_timeouts = 0
        self.outputs = None         # normalised workflow outputs (or None)
        self.cache_root = None


def precache_program(prog, m):
    """the program restricted to its first m nodes (same tasks, same inputs => same checksums)"""
    nodes = prog["nodes"][:m]
    used = set()
    for nd in nodes:
        for s in nd["in"].values():
            if s[0] in ("wfin", "split"):
                used.add(s[1])
    return dict(inputs={k: v for k, v in prog["inputs"].items() if k in used}, nodes=nodes,
                outs=[nodes[-1]["name"]], wf_split=None)


def run_case(case, d) -> Observation:
    from pydra.engine.submitter import Submitter

    prog = case["prog"]
    d = Path(d)
    obs = Observation()
    cache = d / "cache"
    cache.mkdir(parents=True, exist_ok=True)
    obs.cache_root = cache
    if case.get("precache"):
        pre = precache_program(prog, case["precache"])
        os.environ.pop("VERIF_GATE", None)
        G.build(pre, d / "src")(cache_root=cache, worker="debug")
    gate = sched.make_gate(d / "gate")
    sched.set_failures(gate, case.get("fails") or [])
    task = G.build(prog, d / "src")
    worker = case.get("worker", "sched")
    if worker == "sched":
        res, w = sched.run_scheduled(task, cache, gate, case.get("choices") or [],
                                     max_concurrent=case.get("k"), n_procs=case.get("n_procs", 12))
        obs.max_blocked, obs.releases, obs.settle_timeouts = w.max_blocked, list(w.releases), w.settle_timeouts
    else:
        open(os.path.join(gate, "free"), "w").close()
        os.environ["VERIF_GATE"] = gate
        kw = {}
        if case.get("k") is not None:
            kw["max_concurrent"] = case["k"]
        if worker == "cf":
            kw["n_procs"] = case.get("n_procs", 4)
        try:
            try:
                with Submitter(worker=worker, cache_root=cache, **kw) as sub:
                    res = sub(task, raise_errors=False)
            except Exception as e:  # noqa
                res = e
        finally:
            os.environ.pop("VERIF_GATE", None)
    if isinstance(res, Exception):
        obs.exception = res
    else:
        obs.result = res
        if not res.errored and res.outputs is not None:
            try:
                obs.outputs = G.outputs_of(prog, res.outputs)
            except Exception as e:  # noqa
                obs.exception = e
    obs.events = sched.read_log(gate)
    return obs


def expected_jobs(prog):
    """{token: set(dep tokens)} for every job of the program (reference interpreter)"""
    jobs = {}
    for j in RW.jobs_of(prog):
        jobs.setdefault(j["token"], set()).update(j["deps"])
    return jobs


def node_of_token(prog):
    out = {}
    for j in RW.jobs_of(prog):
        out.setdefault(j["token"], set()).add(j["node"])
    return out


def downstream_nodes(prog, failed_nodes):
    """nodes (transitively) consuming any of `failed_nodes` (node-granular dependence)"""
    bad = set(failed_nodes)
    changed = True
    while changed:
        changed = False
        for nd in prog["nodes"]:
            if nd["name"] in bad:
                continue
            if any(s[0] in ("node", "splitnode") and s[1] in bad for s in nd["in"].values()):
                bad.add(nd["name"])
                changed = True
    return bad - set(failed_nodes)
