"""Child process for one shard (or one replay)."""
from __future__ import annotations

import importlib
import json
import os
import sys
import traceback
from pathlib import Path


def main(argv):
    from vlib import scratchdir
    from vlib.harness import HarnessError, Shard, assert_repo_modules, jsonable

    if argv[0] == "--replay":
        _, prop, path, out, sdir = argv
        Path(sdir).mkdir(parents=True, exist_ok=True)
        scratchdir.init(sdir)
        mod = importlib.import_module(f"props.{prop.lower()}")
        case = json.loads(Path(path).read_text())["case"]
        recs = mod.check_case(case)
        assert_repo_modules()
        Path(out).write_text(json.dumps(jsonable(recs or []), default=repr))
        return 0

    prop, tier, seed, index, n, sdir, out, wall = argv
    scratchdir.init(sdir)
    mod = importlib.import_module(f"props.{prop.lower()}")
    sh = Shard(mod, tier, int(seed), int(index), int(n), sdir, float(wall))
    try:
        mod.run(sh)
        assert_repo_modules()
    except HarnessError as e:
        traceback.print_exc()
        print("HARNESS:", e)
        Path(out).write_text(json.dumps(sh.result(), default=repr))
        return 2
    except BaseException:
        traceback.print_exc()
        Path(out).write_text(json.dumps(sh.result(), default=repr))
        return 3
    Path(out).write_text(json.dumps(sh.result(), default=repr))
    return 0


if __name__ == "__main__":
    rc = main(sys.argv[1:])
    sys.stdout.flush()
    sys.stderr.flush()
    os._exit(rc)
