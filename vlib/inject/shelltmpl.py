"""Recorder for the command a shell job executes (C25, C26).

`recording()` replaces `pydra.environments.base.execute` (the single place where the native
environment hands an argument vector to the operating system) by a function that records
(argv, cwd), lets the caller materialise the files the fake command "writes", and reports
success.  Optionally `pydra.environments.native.Native.execute` is wrapped to record the
resolved `Job.inputs` and `Job.cache_dir` (observation only; the original is then called).
"""
from __future__ import annotations

import contextlib
import os
from pathlib import Path


class Record:
    def __init__(self):
        self.calls = []   # (argv list, cwd str)
        self.jobs = []    # (inputs dict snapshot, cache_dir str)


@contextlib.contextmanager
def recording(on_execute=None, on_job=None, observe_job=False):
    import pydra.environments.base as ebase
    import pydra.environments.native as enative

    rec = Record()
    real = ebase.execute
    real_native = enative.Native.execute

    def fake_execute(cmd, strip=False, **kwargs):
        argv = list(cmd)
        cwd = os.getcwd()
        rec.calls.append((argv, cwd))
        if on_execute is not None:
            on_execute(argv, Path(cwd))
        return (0, "", "")

    def native_execute(self, job):
        inputs = dict(job.inputs)
        rec.jobs.append((inputs, str(job.cache_dir)))
        if on_job is not None:
            on_job(inputs, Path(job.cache_dir))
        return real_native(self, job)

    ebase.execute = fake_execute
    if observe_job:
        enative.Native.execute = native_execute
    try:
        yield rec
    finally:
        ebase.execute = real
        enative.Native.execute = real_native


def materialise(path: Path, as_dir=False):
    """create what a well-behaved command would have written at `path`"""
    from vlib.ref.shelltmpl import MAGIC

    path = Path(path)
    if path.exists():
        return
    if as_dir:
        path.mkdir(parents=True)
        return
    path.parent.mkdir(parents=True, exist_ok=True)
    content = b"x"
    for ext, magic in MAGIC.items():
        if path.name.endswith(ext):
            content = magic
    path.write_bytes(content)
