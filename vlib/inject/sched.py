"""Schedule-owning worker (DESIGN 4.2).

`SchedWorker` pickles each job like the `cf` worker and runs it in a forked pool process.  Task
bodies (vlib.tasks._gate) announce themselves in <gate>/entered, block until <gate>/go/<h> exists
and append S/E lines to <gate>/log.  A scheduler coroutine living in the submitter's own event
loop waits until every job handed to `run()` has entered its body or finished (quiescence),
records the set of blocked bodies - which IS the set of jobs executing at that instant - releases
the one selected by the next generated choice and awaits its completion.  A schedule is therefore
a list[int] that replays exactly.
"""
from __future__ import annotations

import asyncio
import concurrent.futures as cf
import hashlib
import multiprocessing as mp
import os
import time
from pathlib import Path

import attrs
import cloudpickle as cp

import pydra.engine.submitter  # noqa: F401  (must precede workers.base: circular import)
from pydra.workers import base as wbase


def tok_hash(token: str) -> str:
    return hashlib.sha1(token.encode()).hexdigest()[:16]


def _run(job_pkl, rerun):
    job = cp.loads(job_pkl)
    return job.run(rerun=rerun)


def _run_fail_before_start(job_pkl, rerun):
    raise RuntimeError("injected worker-level failure: the job never started")


@attrs.define
class SchedWorker(wbase.Worker):
    _plugin_name = "sched"
    n_procs: int = 12
    gate: str = ""
    choices: list = attrs.field(factory=list)
    settle_timeout: float = 20.0
    worker_failures: list = attrs.field(factory=list)  # ordinal numbers of run() calls that fail
    # ordinal numbers of run() calls whose outcome is *reported late*: the job has finished (its
    # result is on disk) but the worker hands the outcome back only after another job completed
    hold_report: list = attrs.field(factory=list)
    pool: object = attrs.field(default=None, init=False, eq=False, repr=False)
    outstanding: dict = attrs.field(factory=dict, init=False, eq=False, repr=False)
    sched_task: object = attrs.field(default=None, init=False, eq=False, repr=False)
    releases: list = attrs.field(factory=list, init=False, eq=False)
    max_blocked: int = attrs.field(default=0, init=False, eq=False)
    settle_timeouts: int = attrs.field(default=0, init=False, eq=False)
    n_run_calls: int = attrs.field(default=0, init=False, eq=False)

    def __getstate__(self):
        st = super().__getstate__()
        for k in ("pool", "sched_task"):
            st[k] = None
        st["outstanding"] = {}
        return st

    async def run(self, job, rerun=False):
        if self.pool is None:
            self.pool = cf.ProcessPoolExecutor(self.n_procs, mp_context=mp.get_context("fork"))
        if self.sched_task is None:
            self.sched_task = self.loop.create_task(self.scheduler())
        self.n_run_calls += 1
        key = f"{self.n_run_calls}:{job.checksum}"
        fn = _run_fail_before_start if self.n_run_calls in self.worker_failures else _run
        fut = self.loop.run_in_executor(self.pool, fn, cp.dumps(job), rerun)
        self.outstanding[key] = fut
        if self.n_run_calls not in self.hold_report:
            return await fut
        try:
            return await fut
        finally:
            n_done = sum(1 for f in self.outstanding.values() if f.done())
            t0 = time.monotonic()
            while time.monotonic() - t0 < 5.0:
                others_live = [f for f in self.outstanding.values() if not f.done()]
                if not others_live or sum(1 for f in self.outstanding.values() if f.done()) > n_done:
                    break
                await asyncio.sleep(0.002)

    def _entered(self):
        try:
            return set(os.listdir(os.path.join(self.gate, "entered")))
        except FileNotFoundError:
            return set()

    def _released(self):
        return set(os.listdir(os.path.join(self.gate, "go")))

    async def scheduler(self):
        """release one blocked body per quiescent point"""
        try:
            while True:
                for _ in range(40):
                    await asyncio.sleep(0)
                live = [f for f in self.outstanding.values() if not f.done()]
                if not live:
                    await asyncio.sleep(0.002)
                    continue
                # wait until the number of blocked bodies accounts for every live future
                t0 = time.monotonic()
                while True:
                    live = [f for f in self.outstanding.values() if not f.done()]
                    blocked = sorted(self._entered() - self._released())
                    if len(blocked) >= len(live) or not live:
                        break
                    if time.monotonic() - t0 > self.settle_timeout:
                        self.settle_timeouts += 1
                        break
                    await asyncio.sleep(0.002)
                if not blocked:
                    await asyncio.sleep(0.002)
                    continue
                self.max_blocked = max(self.max_blocked, len(blocked))
                c = self.choices.pop(0) if self.choices else 0
                pick = blocked[c % len(blocked)]
                self.releases.append((pick, len(blocked)))
                # wait for that body to finish: one more future completes
                n_done = sum(1 for f in self.outstanding.values() if f.done())
                open(os.path.join(self.gate, "go", pick), "w").close()
                t0 = time.monotonic()
                while time.monotonic() - t0 < self.settle_timeout:
                    if sum(1 for f in self.outstanding.values() if f.done()) > n_done:
                        break
                    await asyncio.sleep(0.002)
        except asyncio.CancelledError:
            return

    def close(self):
        if self.sched_task:
            self.sched_task.cancel()
        if self.pool:
            # free everything that may still be blocked, then stop the pool
            try:
                open(os.path.join(self.gate, "free"), "w").close()
            except OSError:
                pass
            self.pool.shutdown(wait=True, cancel_futures=True)
            self.pool = None


def make_gate(d) -> str:
    g = Path(d)
    for sub in ("entered", "go", "fail"):
        (g / sub).mkdir(parents=True, exist_ok=True)
    return str(g)


def read_log(gate):
    """-> list of events ("S", token) / ("E", token, "ok"|"fail") in log order"""
    p = Path(gate) / "log"
    if not p.exists():
        return []
    ev = []
    for line in p.read_text().splitlines():
        parts = line.split("\t")
        if parts[0] in ("S", "E"):
            ev.append(tuple(parts))
    return ev


def set_failures(gate, tokens):
    for t in tokens:
        open(os.path.join(gate, "fail", tok_hash(t)), "w").close()


def run_scheduled(task, cache_root, gate, choices, max_concurrent=None, n_procs=12,
                  worker_failures=(), raise_errors=False, hold_report=(), rerun=False, **sub_kw):
    """Run `task` under the schedule-owning worker.  -> (result or exception, worker)"""
    from pydra.engine.submitter import Submitter

    os.environ["VERIF_GATE"] = gate
    w = SchedWorker(gate=gate, choices=list(choices), n_procs=n_procs,
                    worker_failures=list(worker_failures), hold_report=list(hold_report))
    kw = dict(sub_kw)
    if max_concurrent is not None:
        kw["max_concurrent"] = max_concurrent
    try:
        try:
            with Submitter(worker=w, cache_root=cache_root, **kw) as sub:
                res = sub(task, raise_errors=raise_errors, rerun=rerun)
            return res, w
        except Exception as e:  # the caller's oracle decides what an exception means
            return e, w
    finally:
        os.environ.pop("VERIF_GATE", None)
        try:
            w.close()
        except Exception:
            pass
