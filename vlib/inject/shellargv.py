"""Observation of the argument vector a shell task executes (C22-C24, C32).

`recorded(task, cache_root)` runs the task through the normal job path (debug worker, native
environment) with `pydra.environments.base.execute` replaced by a recorder, so the observed value
is exactly the sequence handed to the process-spawning layer.  `Native.execute` looks the function
up as `base.execute` at call time, which is what makes the replacement effective; if that ever
changes the recorder sees nothing and `recorded` raises HarnessError (never a violation).

`echo_executable(dir)` gives an executable (list) that prints its own argv NUL-separated, for the
end-to-end variant that really spawns a process.
"""
from __future__ import annotations

import contextlib
from pathlib import Path

from vlib.harness import HarnessError

# POSIX sh: "$@" and printf %s reproduce every argument byte for byte; NUL-separated output
ECHO_SRC = '#!/bin/sh\nfor a in "$@"; do printf \'%s\\0\' "$a"; done\n'


@contextlib.contextmanager
def recorder(rc=0, stdout="", stderr=""):
    import pydra.environments.base as base

    if not hasattr(base, "execute"):
        raise HarnessError("L1 unavailable: pydra.environments.base.execute not found")
    calls = []
    orig = base.execute

    def fake(cmd, *a, **kw):
        calls.append(list(cmd))
        return rc, stdout, stderr

    base.execute = fake
    try:
        yield calls
    finally:
        base.execute = orig


def recorded_full(task, cache_root):
    """(argv executed or None, exception raised by the run or None): the run may fail after the
    command was 'executed', e.g. while collecting output files that the recorder never creates"""
    exc = None
    with recorder() as calls:
        try:
            task(cache_root=cache_root, worker="debug")
        except HarnessError:
            raise
        except Exception as e:  # noqa
            exc = e
    if len(calls) > 1 or (exc is None and len(calls) != 1):
        raise HarnessError(f"recorder saw {len(calls)} execute() calls for one shell task")
    return (calls[0] if calls else None), exc


def recorded(task, cache_root) -> list[str]:
    """argv executed by `task` (exceptions from pydra propagate)"""
    with recorder() as calls:
        task(cache_root=cache_root, worker="debug")
    if len(calls) != 1:
        raise HarnessError(f"recorder saw {len(calls)} execute() calls for one shell task")
    return calls[0]


def echo_executable(d) -> list[str]:
    """[/bin/sh, script]: the script prints its arguments NUL-terminated (a python echo costs
    0.3-1.5 s of interpreter start-up on this machine, sh costs ~2 ms)"""
    p = Path(d) / "argvecho.sh"
    if not p.exists():
        p.write_text(ECHO_SRC)
    return ["/bin/sh", str(p)]


def received(task, cache_root) -> list[str]:
    """argv received by the really spawned echo process (the task's executable must come from
    echo_executable)"""
    out = task(cache_root=cache_root, worker="debug")
    parts = out.stdout.split("\0")
    if parts[-1] != "":
        raise HarnessError(f"echo script output not NUL-terminated: {out.stdout!r}")
    return parts[:-1]
