"""Line-level fault injection on pydra's job path (DESIGN 4.1) - used by C12 and C35.

Python 3.12 `sys.monitoring` LINE events are enabled ONLY on the code objects of the job path
(`Job.run`, `Job.run_async`, `Job._populate_filesystem`, `result.save`, `result.record_error`,
`Audit.start_audit`, `Audit.finalize_audit` and the task `_run`/`_run_async` methods).  A *session*
numbers the events of one submission 0, 1, 2 ... in execution order.  The numbering is shared by all
processes forked from the one that installed the session (an anonymous shared mmap + a POSIX record
lock), so jobs executed by `cf` pool workers are counted in the same sequence as the submitter's.

  trace mode   every event is appended to `<dir>/trace.jsonl` as [index, pid, qualname, line, time]
  fault k      at event k the callback writes `<dir>/fired.json` and then
                 crash      os._exit(137)          no `finally`, no atexit; lock files of the dead PID stay
                 interrupt  raise KeyboardInterrupt unwinds through `finally` like Ctrl-C
                 raise      raise InjectedError     an ordinary Exception (C35)

Nothing here edits pydra: the points are discovered from the trace, so the enumeration stays complete
when the job path is edited.

`run_forked` executes a function in a forked child (own session/process group, stdio to a file) under a
watchdog and reaps everything the child leaves behind, so that a PID recorded in a left-over lock
file is really gone (a zombie would still look alive to filelock's stale-lock test).
"""
from __future__ import annotations

import ctypes
import fcntl
import importlib
import json
import mmap
import os
import signal
import struct
import sys
import time
import traceback
from pathlib import Path

from vlib.harness import HarnessError

MODES = ("crash", "interrupt", "raise")
CRASH_EXIT = 137


class InjectedError(Exception):
    """The ordinary exception raised by mode 'raise'."""


# (module, qualified attribute path, required)
TARGET_SPECS = [
    ("pydra.engine.job", "Job.run", True),
    ("pydra.engine.job", "Job.run_async", False),
    ("pydra.engine.job", "Job._populate_filesystem", True),
    ("pydra.engine.result", "save", True),
    ("pydra.engine.result", "record_error", True),
    ("pydra.engine.audit", "Audit.start_audit", True),
    ("pydra.engine.audit", "Audit.finalize_audit", True),
    ("pydra.compose.python", "PythonTask._run", False),
    ("pydra.compose.shell.task", "ShellTask._run", False),
    ("pydra.compose.workflow", "WorkflowTask._run", False),
    ("pydra.compose.workflow", "WorkflowTask._run_async", False),
]

_targets_cache = None


def target_codes():
    """{code object: 'Qual.name'}; the names that could not be resolved are returned as well.
    A missing *required* name is a harness error (the tree was refactored: L1 unavailable)."""
    global _targets_cache
    if _targets_cache is not None:
        return _targets_cache
    codes, missing = {}, []
    for modname, path, required in TARGET_SPECS:
        try:
            obj = importlib.import_module(modname)
            for part in path.split("."):
                obj = getattr(obj, part)
            obj = getattr(obj, "__func__", obj)
            obj = getattr(obj, "__wrapped__", obj)
            code = obj.__code__
        except (ImportError, AttributeError):
            if required:
                raise HarnessError(
                    f"L1 unavailable: cannot find {modname}:{path} (job path refactored?)"
                )
            missing.append(f"{modname}:{path}")
            continue
        codes[code] = code.co_qualname
    _targets_cache = (codes, missing)
    return _targets_cache


def _pick_tool_id():
    mon = sys.monitoring
    for tid in (4, 3, 2, 1):
        if mon.get_tool(tid) is None:
            return tid
    raise HarnessError("no free sys.monitoring tool id")


class Session:
    """One numbered event sequence.  Create it (and `install` it) in the process that performs the
    submission; pool workers forked afterwards inherit it."""

    def __init__(self, workdir, fault: tuple[int, str] | None = None, trace=True):
        self.dir = Path(workdir)
        self.dir.mkdir(parents=True, exist_ok=True)
        self.fault_k, self.fault_mode = fault if fault else (None, None)
        if self.fault_mode is not None and self.fault_mode not in MODES:
            raise HarnessError(f"unknown fault mode {self.fault_mode}")
        self.counter = mmap.mmap(-1, 8)  # MAP_SHARED | MAP_ANONYMOUS: shared with forked children
        self.counter[:8] = struct.pack("q", 0)
        self.lock_fd = os.open(self.dir / "counter.lock", os.O_RDWR | os.O_CREAT, 0o644)
        self.trace_fd = (
            os.open(self.dir / "trace.jsonl", os.O_WRONLY | os.O_APPEND | os.O_CREAT, 0o644)
            if trace else None
        )
        self.codes, self.missing = target_codes()
        self.tool = None
        self.armed = True

    # -- event numbering ------------------------------------------------------------------
    def _next(self) -> int:
        fcntl.lockf(self.lock_fd, fcntl.LOCK_EX)
        try:
            (n,) = struct.unpack("q", self.counter[:8])
            self.counter[:8] = struct.pack("q", n + 1)
        finally:
            fcntl.lockf(self.lock_fd, fcntl.LOCK_UN)
        return n

    def events_seen(self) -> int:
        return struct.unpack("q", self.counter[:8])[0]

    def _callback(self, code, line):
        if not self.armed:
            return None
        idx = self._next()
        name = self.codes.get(code, code.co_qualname)
        if self.trace_fd is not None:
            os.write(self.trace_fd,
                     (json.dumps([idx, os.getpid(), name, line, round(time.time(), 3)]) + "\n").encode())
        if idx == self.fault_k:
            (self.dir / "fired.json").write_text(
                json.dumps(dict(index=idx, pid=os.getpid(), function=name, line=line,
                                mode=self.fault_mode))
            )
            if self.fault_mode == "crash":
                os._exit(CRASH_EXIT)
            if self.fault_mode == "interrupt":
                raise KeyboardInterrupt(f"injected at {name}:{line} (event {idx})")
            raise InjectedError(f"injected at {name}:{line} (event {idx})")
        return None

    # -- installation ---------------------------------------------------------------------
    def install(self):
        mon = sys.monitoring
        self.tool = _pick_tool_id()
        mon.use_tool_id(self.tool, "pydra-verif-linefault")
        mon.register_callback(self.tool, mon.events.LINE, self._callback)
        for c in self.codes:
            mon.set_local_events(self.tool, c, mon.events.LINE)
        return self

    def uninstall(self):
        self.armed = False
        if self.tool is None:
            return
        mon = sys.monitoring
        for c in self.codes:
            mon.set_local_events(self.tool, c, 0)
        mon.register_callback(self.tool, mon.events.LINE, None)
        mon.free_tool_id(self.tool)
        self.tool = None

    def __enter__(self):
        return self.install()

    def __exit__(self, *exc):
        self.uninstall()
        return False


def read_trace(workdir) -> list[list]:
    """[[index, pid, qualname, line, time], ...] sorted by index"""
    p = Path(workdir) / "trace.jsonl"
    if not p.exists():
        return []
    rows = [json.loads(ln) for ln in p.read_text().splitlines() if ln.strip()]
    rows.sort(key=lambda r: r[0])
    return rows


def source_line(qualname: str, line: int) -> str:
    """stripped source text of a line of one of the monitored functions ('' if unknown)"""
    import linecache

    codes, _ = target_codes()
    for c, name in codes.items():
        if name == qualname:
            return linecache.getline(c.co_filename, line).strip()
    return ""


def locate(trace, at: dict):
    """index of the event described by {"function", "text", "occurrence"} (a point named by its
    source text survives unrelated edits of the tree, an event index does not); None if absent"""
    n = 0
    for row in trace:
        if row[2] == at["function"] and source_line(row[2], row[3]) == at["text"]:
            if n == at.get("occurrence", 0):
                return row
            n += 1
    return None


def read_fired(workdir) -> dict | None:
    p = Path(workdir) / "fired.json"
    if not p.exists():
        return None
    try:
        return json.loads(p.read_text())
    except ValueError:
        return None


# --------------------------------------------------------------------------- forked execution
_subreaper = None


def become_subreaper():
    """Orphans of our children (pool workers of a crashed submitter) are re-parented to us, so that
    they can be killed and *reaped* before the resubmission looks at their lock files."""
    global _subreaper
    if _subreaper is None:
        try:
            PR_SET_CHILD_SUBREAPER = 36
            rc = ctypes.CDLL(None, use_errno=True).prctl(PR_SET_CHILD_SUBREAPER, 1, 0, 0, 0)
            _subreaper = rc == 0
        except Exception:
            _subreaper = False
    return _subreaper


def _reap_all(patience=3.0):
    """reap every remaining child of this process (all are ours: forked runs and their orphans)"""
    end = time.time() + patience
    while True:
        try:
            pid, _ = os.waitpid(-1, os.WNOHANG)
        except ChildProcessError:
            return True
        if pid == 0:
            if time.time() > end:
                return False
            time.sleep(0.002)


def pid_alive(pid: int) -> bool:
    try:
        os.kill(pid, 0)
    except ProcessLookupError:
        return False
    except PermissionError:
        return True
    return True


def run_forked(fn, timeout: float, outfile, logfile=None) -> dict:
    """Run `fn()` (returns a JSON-able value) in a forked child.

    Returns dict(status, result, wall_s) with status one of
      "ok"           fn returned; result is its value
      "exit:<n>"     the child ended with exit status n without writing a result (crash mode: 137)
      "signal:<n>"   killed by a signal
      "timeout"      still running after `timeout` seconds; its whole process group was killed
    A Python exception escaping `fn` is a harness error (fn must catch what belongs to the case).
    """
    become_subreaper()
    outfile = Path(outfile)
    if outfile.exists():
        outfile.unlink()
    sys.stdout.flush()
    sys.stderr.flush()
    t0 = time.time()
    pid = os.fork()
    if pid == 0:  # ------------------------------------------------------------- child
        rc = 98
        try:
            os.setsid()
            if logfile is not None:
                fd = os.open(logfile, os.O_WRONLY | os.O_APPEND | os.O_CREAT, 0o644)
                os.dup2(fd, 1)
                os.dup2(fd, 2)
                os.close(fd)
            devnull = os.open(os.devnull, os.O_RDONLY)
            os.dup2(devnull, 0)
            os.close(devnull)
            try:
                res = fn()
                payload = dict(result=res)
                rc = 0
            except BaseException:
                payload = dict(harness_error=traceback.format_exc())
                rc = 99
            tmp = outfile.with_suffix(".tmp")
            tmp.write_text(json.dumps(payload, default=repr))
            os.rename(tmp, outfile)
            sys.stdout.flush()
            sys.stderr.flush()
        finally:
            os._exit(rc)
    # ------------------------------------------------------------------------------ parent
    status = None
    deadline = t0 + timeout
    delay = 0.001
    while True:
        wpid, st = os.waitpid(pid, os.WNOHANG)
        if wpid == pid:
            if os.WIFSIGNALED(st):
                status = f"signal:{os.WTERMSIG(st)}"
            else:
                status = f"exit:{os.WEXITSTATUS(st)}"
            break
        if time.time() > deadline:
            status = "timeout"
            break
        time.sleep(delay)
        delay = min(delay * 1.5, 0.02)
    # kill whatever is left of the child's process group (pool workers, shell commands) ...
    try:
        os.killpg(pid, signal.SIGKILL)
    except (ProcessLookupError, PermissionError):
        pass
    if status == "timeout":
        try:
            os.waitpid(pid, 0)
        except ChildProcessError:
            pass
    # ... and reap it, so that no zombie keeps a PID "alive"
    _reap_all()
    wall = time.time() - t0
    payload = None
    if outfile.exists():
        try:
            payload = json.loads(outfile.read_text())
        except ValueError:
            payload = None
    if payload and "harness_error" in payload:
        raise HarnessError("forked run failed inside the harness:\n" + payload["harness_error"])
    if status == "exit:0" and payload is not None:
        return dict(status="ok", result=payload["result"], wall_s=round(wall, 3))
    if status == "exit:0":
        raise HarnessError("forked run exited 0 without a result file")
    return dict(status=status, result=None, wall_s=round(wall, 3))
