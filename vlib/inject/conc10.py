"""C10 machinery: several submitters of ONE job into ONE cache root, steered at named gates.

Gates on the job path of each submitter (harness-side wrappers, nothing in pydra is edited):

  before_submit    before the submitter creates its Submitter and calls it (Submitter.__call__ stamps
                   its run start; holding a submitter back here makes it START while another is at work)
  before_acquire   entering SoftFileLock.acquire for the job's lock file <root>/<checksum>.lock
  lock_wait        first acquisition attempt that found the lock taken (the submitter now polls)
  after_acquire    SoftFileLock.acquire returned: the lock is held
  after_check      first Job.result() under the lock returned (the "is there a result" check)
  after_populate   Job._populate_filesystem returned (job directory created, _job.pklz written)
  body_entered     task body entered          (called by the task itself, vlib/tasks_conc.Counter)
  body_left        task body about to return
  before_save      entering result.save(result=...)
  after_save       result.save(result=...) returned (_result.pklz written)
  before_release   entering SoftFileLock.release of the job lock
  after_release    SoftFileLock.release returned
  returned         the submission returned to its caller

A constraint [i, g, j, h, kind] means "submitter i may pass gate g only after submitter j has
`passed` (or, kind "arrived", has arrived at) gate h"; mutual "arrived" constraints are a barrier.
Everything is communicated through marker files in <dir>, every submitter publishes what it is
doing (running / waiting at a gate for X / polling the lock / done) and who holds the lock, so a
waiter can tell an INFEASIBLE constraint apart from a slow one without relying on wall time:

  * the target is done and never passed the gate                 -> escape "target-done"
  * following "waits for" / "polls the lock held by" edges from the target leads back to the
    waiter (observed on 3 consecutive polls)                      -> escape "cycle"
  * nothing of the kind for `escape_s` seconds (fallback)          -> escape "timeout"

An escaped constraint is counted as infeasible, never failed.  Interleavings are steered at these
gates only; they are not exhaustive.
"""
from __future__ import annotations

import json
import os
import threading
import time
from pathlib import Path

from vlib.harness import HarnessError

GATES = ["before_submit", "before_acquire", "lock_wait", "after_acquire", "after_check", "after_populate",
         "body_entered", "body_left", "before_save", "after_save", "before_release", "after_release", "returned"]

_local = threading.local()
_default = [None]
_installed = [False]


def current():
    return getattr(_local, "ctl", None) or _default[0]


def set_current(ctl, thread_only=False):
    _local.ctl = ctl
    if not thread_only:
        _default[0] = ctl


def gate(name):
    """called by task bodies"""
    ctl = current()
    if ctl is not None:
        ctl.gate(name)


class GateCtl:
    POLL = 0.002

    def __init__(self, directory, me, n, constraints, escape_s=30.0, cache_root=None, adopt="main"):
        # adopt="main": THE job is the submitted one; adopt="node": THE job is the first
        # non-workflow job run for this submitter (the node job shared by different workflows)
        self.adopt_what = adopt
        self.dir = str(directory)
        self.me = int(me)
        self.n = int(n)
        self.escape_s = float(escape_s)
        self.cache_root = os.path.realpath(str(cache_root)) if cache_root else None
        self.waits = {}
        for c in constraints or []:
            i, g, j, h, kind = c
            if int(i) == self.me:
                self.waits.setdefault(g, []).append((int(j), h, kind))
        self.seen = set()          # gates this submitter has been at (first occurrence counts)
        self.main_dir = None       # job directory / lock file of the submitted job: set when the first
        self.main_lock = None      # Job.run/run_async of this submitter starts (inner node jobs are ignored)
        self.acquired = False
        self.checked = False
        for sub in ("arr", "pas", "state", "hold"):
            os.makedirs(os.path.join(self.dir, sub), exist_ok=True)
        self.log_fd = os.open(os.path.join(self.dir, "ev.log"), os.O_WRONLY | os.O_APPEND | os.O_CREAT, 0o644)

    # ---------------------------------------------------------------- files
    def _log(self, kind, gate, extra=""):
        os.write(self.log_fd, f"{time.monotonic_ns()}\t{self.me}\t{kind}\t{gate}\t{extra}\n".encode())

    def _touch(self, sub, name):
        fd = os.open(os.path.join(self.dir, sub, name), os.O_WRONLY | os.O_CREAT, 0o644)
        os.close(fd)

    def _has(self, sub, name):
        return os.path.exists(os.path.join(self.dir, sub, name))

    def set_state(self, text):
        p = os.path.join(self.dir, "state", str(self.me))
        tmp = f"{p}.{os.getpid()}.{threading.get_ident()}.tmp"
        with open(tmp, "w") as f:
            f.write(text)
        os.replace(tmp, p)

    def _state_of(self, k):
        try:
            with open(os.path.join(self.dir, "state", str(k))) as f:
                return f.read()
        except OSError:
            return "run"

    def hold(self, on):
        p = os.path.join(self.dir, "hold", str(self.me))
        if on:
            self._touch("hold", str(self.me))
        else:
            try:
                os.unlink(p)
            except FileNotFoundError:
                pass

    def done(self):
        self.set_state("done")
        self._log("X", "-")

    # ---------------------------------------------------------------- infeasibility
    def _blocked_on(self, k):
        st = self._state_of(k)
        if st.startswith("wait:"):
            _, j, h, kind = st.split(":")
            if not self._has("arr" if kind == "arrived" else "pas", f"{j}.{h}"):
                return {int(j)}
            return set()
        if st == "lockwait":
            return {m for m in range(self.n) if m != k and self._has("hold", str(m))}
        return set()

    def _leads_back(self, j):
        seen, todo = set(), [j]
        while todo:
            k = todo.pop()
            for m in self._blocked_on(k):
                if m == self.me:
                    return True
                if m not in seen:
                    seen.add(m)
                    todo.append(m)
        return False

    # ---------------------------------------------------------------- the gate
    def gate(self, name):
        if name in self.seen:
            return
        self.seen.add(name)
        self._touch("arr", f"{self.me}.{name}")
        self._log("A", name)
        for j, h, kind in self.waits.get(name, ()):
            sub = "arr" if kind == "arrived" else "pas"
            marker = f"{j}.{h}"
            if self._has(sub, marker):
                self._log("C", name, f"{j}.{h}.{kind}\tok-immediate")
                continue
            self.set_state(f"wait:{j}:{h}:{kind}")
            t0 = time.monotonic()
            cyc = 0
            outcome = None
            while outcome is None:
                if self._has(sub, marker):
                    outcome = "ok-waited"
                    break
                if self._state_of(j) == "done":
                    # markers are written before "done": look once more
                    outcome = "ok-waited" if self._has(sub, marker) else "escaped-target-done"
                    break
                if self._leads_back(j):
                    cyc += 1
                    if cyc >= 3:
                        outcome = "escaped-cycle"
                        break
                else:
                    cyc = 0
                if time.monotonic() - t0 > self.escape_s:
                    outcome = "escaped-timeout"
                    break
                time.sleep(self.POLL)
            self.set_state("run")
            self._log("C", name, f"{j}.{h}.{kind}\t{outcome}")
        self._touch("pas", f"{self.me}.{name}")
        self._log("P", name)

    # ---------------------------------------------------------------- which job is THE job
    def adopt(self, job):
        if self.main_dir is None and self.adopt_what == "node":
            from pydra.utils.general import is_workflow

            if is_workflow(job.task):
                return
        if self.main_dir is None:
            self.main_dir = os.path.realpath(str(job.cache_dir))
            self.main_lock = os.path.realpath(str(job.lockfile))

    def is_job_lock(self, lock_file):
        return self.main_lock is not None and os.path.realpath(str(lock_file)) == self.main_lock

    def is_job_dir(self, path):
        return self.main_dir is not None and os.path.realpath(str(path)) == self.main_dir


def install():
    """wrap the job path once per process; the wrappers are inert without a current GateCtl"""
    if _installed[0]:
        return
    import filelock

    from pydra.engine import job as jobmod

    SFL = filelock.SoftFileLock
    if jobmod.SoftFileLock is not SFL:
        raise HarnessError("L1 unavailable: pydra.engine.job does not use filelock.SoftFileLock")
    for obj, names in ((SFL, ("acquire", "release", "_acquire")),
                       (jobmod.Job, ("_populate_filesystem", "result", "run", "run_async", "lockfile", "cache_dir")),
                       (jobmod, ("save",))):
        for nm in names:
            if not hasattr(obj, nm):
                raise HarnessError(f"L1 unavailable: {obj!r} has no attribute {nm!r}")

    o_acquire, o_release, o__acquire = SFL.acquire, SFL.release, SFL._acquire

    def acquire(self, *a, **kw):
        ctl = current()
        main = ctl is not None and ctl.is_job_lock(self.lock_file)
        if main:
            ctl.gate("before_acquire")
        try:
            r = o_acquire(self, *a, **kw)
        except filelock.Timeout:
            if main:  # PydraFileLock polls with timeout=0
                ctl.set_state("lockwait")
                ctl.gate("lock_wait")
            raise
        if main:
            ctl.acquired = True
            ctl.hold(True)
            ctl.set_state("run")
            ctl.gate("after_acquire")
        return r

    def _acquire(self):
        r = o__acquire(self)
        ctl = current()
        if ctl is not None and not self.is_locked and ctl.is_job_lock(self.lock_file):
            ctl.set_state("lockwait")
            ctl.gate("lock_wait")
        return r

    def release(self, *a, **kw):
        ctl = current()
        main = ctl is not None and ctl.is_job_lock(self.lock_file) and ctl.acquired
        if main:
            ctl.gate("before_release")
        try:
            return o_release(self, *a, **kw)
        finally:
            if main and not self.is_locked:
                ctl.hold(False)
                ctl.gate("after_release")

    SFL.acquire, SFL.release, SFL._acquire = acquire, release, _acquire

    o_pop, o_result = jobmod.Job._populate_filesystem, jobmod.Job.result
    o_run, o_run_async = jobmod.Job.run, jobmod.Job.run_async
    o_save = jobmod.save

    def run(self, *a, **kw):
        ctl = current()
        if ctl is not None:
            ctl.adopt(self)
        return o_run(self, *a, **kw)

    async def run_async(self, *a, **kw):
        ctl = current()
        if ctl is not None:
            ctl.adopt(self)
        return await o_run_async(self, *a, **kw)

    def _populate_filesystem(self, *a, **kw):
        r = o_pop(self, *a, **kw)
        ctl = current()
        if ctl is not None and ctl.is_job_dir(self.cache_dir):
            ctl.gate("after_populate")
        return r

    def result(self, *a, **kw):
        r = o_result(self, *a, **kw)
        ctl = current()
        if ctl is not None and ctl.acquired and not ctl.checked and ctl.is_job_dir(self.cache_dir):
            ctl.checked = True
            ctl.gate("after_check")
        return r

    def save(*a, **kw):
        ctl = current()
        path = a[0] if a else kw.get("task_path")
        with_result = (ctl is not None and ctl.is_job_dir(path) and
                       (kw.get("result") is not None or (len(a) > 1 and a[1] is not None)))
        if with_result:
            gate("before_save")
        r = o_save(*a, **kw)
        if with_result:
            gate("after_save")
        return r

    jobmod.Job._populate_filesystem = _populate_filesystem
    jobmod.Job.result = result
    jobmod.Job.run, jobmod.Job.run_async = run, run_async
    jobmod.save = save
    _installed[0] = True


# --------------------------------------------------------------------------- event log
def read_events(directory):
    """-> list of dict(t, who, kind, gate, extra) in time order"""
    p = Path(directory) / "ev.log"
    if not p.exists():
        return []
    ev = []
    for ln in p.read_text().splitlines():
        parts = ln.split("\t")
        if len(parts) < 4:
            continue
        ev.append(dict(t=int(parts[0]), who=int(parts[1]), kind=parts[2], gate=parts[3],
                       extra=parts[4:] if len(parts) > 4 else []))
    ev.sort(key=lambda e: e["t"])
    return ev


def summarize(events):
    """constraint outcomes and the facts the non-triviality rule needs"""
    outcomes = {}
    for e in events:
        if e["kind"] == "C" and len(e["extra"]) >= 2:
            outcomes[e["extra"][1]] = outcomes.get(e["extra"][1], 0) + 1
    acq = {}
    for e in events:
        if e["kind"] == "P" and e["gate"] in ("after_acquire", "lock_wait"):
            acq.setdefault(e["who"], e["t"])
    feasible = outcomes.get("ok-waited", 0) + outcomes.get("ok-immediate", 0)
    waited_on_lock = sorted({e["who"] for e in events if e["kind"] == "P" and e["gate"] == "lock_wait"})
    order = [(e["who"], e["gate"]) for e in events if e["kind"] == "P"]
    return dict(outcomes=outcomes, acquirers=len(acq), distinct_times=len(set(acq.values())),
                feasible=feasible, steered=outcomes.get("ok-waited", 0), lock_waiters=waited_on_lock,
                order=order)


def dump_json(path, obj):
    tmp = f"{path}.tmp"
    with open(tmp, "w") as f:
        json.dump(obj, f, default=repr)
    os.replace(tmp, path)
