"""Simulated back-ends for the environment properties (DESIGN 4.4).

* `capture_execute()`  replaces `pydra.environments.base.execute` (native, docker, singularity and
  lmod all call it as the module attribute `base.execute`) by a recorder that stores the argument
  vector and keyword arguments and fabricates the `(return_code, stdout, stderr)` triple the
  callers unpack.  An `on_call` hook lets the check create the output files the fake command
  "produced", so that pydra's output collection succeeds.
* `FakeLmod`  writes a `$MODULESHOME/libexec/lmod` shell script that logs how it was invoked and
  prints, for `python load m1 m2 ...`, the concatenation of the per-module python programs.
"""
from __future__ import annotations

import contextlib
import os
from pathlib import Path

from vlib.harness import HarnessError


class Recorder:
    def __init__(self, on_call=None, result=(0, "", "")):
        self.calls: list[tuple[list[str], dict]] = []
        self.raw_types: list[list[str]] = []
        self.on_call = on_call
        self.result = result

    def __call__(self, cmd, strip=False, **kwargs):
        self.raw_types.append([type(c).__name__ for c in cmd])
        argv = [c if isinstance(c, str) else os.fspath(c) for c in cmd]
        self.calls.append((argv, dict(kwargs)))
        if self.on_call is not None:
            self.on_call(argv, kwargs)
        return self.result


@contextlib.contextmanager
def capture_execute(on_call=None):
    import pydra.environments.base as ebase
    from pydra.environments import docker, lmod, native, singularity

    for mod in (docker, lmod, native, singularity):
        if getattr(mod, "base", None) is not ebase:
            raise HarnessError(
                f"{mod.__name__} does not reach execute() through the pydra.environments.base "
                "module attribute any more: the capture point of C27/C39 has moved")
    rec = Recorder(on_call)
    real = ebase.execute
    ebase.execute = rec
    try:
        yield rec
    finally:
        ebase.execute = real


def job_dirs(cache_root: Path):
    return sorted(p for p in Path(cache_root).iterdir() if p.is_dir() and p.name.startswith("shell-"))


def run_recorded(built, cache_root: Path, environment):
    """Run `built` (vlib.gen.envs.Built) end to end with execute() recorded; the recorder creates
    the declared output files.  -> (argv, kwargs, job cache dir); raises what pydra raises."""
    seen = {}

    def on_call(argv, kwargs):
        dirs = job_dirs(cache_root)
        if len(dirs) != 1:
            raise HarnessError(f"expected one job directory in the cache root, found {dirs}")
        seen["cache_dir"] = dirs[0]
        for _name, explicit, resolved in built.outs:
            (explicit if explicit is not None else dirs[0] / resolved).write_text("out\n")

    with capture_execute(on_call) as rec:
        built.task_cls(**built.kwargs)(cache_root=cache_root, environment=environment,
                                       worker="debug")
    if len(rec.calls) != 1:
        raise HarnessError(f"execute() called {len(rec.calls)} times for one job")
    argv, kwargs = rec.calls[0]
    return argv, kwargs, seen["cache_dir"]


LMOD_SCRIPT = """#!/bin/sh
# simulated lmod: logs its invocation, prints the python program of every requested module
here="{home}"
printf '%s\\n' "$*" >> "$here/invocations.log"
if [ "$1" != python ] || [ "$2" != load ]; then
  printf '_mlstatus = False\\n'
  exit 0
fi
shift 2
for m in "$@"; do
  f="$here/modules/$(printf '%s' "$m" | tr '/' '_').py"
  if [ ! -f "$f" ]; then
    printf '_mlstatus = False\\n'
    exit 0
  fi
  cat "$f"
done
printf '_mlstatus = True\\n'
"""


class FakeLmod:
    """A MODULESHOME directory with a scripted lmod executable."""

    def __init__(self, home: Path):
        self.home = Path(home)
        (self.home / "libexec").mkdir(parents=True, exist_ok=True)
        (self.home / "modules").mkdir(parents=True, exist_ok=True)
        script = self.home / "libexec" / "lmod"
        script.write_text(LMOD_SCRIPT.format(home=self.home))
        script.chmod(0o755)

    def add_module(self, name: str, program: str):
        (self.home / "modules" / (name.replace("/", "_") + ".py")).write_text(program)

    def invocations(self) -> list[str]:
        f = self.home / "invocations.log"
        return f.read_text().splitlines() if f.exists() else []


@contextlib.contextmanager
def patched_environ(updates: dict, remove=()):
    """Temporarily set/remove variables of this process' environment."""
    saved = {k: os.environ.get(k) for k in list(updates) + list(remove)}
    try:
        for k in remove:
            os.environ.pop(k, None)
        os.environ.update(updates)
        yield
    finally:
        for k, v in saved.items():
            if v is None:
                os.environ.pop(k, None)
            else:
                os.environ[k] = v
