"""Schedule injection for the C13 witness of the cf status-polling race (F-C13-3).

Two legal timing assumptions are made deterministic:
  * the pool process takes a while to hand a raised exception back to the submitter (it waits
    for the marker file `<gate>/release`, written after the submitter's next pass; the sibling
    node's body waits for `<gate>/failed`, so that its completion triggers that pass), and
  * the result file of node `name` becomes visible between the submitter's look at that node
    and its look at the node's successor in the same pass (`late_visibility`: the first status
    refresh of that node in every pass is skipped).
Nothing in pydra's logic is changed; only *when* things are observed.
"""
from __future__ import annotations

import contextlib
import os
import time


def _wait_for(path, patience):
    t0 = time.time()
    while not os.path.exists(path) and time.time() - t0 < patience:
        time.sleep(0.02)


@contextlib.contextmanager
def poll_race(gate, node_name="r", patience=30.0):
    from pydra.engine import submitter as sm
    from pydra.workers import cf

    orig_run = cf.ConcurrentFuturesWorker.__dict__["uncloudpickle_and_run"]
    orig_update = sm.NodeExecution.update_status
    orig_pass = sm.Submitter.get_runnable_tasks
    state = {"hide": False}

    def slow(cls, job_pkl, rerun):
        try:
            return orig_run.__func__(cls, job_pkl, rerun)
        except Exception:
            # the job failed and its errored result is on disk: let the slow sibling finish
            # now, and hand the exception back only after the submitter's next pass
            open(os.path.join(gate, "failed"), "w").close()
            _wait_for(os.path.join(gate, "release"), patience)
            raise

    # the pool pickles the bound classmethod by name
    slow.__name__ = "uncloudpickle_and_run"
    slow.__qualname__ = "ConcurrentFuturesWorker.uncloudpickle_and_run"

    def update_status(self):
        if self.name == node_name and state["hide"]:
            state["hide"] = False
            return None
        return orig_update(self)

    def get_runnable_tasks(self, graph):
        state["hide"] = True
        state["passes"] = state.get("passes", 0) + 1
        try:
            return orig_pass(self, graph)
        finally:
            state["hide"] = False
            if state["passes"] >= 2:
                open(os.path.join(gate, "release"), "w").close()

    cf.ConcurrentFuturesWorker.uncloudpickle_and_run = classmethod(slow)
    sm.NodeExecution.update_status = update_status
    sm.Submitter.get_runnable_tasks = get_runnable_tasks
    try:
        yield
    finally:
        cf.ConcurrentFuturesWorker.uncloudpickle_and_run = orig_run
        sm.NodeExecution.update_status = orig_update
        sm.Submitter.get_runnable_tasks = orig_pass


@contextlib.contextmanager
def slow_start(gate, passes=3, patience=6.0):
    """Witness of the stale-read race (F-C13-4): the pool process is slow to START a job (it
    waits for `<gate>/release`, written after the submitter's `passes`-th look at the graph, at
    most `patience` s), so the submitter's status polling looks at the job's cache directory
    while it still holds what the previous run left there.  Nothing in pydra's logic is changed;
    only *when* the pool process begins."""
    from pydra.engine import submitter as sm
    from pydra.workers import cf

    orig_run = cf.ConcurrentFuturesWorker.__dict__["uncloudpickle_and_run"]
    orig_pass = sm.Submitter.get_runnable_tasks
    release = os.path.join(gate, "release")
    if os.path.exists(release):
        os.unlink(release)
    state = {"passes": 0}

    def slow(cls, job_pkl, rerun):
        _wait_for(release, patience)
        return orig_run.__func__(cls, job_pkl, rerun)

    slow.__name__ = "uncloudpickle_and_run"
    slow.__qualname__ = "ConcurrentFuturesWorker.uncloudpickle_and_run"

    def get_runnable_tasks(self, graph):
        state["passes"] += 1
        try:
            return orig_pass(self, graph)
        finally:
            if state["passes"] >= passes:
                open(release, "w").close()

    cf.ConcurrentFuturesWorker.uncloudpickle_and_run = classmethod(slow)
    sm.Submitter.get_runnable_tasks = get_runnable_tasks
    try:
        yield
    finally:
        cf.ConcurrentFuturesWorker.uncloudpickle_and_run = orig_run
        sm.Submitter.get_runnable_tasks = orig_pass
        open(release, "w").close()
