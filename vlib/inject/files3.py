"""Helpers for C09: a long-lived child interpreter that hashes files on request (so that the
persistent hash cache is exercised from a second process), and an environment switch.

The child is started lazily, once per process, with the parent's environment (PYTHONPATH selects
the tree under test); it exits when its stdin reaches EOF, i.e. when the parent goes away.
"""
from __future__ import annotations

import contextlib
import json
import os
import subprocess
import sys

from vlib.harness import REPO, HarnessError

_SERVER = r"""
import json, os, sys
from pathlib import Path
os.environ["NO_ET"] = "true"
import pydra.utils.hash as H
from fileformats.generic import File, Directory
repo = sys.argv[1]
ok = str(Path(H.__file__).resolve()).startswith(str(Path(repo).resolve()) + os.sep)
sys.stdout.write(json.dumps({"ready": ok, "file": H.__file__}) + "\n"); sys.stdout.flush()
for line in sys.stdin:
    req = json.loads(line)
    try:
        cls = Directory if req["kind"] == "Directory" else File
        h = H.hash_function(cls(req["path"]), persistent_cache=Path(req["cache"]))
        out = {"h": h}
    except BaseException as e:
        out = {"err": f"{type(e).__name__}: {e}"}
    sys.stdout.write(json.dumps(out) + "\n"); sys.stdout.flush()
"""

_proc = None


def _server():
    global _proc
    if _proc is not None and _proc.poll() is None:
        return _proc
    _proc = subprocess.Popen(
        [sys.executable, "-u", "-c", _SERVER, str(REPO)],
        stdin=subprocess.PIPE, stdout=subprocess.PIPE, text=True, env=dict(os.environ),
    )
    hello = json.loads(_proc.stdout.readline() or "{}")
    if not hello.get("ready"):
        raise HarnessError(f"hash child does not run the tree under test: {hello}")
    return _proc


def child_hash(kind: str, path, cache_dir) -> str:
    """hash_function(kind(path), persistent_cache=cache_dir) evaluated in the child process"""
    p = _server()
    p.stdin.write(json.dumps(dict(kind=kind, path=str(path), cache=str(cache_dir))) + "\n")
    p.stdin.flush()
    line = p.stdout.readline()
    if not line:
        raise HarnessError("hash child died")
    out = json.loads(line)
    if "err" in out:
        raise RuntimeError("child: " + out["err"])
    return out["h"]


@contextlib.contextmanager
def hash_cache_env(path):
    """temporarily point PYDRA_HASH_CACHE (read at every default PersistentCache()) elsewhere"""
    old = os.environ.get("PYDRA_HASH_CACHE")
    os.environ["PYDRA_HASH_CACHE"] = str(path)
    try:
        yield
    finally:
        if old is None:
            os.environ.pop("PYDRA_HASH_CACHE", None)
        else:
            os.environ["PYDRA_HASH_CACHE"] = old
