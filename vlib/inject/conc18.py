"""C18 machinery: run one submission in a forked child under a CPU-time limit and a wall watchdog,
with two detectors of an EXACTLY REPEATING LOOP STATE installed in the child (harness-side wrappers,
no edits to pydra):

 * graph sorting   `DiGraph.sorting` loops `while notsorted_nodes:` around `DiGraph._sorting`.  Two
                   consecutive `_sorting` calls inside ONE `sorting()` invocation with identical
                   arguments (same not-yet-sorted node list, same predecessor table) that both
                   return an empty sorted part: the loop state is a fixed point, the loop can never
                   end.
 * submitter loop  the workflow expansion loops of the submitter call `get_runnable_tasks` once
                   per iteration.  REPEAT_N (> the 11 polls of the engine's own stall branch)
                   consecutive calls that return the same jobs while nothing is in flight (no job
                   run, no future completed in between, `fetch_finished` only ever called with an
                   empty set) and the cache root is byte-for-byte listing-identical (names, sizes,
                   mtimes): every iteration is a function of exactly that state, so it repeats
                   forever.

When a detector fires, the child writes the proof into its outcome file and exits at once.

`run_child(fn, ...)` -> dict(status, result, cpu_s, wall_s):
   status "ok"        fn returned (result = its JSON value, possibly containing a "proof")
          "cpu"       killed by the CPU-time limit (SIGXCPU from RLIMIT_CPU)
          "wall"      still running at the wall watchdog; whole process group killed
          "exit:<n>" / "signal:<n>"  anything else
"""
from __future__ import annotations

import json
import os
import resource
import signal
import sys
import time
import traceback
from pathlib import Path

from vlib.harness import HarnessError

REPEAT_N = 50
PROOF_EXIT = 0


class _Detectors:
    def __init__(self, outfile, cache_root):
        self.outfile = Path(outfile)
        self.cache_root = str(cache_root)
        self.sort_invocation = 0
        self.last_sort = None          # (invocation, key)
        self.last_loop = None
        self.loop_repeats = 0
        self.progress = False
        self.context = {}

    # -- proof -> outcome file -> exit
    def fire(self, kind, detail):
        payload = dict(result=dict(status="proof", proof=dict(kind=kind, **detail), context=self.context,
                                   cpu_s=round(time.process_time(), 3)))
        tmp = self.outfile.with_suffix(".tmp")
        tmp.write_text(json.dumps(payload, default=repr))
        os.rename(tmp, self.outfile)
        sys.stdout.flush()
        sys.stderr.flush()
        os._exit(PROOF_EXIT)

    def snapshot(self):
        rows = []
        try:
            with os.scandir(self.cache_root) as it:
                for e in it:
                    try:
                        st = e.stat(follow_symlinks=False)
                        rows.append((e.name, st.st_size, st.st_mtime_ns))
                    except FileNotFoundError:
                        rows.append((e.name, -1, -1))
        except FileNotFoundError:
            pass
        rows.sort()
        return tuple(rows)


def _nm(obj, attr="name"):
    try:
        return getattr(obj, attr)
    except AttributeError:
        return f"<{type(obj).__name__}@{id(obj):x}>"


def install_detectors(outfile, cache_root):
    """wrap DiGraph.sorting/_sorting and Submitter.get_runnable_tasks/fetch_finished, Job.run"""
    from pydra.engine import graph as graphmod
    from pydra.engine import job as jobmod
    from pydra.engine import submitter as submod

    det = _Detectors(outfile, cache_root)
    DiGraph = graphmod.DiGraph
    for name in ("sorting", "_sorting"):
        if not hasattr(DiGraph, name):
            raise HarnessError(f"L1 unavailable: DiGraph.{name} not found (graph module refactored?)")
    for name in ("get_runnable_tasks", "fetch_finished"):
        if not hasattr(submod.Submitter, name):
            raise HarnessError(f"L1 unavailable: Submitter.{name} not found")

    orig_sorting, orig__sorting = DiGraph.sorting, DiGraph._sorting

    def sorting(self, *a, **kw):
        det.sort_invocation += 1
        det.last_sort = None
        return orig_sorting(self, *a, **kw)

    def _sorting(self, notsorted_list, predecessors):
        res = orig__sorting(self, notsorted_list, predecessors)
        try:
            sorted_part = res[0]
            key = (tuple(_nm(n) for n in notsorted_list),
                   tuple(sorted((k, tuple(_nm(p) for p in v)) for k, v in predecessors.items())))
        except Exception:  # different shape after a refactor: no proof possible, never a verdict
            return res
        if notsorted_list and not sorted_part:
            cur = (det.sort_invocation, key)
            if det.last_sort == cur:
                det.fire("graph-sorting-fixed-point",
                         dict(unsorted=list(key[0]),
                              predecessors={k: list(v) for k, v in key[1] if k in key[0]}))
            det.last_sort = cur
        else:
            det.last_sort = None
        return res

    DiGraph.sorting, DiGraph._sorting = sorting, _sorting

    orig_grt = submod.Submitter.get_runnable_tasks
    orig_ff = submod.Submitter.fetch_finished
    orig_run = jobmod.Job.run
    orig_run_async = jobmod.Job.run_async

    def get_runnable_tasks(self, graph):
        tasks = orig_grt(self, graph)
        state = (tuple(_nm(t, "checksum") for t in tasks), det.snapshot())
        if det.progress or state != det.last_loop:
            det.loop_repeats = 0
        else:
            det.loop_repeats += 1
        det.progress = False
        det.last_loop = state
        if det.loop_repeats >= REPEAT_N:
            not_done = []
            try:
                for n in graph.nodes:
                    if not n.done:
                        not_done.append(dict(node=n.name, queued=len(n.queued or {}),
                                             running=len(n.running or {}),
                                             blocked=len(n.blocked or {}) if n.blocked is not None else None))
            except Exception:
                pass
            det.fire("submitter-loop-fixed-point",
                     dict(iterations=det.loop_repeats, runnable=list(state[0]), nodes_not_done=not_done,
                          cache_root_entries=len(state[1])))
        return tasks

    async def fetch_finished(self, futures):
        if futures:
            det.progress = True  # something is in flight: the state may change by itself
        pending, done = await orig_ff(self, futures)
        if done:
            det.progress = True
        return pending, done

    def run(self, *a, **kw):
        det.progress = True
        return orig_run(self, *a, **kw)

    async def run_async(self, *a, **kw):
        det.progress = True
        return await orig_run_async(self, *a, **kw)

    jobmod.Job.run_async = run_async
    submod.Submitter.get_runnable_tasks = get_runnable_tasks
    submod.Submitter.fetch_finished = fetch_finished
    jobmod.Job.run = run
    return det


def run_child(fn, cpu_limit_s, wall_limit_s, outfile, logfile=None, cache_root=None):
    """Run `fn(det)` in a forked child (own session).  `det` is the detector object (det.context is
    a dict the function may fill with facts that should accompany a proof)."""
    outfile = Path(outfile)
    if outfile.exists():
        outfile.unlink()
    sys.stdout.flush()
    sys.stderr.flush()
    t0 = time.time()
    pid = os.fork()
    if pid == 0:  # ------------------------------------------------------------------ child
        rc = 98
        try:
            os.setsid()
            if logfile is not None:
                fd = os.open(logfile, os.O_WRONLY | os.O_APPEND | os.O_CREAT, 0o644)
                os.dup2(fd, 1)
                os.dup2(fd, 2)
                os.close(fd)
            dn = os.open(os.devnull, os.O_RDONLY)
            os.dup2(dn, 0)
            os.close(dn)
            cpu = int(cpu_limit_s) + int(time.process_time()) + 1
            resource.setrlimit(resource.RLIMIT_CPU, (cpu, cpu + 5))
            try:
                det = install_detectors(outfile, cache_root)
                res = fn(det)
                payload = dict(result=res)
                rc = 0
            except BaseException:
                payload = dict(harness_error=traceback.format_exc())
                rc = 99
            tmp = outfile.with_suffix(".tmp")
            tmp.write_text(json.dumps(payload, default=repr))
            os.rename(tmp, outfile)
            sys.stdout.flush()
            sys.stderr.flush()
        finally:
            os._exit(rc)
    # ---------------------------------------------------------------------------------- parent
    status, ru = None, None
    deadline = t0 + wall_limit_s
    delay = 0.002
    while True:
        wpid, st, ru = os.wait4(pid, os.WNOHANG)
        if wpid == pid:
            if os.WIFSIGNALED(st):
                sig = os.WTERMSIG(st)
                status = "cpu" if sig == signal.SIGXCPU else f"signal:{sig}"
            else:
                status = f"exit:{os.WEXITSTATUS(st)}"
            break
        if time.time() > deadline:
            status = "wall"
            break
        time.sleep(delay)
        delay = min(delay * 1.5, 0.05)
    try:
        os.killpg(pid, signal.SIGKILL)
    except (ProcessLookupError, PermissionError):
        pass
    if status == "wall":
        try:
            _, _, ru = os.wait4(pid, 0)
        except ChildProcessError:
            pass
    # reap stragglers of the group that were re-parented to us (subreaper set by the caller, if any)
    end = time.time() + 2.0
    while time.time() < end:
        try:
            wp, _ = os.waitpid(-1, os.WNOHANG)
        except ChildProcessError:
            break
        if wp == 0:
            break
    wall = time.time() - t0
    cpu_s = round(ru.ru_utime + ru.ru_stime, 3) if ru is not None else None
    payload = None
    if outfile.exists():
        try:
            payload = json.loads(outfile.read_text())
        except ValueError:
            payload = None
    if payload and "harness_error" in payload:
        raise HarnessError("C18 child failed inside the harness:\n" + payload["harness_error"])
    if payload is not None and status in ("exit:0",):
        return dict(status="ok", result=payload["result"], cpu_s=cpu_s, wall_s=round(wall, 3))
    if status == "exit:0":
        raise HarnessError("C18 child exited 0 without an outcome file")
    return dict(status=status, result=None, cpu_s=cpu_s, wall_s=round(wall, 3))
