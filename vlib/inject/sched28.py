"""Scripted batch scheduler, no-delay sleep and hang watchdog for C28.

`pydra.workers.base.read_and_display_async` is what slurm.py / sge.py call (as
`base.read_and_display_async(*cmd, hide_display=True)`) for every scheduler command; it is replaced
by `FakeScheduler.__call__`, which answers sbatch/squeue/sacct/scontrol (SLURM) and
qsub/qstat/qacct (SGE) from the scenario and logs every invocation.

Model of the scheduler (deliberately independent of how often a worker polls):
* a *logical job* is a batch script; every submission of it (sbatch/qsub) or requeue
  (`scontrol requeue`) starts its next scripted *attempt*; the last attempt is sticky;
* an attempt = `pre` (PENDING/RUNNING answers, one consumed per status query), then the payload
  runs (or not), then `linger` (job still listed by squeue), then accounting answers `lag`
  (RUNNING/PENDING/missing record, one consumed per accounting query) and finally its `end`.
"""
from __future__ import annotations

import asyncio
import contextlib
import io
import json
import os
import re
import signal
import subprocess
import sys
import time
import traceback
from pathlib import Path

from vlib.harness import HarnessError

MAX_CALLS = 4000  # scheduler invocations per scenario (normal: < 60)
MAX_IDLE_YIELDS = 200_000  # consecutive patched sleeps without any scheduler invocation
WALL_LIMIT = 90.0  # seconds outside scheduler calls (normal scenario cost: 0.02 - 0.2 s)
CHILD_LIMIT = 300  # seconds for one payload run through /bin/sh (normal: 0.7 - 2 s)
PROOF_TICK = 0.1  # CPU seconds between samples of the no-progress proof
PROOF_SAMPLES = 4


class Abort(BaseException):
    """Raised out of the scenario by the machinery (hang, livelock, stale lock)."""

    def __init__(self, kind, where="", detail=None):
        super().__init__(f"{kind}@{where}")
        self.kind, self.where, self.detail = kind, where, detail


# --------------------------------------------------------------------------- formats
SLURM_END = {  # end -> (sacct State column, default ExitCode)
    "completed": ("COMPLETED", "0:0"),
    "failed": ("FAILED", "1:0"),
    "oom": ("OUT_OF_ME+", "0:125"),
    "cancelled": ("CANCELLED", "0:0"),
    "timeout": ("TIMEOUT", "0:0"),
    "preempted": ("PREEMPTED", "0:0"),
    "node_fail": ("NODE_FAIL", "0:0"),
}
SGE_END = {  # end -> (failed field, exit_status)
    "completed": ("0", "0"),
    "failed": ("0", "1"),
    "oom": ("0", "137"),
    "cancelled": ("100 : assumedly after job", "137"),
    "timeout": ("37  : qmaster enforced h_rt, h_cpu, or h_vmem limit", "137"),
    "preempted": ("25  : rescheduling", "0"),
    "evicted": ("19  : before writing exit_status", "0"),
}


def sacct_line(jobid, state, code):
    return f"{jobid:<12} {state:>10} {code:>8} \n"


def squeue_line(jobid, st):
    return f"{jobid:>18}     debug   pydra  builder {st:>2}       0:01      1 node01\n"


def qacct_record(jobid, taskid, failed, exit_status):
    rows = [
        ("qname", "all.q"), ("hostname", "node01"), ("group", "users"), ("owner", "builder"),
        ("project", "NONE"), ("department", "defaultdepartment"), ("jobname", "pydra"),
        ("jobnumber", jobid), ("taskid", str(taskid)), ("account", "sge"), ("priority", "0"),
        ("qsub_time", "Mon Sep 21 10:00:00 2026"), ("start_time", "Mon Sep 21 10:00:01 2026"),
        ("end_time", "Mon Sep 21 10:00:02 2026"), ("granted_pe", "NONE"), ("slots", "1"),
        ("failed", failed), ("exit_status", exit_status), ("ru_wallclock", "1"),
        ("ru_utime", "0.100"), ("ru_stime", "0.050"), ("cpu", "0.150"), ("mem", "0.001"),
        ("io", "0.000"), ("maxvmem", "10.000M"), ("arid", "undefined"),
    ]
    return "=" * 62 + "\n" + "".join(f"{k:<12} {v}\n" for k, v in rows)


# --------------------------------------------------------------------------- option parsing
SLURM_OPTS = {"name": ("-J", "--job-name"), "output": ("-o", "--output"), "error": ("-e", "--error")}
SGE_OPTS = {"name": ("-N",), "output": ("-o",), "error": ("-e",)}
# other options of the generated pool that take a separate value token
SLURM_VALUE_SHORT = {"-N", "-n", "-p", "-t", "-c", "-A", "-w", "-x", "-D", "-M", "-C"}
SLURM_VALUE_LONG = {"--nodes", "--ntasks", "--partition", "--time", "--mem", "--comment",
                    "--constraint", "--account", "--chdir", "--export", "--qos"}
SGE_VALUE = {"-t", "-pe", "-l", "-q", "-P", "-M", "-m", "-S", "-wd", "-v", "-p", "-tc"}


def parse_slurm_argv(tokens):
    """-> (found, rest): found = list of (class, spelling, value) for name/output/error options,
    following getopt_long conventions (`-J v`, `-Jv`, `--job-name=v`, `--job-name v`)."""
    found, i = [], 0
    short = {v[0]: k for k, v in SLURM_OPTS.items()}
    long_ = {v[1]: k for k, v in SLURM_OPTS.items()}
    while i < len(tokens):
        t = tokens[i]
        if t in short:
            found.append((short[t], t + " V", tokens[i + 1] if i + 1 < len(tokens) else None))
            i += 2
        elif t[:2] in short and not t.startswith("--") and len(t) > 2:
            found.append((short[t[:2]], t[:2] + "V", t[2:]))
            i += 1
        elif t in long_:
            found.append((long_[t], t + " V", tokens[i + 1] if i + 1 < len(tokens) else None))
            i += 2
        elif t.startswith("--") and "=" in t and t.split("=", 1)[0] in long_:
            k, v = t.split("=", 1)
            found.append((long_[k], k + "=V", v))
            i += 1
        elif t in SLURM_VALUE_SHORT or t in SLURM_VALUE_LONG:
            i += 2
        else:
            i += 1
    return found


def parse_sge_argv(tokens):
    found, i = [], 0
    short = {v[0]: k for k, v in SGE_OPTS.items()}
    while i < len(tokens):
        t = tokens[i]
        if t in short:
            found.append((short[t], t + " V", tokens[i + 1] if i + 1 < len(tokens) else None))
            i += 2
        elif t in SGE_VALUE:
            i += 2
        else:
            i += 1
    return found


# --------------------------------------------------------------------------- the scheduler
class _Attempt:
    def __init__(self, spec):
        self.spec = spec
        self.pre = list(spec.get("pre", []))
        self.linger = int(spec.get("linger", 0))
        self.lag = list(spec.get("lag", []))
        self.ran = False  # payload step taken (whether or not a payload exists)
        self.end = spec["end"]


class _Logical:
    """one batch script = one job of the workflow"""

    def __init__(self, script, attempts):
        self.script = script
        self.specs = attempts
        self.idx = -1
        self.att: _Attempt | None = None
        self.beyond = 0
        self.argv = None
        self.ntasks = 1

    def start_next(self):
        if self.idx + 1 < len(self.specs):
            self.idx += 1
            self.att = _Attempt(self.specs[self.idx])
        else:
            self.beyond += 1  # sticky: the last attempt's verdict stays
        return self.idx


class FakeScheduler:
    def __init__(self, case, cache_root: Path, control_file=None):
        self.case = case
        self.control_file = control_file
        self.kind = case["worker"]
        self.cache_root = Path(cache_root)
        self.calls: list[list[str]] = []
        self.events: list[str] = []
        self.logical: dict[str, _Logical] = {}
        self.by_id: dict[str, tuple[_Logical, int]] = {}  # jobid -> (logical, attempt index)
        self.next_id = 4100
        self.harness_error = None
        self.in_call = 0
        self.time_in_calls = 0.0  # wall time spent answering (mostly: running payloads)
        self.ncalls = 0
        self.payload_runs = 0
        self.unprompted_requeue = 0
        self.submit_argv: list[list[str]] = []

    # -- entry point ------------------------------------------------------
    async def __call__(self, *cmd, hide_display=False, strip=False):
        self.ncalls += 1
        if self.ncalls > MAX_CALLS:
            raise Abort("livelock", "scheduler-traffic",
                        dict(last_calls=[c[:4] for c in self.calls[-6:]]))
        cmd = [str(c) for c in cmd]
        self.calls.append(cmd)
        self.in_call += 1
        t_in = time.monotonic()
        try:
            name = cmd[0]
            fn = getattr(self, "_" + self.kind + "_" + name, None)
            if fn is None:
                raise HarnessError(f"fake {self.kind} scheduler: unexpected command {cmd[:4]}")
            rc, out, err = fn(cmd[1:])
        except HarnessError as e:
            self.harness_error = e  # pydra may swallow it as a job error: re-raised by the caller
            raise
        except Exception as e:  # a bug in the scripted scheduler must not pass for pydra's
            self.harness_error = HarnessError(f"scripted scheduler crashed on {cmd[:4]}: {e!r}")
            raise self.harness_error from e
        finally:
            self.in_call -= 1
            self.time_in_calls += time.monotonic() - t_in
        await _real_sleep(0)
        return rc, (out.strip() if strip else out), err

    # -- common -----------------------------------------------------------
    def _submit(self, argv):
        script = argv[-1]
        self.submit_argv.append(list(argv))
        if self.case.get("submit_rc"):
            self.events.append("submit-rejected")
            return None
        lg = self.logical.get(script)
        if lg is None:
            if not Path(script).exists():
                raise Abort("submitted-script-missing", script)
            n = len(self.logical)
            specs = self.case["attempts"] if n == 0 else self.case.get("attempts2") or [
                dict(pre=[], end="completed", payload="ok")]
            lg = self.logical[script] = _Logical(script, specs)
        lg.argv = list(argv[:-1])
        idx = lg.start_next()
        self.next_id += 7
        jobid = str(self.next_id)
        self.by_id[jobid] = (lg, idx)
        self.events.append(f"submit:{jobid}:attempt{idx}")
        return jobid

    def _lookup(self, jobid):
        if jobid not in self.by_id:
            return None, None, False
        lg, idx = self.by_id[jobid]
        current = idx == lg.idx
        return lg, lg.att if current else _Attempt(dict(lg.specs[idx], pre=[], lag=[], linger=0)), current

    def _tick(self, lg, att, jobid, current):
        """one status query: -> state string while active, None once the attempt is over"""
        if not current:
            return None
        if att.pre:
            return att.pre.pop(0)
        if not att.ran:
            att.ran = True
            self._run_payload(lg, att, jobid)
        return None

    # -- the cluster keeps working whether or not the worker asks ---------------
    def live(self):
        """attempts whose payload step has not been taken yet: the job is still queued or running
        on the cluster and will change the file system without any further scheduler command"""
        return [(jobid, lg) for jobid, (lg, idx) in self.by_id.items()
                if idx == lg.idx and lg.att is not None and not lg.att.ran]

    def advance(self, force_child=False):
        """Let every live job run to its end (time passes on the cluster)."""
        t_in = time.monotonic()
        self.in_call += 1
        try:
            for jobid, lg in self.live():
                lg.att.pre = []
                lg.att.ran = True
                self.events.append(f"cluster-time-passes:{jobid}")
                self._run_payload(lg, lg.att, jobid, force_child=force_child)
        finally:
            self.in_call -= 1
            self.time_in_calls += time.monotonic() - t_in

    # -- payload ----------------------------------------------------------
    def _out_err(self, lg, jobid):
        if self.kind == "slurm":
            found = parse_slurm_argv(lg.argv)
        else:
            found = parse_sge_argv(lg.argv)
        out = [v for c, _, v in found if c == "output" and v]
        err = [v for c, _, v in found if c == "error" and v]
        sub = (lambda s: s.replace("%j", jobid)) if self.kind == "slurm" else (lambda s: s)
        o = sub(out[-1]) if out else str(Path(lg.script).parent / f"default-{jobid}.out")
        e = sub(err[-1]) if err else o
        return Path(o), Path(e)

    def _stale_lock(self, lg):
        uid = Path(lg.script).parent.name
        info = self.cache_root / f"{uid}_info.json"
        if info.exists():
            checksum = json.loads(info.read_text())["checksum"]
            lock = self.cache_root / f"{checksum}.lock"
            if lock.exists():
                return str(lock.name)
        return None

    def _run_payload(self, lg, att, jobid, force_child=False):
        kind = att.spec.get("payload", "ok")
        if kind == "none":
            self.events.append(f"payload-skipped:{jobid}")
            return
        stale = self._stale_lock(lg)
        if stale:
            raise Abort("stale-lock", "requeued-payload-would-block",
                        dict(lock=stale, attempt=lg.idx, events=self.events[-6:]))
        o, e = self._out_err(lg, jobid)
        for p in (o, e):
            p.parent.mkdir(parents=True, exist_ok=True)
        self.payload_runs += 1
        if self.control_file:
            Path(self.control_file).write_text(kind)
        self.events.append(f"payload:{jobid}:{kind}")
        text = Path(lg.script).read_text()
        for task_id in range(1, lg.ntasks + 1):
            if self.case.get("exec", "inproc") == "sh" or force_child:
                env = dict(os.environ, SCHED28_CHILD="1", SGE_TASK_ID=str(task_id),
                           SLURM_JOB_ID=jobid, JOB_ID=jobid)
                with open(o, "ab") as fo, open(e, "ab") as fe:
                    try:
                        subprocess.run(["/bin/sh", lg.script], env=env, stdout=fo, stderr=fe,
                                       stdin=subprocess.DEVNULL, timeout=CHILD_LIMIT, cwd=str(self.cache_root))
                    except subprocess.TimeoutExpired:
                        raise Abort("payload-timeout", "child-process", dict(script=lg.script))
            else:
                if kind == "killed":
                    raise HarnessError("'killed' payload needs exec='sh'")
                err_text = self._run_inproc(text, lg.script, task_id)
                with open(o, "a"):
                    pass
                with open(e, "a") as fe:
                    fe.write(err_text)

    def _run_inproc(self, text, script, task_id):
        """Interpret the two-line batch script the worker wrote, in this process."""
        lines = [ln for ln in text.splitlines() if ln.strip() and not ln.startswith("#")]
        if len(lines) != 1:
            raise Abort("batch-script-malformed", "fake-sh", dict(script=text[:400]))
        line = lines[0]
        if not line.startswith(sys.executable + " "):
            raise Abort("batch-script-malformed", "interpreter", dict(script=text[:400]))
        rest = line[len(sys.executable) + 1:]
        argv0 = sys.argv
        cwd = os.getcwd()
        try:
            m = re.fullmatch(r"-c '([^']*)'\s*", rest)
            if m:
                prog, sys.argv = m.group(1), ["-c"]
            else:
                m = re.fullmatch(r"(\S+\.py) \$SGE_TASK_ID\s*", rest)
                if not m:
                    raise Abort("batch-script-malformed", "command", dict(script=text[:400]))
                prog, sys.argv = Path(m.group(1)).read_text(), [m.group(1), str(task_id)]
            buf = io.StringIO()
            try:
                with contextlib.redirect_stderr(buf):
                    exec(compile(prog, "<batch payload>", "exec"), {"__name__": "__main__"})
            except Exception:
                return buf.getvalue() + traceback.format_exc()
            return buf.getvalue()
        finally:
            sys.argv = argv0
            os.chdir(cwd)

    # -- SLURM ------------------------------------------------------------
    def _slurm_sbatch(self, argv):
        jobid = self._submit(argv)
        if jobid is None:
            return 1, "", "sbatch: error: Batch job submission failed: Invalid account or account/partition combination specified\n"
        return 0, f"Submitted batch job {jobid}\n", ""

    def _slurm_squeue(self, argv):
        jobid = argv[-1]
        lg, att, current = self._lookup(jobid)
        if lg is None:
            return 1, "", "slurm_load_jobs error: Invalid job id specified\n"
        st = self._tick(lg, att, jobid, current)
        if st is not None:
            return 0, squeue_line(jobid, {"PENDING": "PD", "RUNNING": "R"}[st]), ""
        if current and att.linger > 0:
            att.linger -= 1
            return 0, squeue_line(jobid, "CG"), ""
        if self.case.get("gone", "empty") == "invalid_id":
            return 1, "", "slurm_load_jobs error: Invalid job id specified\n"
        return 0, "", ""

    def _slurm_sacct(self, argv):
        jobid = argv[argv.index("-j") + 1]
        lg, att, current = self._lookup(jobid)
        if lg is None:
            return 0, "", ""
        if current and att.pre:
            return 0, sacct_line(jobid, att.pre[0], "0:0"), ""
        if current and not att.ran:
            att.ran = True
            self._run_payload(lg, att, jobid)
        if current and att.lag:
            e = att.lag.pop(0)
            if e == "missing":
                return 0, "", ""
            return 0, sacct_line(jobid, e, "0:0"), ""
        state, code = SLURM_END[att.end]
        if att.end == "cancelled" and att.spec.get("fmt") == "plus":
            state = "CANCELLED+"
        code = att.spec.get("code") or code
        return 0, sacct_line(jobid, state, code), ""

    def _slurm_scontrol(self, argv):
        if argv[0] != "requeue":
            raise HarnessError(f"fake slurm: scontrol {argv}")
        jobid = argv[1]
        lg, att, current = self._lookup(jobid)
        if lg is None:
            return 1, "", "Invalid job id specified\n"
        if att.pre or not att.ran:
            self.unprompted_requeue += 1
        idx = lg.start_next()
        self.by_id[jobid] = (lg, idx)
        self.events.append(f"requeue:{jobid}:attempt{idx}")
        return 0, "", ""

    # -- SGE --------------------------------------------------------------
    def _sge_qsub(self, argv):
        jobid = self._submit(argv)
        if jobid is None:
            return 1, "", "Unable to run job: job rejected: no suitable queues.\nExiting.\n"
        lg, _ = self.by_id[jobid]
        n = 1
        if "-t" in argv:
            m = re.fullmatch(r"1-(\d+)", argv[argv.index("-t") + 1])
            if m:
                n = int(m.group(1))
        lg.ntasks = n
        return 0, f'Your job-array {jobid}.1-{n}:1 ("pydra") has been submitted\n', ""

    def _sge_qstat(self, argv):
        jobid = argv[-1]
        lg, att, current = self._lookup(jobid)
        if lg is not None:
            st = self._tick(lg, att, jobid, current)
            if st is not None:
                return 0, ("=" * 62 + f"\njob_number:                 {jobid}\n"
                           f"job_state:                  {'qw' if st == 'PENDING' else 'r'}\n"), ""
        return 1, "", f"Following jobs do not exist: \n{jobid}\n"

    def _sge_qacct(self, argv):
        jobid = argv[-1]
        lg, att, current = self._lookup(jobid)
        notfound = (1, "", f"error: job id {jobid} not found\n")
        if lg is None:
            return notfound
        if self._tick(lg, att, jobid, current) is not None:
            return notfound
        if current and att.lag:
            att.lag.pop(0)
            return notfound
        failed, status = SGE_END[att.end]
        return 0, "".join(qacct_record(jobid, t, failed, status)
                          for t in range(1, lg.ntasks + 1)), ""


# --------------------------------------------------------------------------- sleep
_real_sleep = asyncio.sleep


class AsyncioProxy:
    """Stands in for the `asyncio` module global of slurm.py / sge.py: `sleep` yields once
    without delay and counts; everything else is the real module."""

    def __init__(self, fake: FakeScheduler):
        self._fake = fake
        self.yields = 0
        self._idle = 0
        self._seen_calls = 0

    def __getattr__(self, name):
        return getattr(asyncio, name)

    async def sleep(self, delay, result=None):
        self.yields += 1
        if self._fake.ncalls != self._seen_calls:
            self._seen_calls, self._idle = self._fake.ncalls, 0
        self._idle += 1
        if self._idle > MAX_IDLE_YIELDS:
            raise Abort("livelock", "polling-without-scheduler-traffic",
                        dict(yields=self.yields, scheduler_calls=self._fake.ncalls))
        await _real_sleep(0)
        return result


# --------------------------------------------------------------------------- watchdog
def _pydra_frames(frame):
    out = []
    while frame is not None:
        fn = frame.f_code.co_filename
        if "/pydra/" in fn:
            out.append((Path(fn).name, frame.f_code.co_name, frame))
        frame = frame.f_back
    return out  # innermost first


def _where(frame):
    fr = _pydra_frames(frame)
    for fname, name, f in fr:
        if f.f_code.co_flags & 0x80:  # CO_COROUTINE: innermost coroutine = the loop that spins
            return f"{fname}:{name}"
    return f"{fr[0][0]}:{fr[0][1]}" if fr else "?"


class Watchdog:
    """(1) wall-clock limit; (2) a proof of no progress for the submitter's await-free spin:
    sampled every PROOF_TICK seconds of CPU time, the submitter is inside
    `expand_workflow_async` with no pending future, every runnable job already handed to the
    worker, no worker coroutine alive, no scheduler command in flight, and scheduler traffic,
    yields and the cache directory listing identical over PROOF_SAMPLES consecutive samples.
    Nothing that could change the loop's condition exists any more."""

    def __init__(self, fake, proxy, tracker, cache_root):
        self.fake, self.proxy, self.tracker = fake, proxy, tracker
        self.cache_root = str(cache_root)
        self.fired = None
        self.last = None
        self.same = 0
        self.advanced = 0
        self.t0 = None

    def _fs(self):
        out = []
        try:
            for e in sorted(os.scandir(self.cache_root), key=lambda e: e.name):
                out.append(e.name)
                if e.is_dir(follow_symlinks=False) and not e.name.endswith("_scripts"):
                    out.extend(sorted(x.name for x in os.scandir(e.path)))
        except OSError:
            pass
        return tuple(out)

    def _snapshot(self, frame):
        if self.fake.in_call or self.tracker.active:
            return None
        for fname, name, f in _pydra_frames(frame):
            if name == "expand_workflow_async" and fname == "submitter.py":
                loc = f.f_locals
                futures, tasks, futured = loc.get("task_futures"), loc.get("tasks"), loc.get("futured")
                if futures is None or tasks is None or futured is None or len(futures):
                    return None
                try:
                    sums = tuple(sorted(t.checksum for t in tasks))
                except Exception:
                    return None
                if not sums or any(s not in futured for s in sums):
                    return None
                return (sums, self.fake.ncalls, self.proxy.yields, self.tracker.finished, self._fs())
        return None

    def _on_cpu(self, signum, frame):
        snap = self._snapshot(frame)
        if snap is not None and snap == self.last:
            self.same += 1
        else:
            self.same = 0
        self.last = snap
        if self.same >= PROOF_SAMPLES - 1 and self.fake.live():
            # the submitter spins, but a submitted job is still alive on the cluster: let it run
            # (in a child process: this is a signal handler) and keep watching
            self.same = 0
            self.last = None
            self.advanced += 1
            self.fake.advance(force_child=True)
            return
        if self.same >= PROOF_SAMPLES - 1:
            self.fired = ("no-progress", "submitter.py:expand_workflow_async",
                          dict(queued_jobs=len(snap[0]), worker_coroutines_finished=snap[3]))
            self.same = 0
            raise Abort(*self.fired)

    def _on_wall(self, signum, frame):
        # wall time of the code under test: time spent inside the scripted scheduler (payloads run
        # there, in child processes for some scenarios) does not count and is bounded separately
        if self.fake.in_call:
            return
        if time.monotonic() - self.t0 - self.fake.time_in_calls >= WALL_LIMIT - 0.5:
            self.fired = ("wall-limit", _where(frame),
                          dict(stack=[f"{a}:{b}" for a, b, _ in _pydra_frames(frame)][:6]))
            raise Abort(*self.fired)

    def __enter__(self):
        self.t0 = time.monotonic()
        self._old = (signal.signal(signal.SIGVTALRM, self._on_cpu),
                     signal.signal(signal.SIGALRM, self._on_wall))
        signal.setitimer(signal.ITIMER_VIRTUAL, PROOF_TICK, PROOF_TICK)
        signal.setitimer(signal.ITIMER_REAL, WALL_LIMIT, 2.0)
        return self

    def __exit__(self, *exc):
        signal.setitimer(signal.ITIMER_VIRTUAL, 0)
        signal.setitimer(signal.ITIMER_REAL, 0)
        signal.signal(signal.SIGVTALRM, self._old[0])
        signal.signal(signal.SIGALRM, self._old[1])
        return False


class RunTracker:
    """Wraps <Worker>.run at class level: what did the worker report for each job?"""

    def __init__(self):
        self.active = 0
        self.finished = 0
        self.reports: list[dict] = []

    def wrap(self, orig):
        tracker = self

        async def run(self_, job, rerun=False):
            tracker.active += 1
            try:
                r = await orig(self_, job, rerun=rerun)
            except Exception as e:
                tb = traceback.extract_tb(e.__traceback__)
                where = next((f"{Path(fr.filename).name}:{fr.name}:{fr.lineno}" for fr in reversed(tb)
                              if "/pydra/" in fr.filename), "?")
                tracker.reports.append(dict(job=job.name, checksum=job.checksum, outcome="raised",
                                            type=type(e).__name__, msg=str(e)[:300], where=where))
                raise
            else:
                tracker.reports.append(dict(job=job.name, checksum=job.checksum, outcome="returned",
                                            value=repr(r)[:80]))
                return r
            finally:
                tracker.active -= 1
                tracker.finished += 1

        return run


@contextlib.contextmanager
def installed(kind, fake: FakeScheduler, cache_root):
    """Patch the worker module for one scenario; yields (proxy, tracker, watchdog)."""
    import pydra.workers.base as wbase
    import importlib

    mod = importlib.import_module(f"pydra.workers.{kind}")
    if "read_and_display_async" in vars(mod):
        raise HarnessError(f"{kind}.py binds read_and_display_async itself; the patch point moved")
    proxy = AsyncioProxy(fake)
    tracker = RunTracker()
    cls = mod.Worker
    saved = (wbase.read_and_display_async, mod.asyncio, cls.__dict__["run"])
    if saved[1] is not asyncio:
        raise HarnessError("worker module's asyncio global is not the asyncio module")
    wbase.read_and_display_async = fake
    mod.asyncio = proxy
    cls.run = tracker.wrap(saved[2])
    dog = Watchdog(fake, proxy, tracker, cache_root)
    try:
        with dog:
            yield proxy, tracker, dog
    finally:
        wbase.read_and_display_async, mod.asyncio = saved[0], saved[1]
        cls.run = saved[2]
