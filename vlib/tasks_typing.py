"""Task definitions for C20/C21 (typed python tasks built per generated type)."""
from __future__ import annotations

import typing as ty

from pydra.compose import python, workflow

CAPTURED: list = []


def capture(x):
    """records the object the task body actually received (debug worker: same process)"""
    CAPTURED.append(x)
    return len(CAPTURED)


def make_capture_task(tp):
    return python.define(capture, inputs={"x": python.arg(type=tp)}, outputs={"out": int},
                         name="Capture")


def emit(v, scratch):
    """upstream body: rebuilds the generated value from its JSON spec"""
    from vlib.gen import types as G

    return G.build_value(v, scratch)


def make_src(tp):
    return python.define(emit, inputs={"v": python.arg(type=ty.Any), "scratch": python.arg(type=str)},
                         outputs={"out": python.out(type=tp)}, name="Src")


@workflow.define
def PairWF(S: ty.Any, T: ty.Any, v: ty.Any, scratch: str) -> int:
    """Src(-> S) feeding Capture(x: T); S, T and v arrive as JSON specs (workflow inputs), so the
    construction cache keys on them."""
    from vlib.gen import types as G

    s = workflow.add(make_src(G.build_type(S))(v=v, scratch=scratch), name="s")
    d = workflow.add(make_capture_task(G.build_type(T))(x=s.out), name="d")
    return d.out
