"""Task definitions for C28 (batch-scheduler workers).  Importable by name in any process.

`SchedProbe` is the job that the scripted scheduler "runs on a compute node".  Each execution
(= one call of `Job.run` on the compute side) is announced by the `pre_run` hook `probe_pre_run`,
which appends `start <n> <what>` to the run log; `<what>` is read from the control file
`<log>.next` that the scripted scheduler writes just before it lets the payload run:

    ok          the body returns x + 1
    raise       the body raises (errored result + error file are written by pydra)
    early_fail  the hook itself raises before the job takes its lock (nothing is written by
                Job.run; `load_and_run` has to leave the errored result)
    prologue_fail  the `pre_run_task` hook raises: the job directory exists already, Job.run has not
                yet entered the block that always saves a result
    killed      the body SIGKILLs its own process (only allowed in a child process: leaves the lock
                file and the <uid>_info.json behind, no result)
"""
from __future__ import annotations

import os
import typing as ty

from pydra.compose import python, workflow


def _append(path, text):
    fd = os.open(path, os.O_WRONLY | os.O_APPEND | os.O_CREAT)
    try:
        os.write(fd, (text + "\n").encode())
    finally:
        os.close(fd)


def _lines(path):
    try:
        with open(path) as f:
            return [ln.split() for ln in f if ln.strip()]
    except FileNotFoundError:
        return []


def probe_pre_run(job):
    """pre_run hook of the compute-side job."""
    log = job.task.log
    n = sum(1 for ln in _lines(log) if ln[0] == "start")
    try:
        with open(log + ".next") as f:
            what = f.read().strip() or "ok"
    except FileNotFoundError:
        what = "ok"
    _append(log, f"start {n} {what} {os.getpid()}")
    if what == "early_fail":
        raise RuntimeError(f"EarlyFailure: node prologue failed (execution {n})")


def probe_pre_run_task(job):
    """pre_run_task hook: runs after the job directory was populated, before the task body."""
    starts = [ln for ln in _lines(job.task.log) if ln[0] == "start"]
    if starts and starts[-1][2] == "prologue_fail":
        raise RuntimeError(f"PrologueFailure: could not set up the task (execution {len(starts) - 1})")


def probe_hooks():
    from pydra.engine.hooks import TaskHooks

    return TaskHooks(pre_run=probe_pre_run, pre_run_task=probe_pre_run_task)


@python.define
def SchedProbe(x: int, log: str) -> int:
    import os as _os
    import signal as _signal

    from vlib.tasks_sched28 import _append as _a, _lines as _l

    starts = [ln for ln in _l(log) if ln[0] == "start"]
    what = starts[-1][2] if starts else "ok"
    _a(log, f"body {len(starts) - 1} {what} {_os.getpid()}")
    if what == "raise":
        raise ValueError(f"BodyFailure: scripted failure of execution {len(starts) - 1}")
    if what == "killed":
        if _os.environ.get("SCHED28_CHILD") != "1":
            raise AssertionError("harness: 'killed' payload must run in a child process")
        _os.kill(_os.getpid(), _signal.SIGKILL)
    return x + 1


@workflow.define
def SchedWF(x: int, log: str) -> int:
    from vlib.tasks_sched28 import probe_hooks as _h

    a = workflow.add(SchedProbe(x=x, log=log), name="a", hooks=_h())
    return a.out


def read_runs(log) -> dict:
    ls = _lines(log)
    return dict(starts=[ln[2] for ln in ls if ln[0] == "start"],
                bodies=[ln[2] for ln in ls if ln[0] == "body"])
