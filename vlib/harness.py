"""Shard-side harness: counting, distinctness, known-finding attribution, Hypothesis glue.

A property module (props/cNN.py) provides

    ID, LEVEL, RULE, ASSUMPTIONS, DESIGN_REF
    SHARDS = {"quick": n, "thorough": n}            (optional, default 16)
    def run(sh)                                     explores; uses the Shard API below
    def check_case(case) -> list[dict]              pure re-execution of one JSON case spec,
                                                    returns violation records
                                                    {signature, observed, expected, detail}

Everything random goes through Hypothesis seeded from VERIF_SEED and the shard index.
Violations whose signature equals the signature of a listed known finding are counted
(`known_hits`) and do not stop the search; everything else is a VIOLATION.
"""
from __future__ import annotations

import hashlib
import json
import os
import sys
import time
import traceback
import typing as ty
from pathlib import Path

HOME = Path(os.environ.get("VERIF_HOME", Path(__file__).resolve().parent.parent))
REPO = Path(os.environ.get("VERIF_REPO", "/repo"))


class HarnessError(Exception):
    """Something is wrong with the machinery, not with pydra (exit 2)."""


class Unattributed(AssertionError):
    """Raised inside Hypothesis tests to make it shrink a not-yet-known violation."""

    def __init__(self, record):
        super().__init__(record.get("signature"))
        self.record = record


def canon(obj) -> str:
    return json.dumps(obj, sort_keys=True, default=repr, ensure_ascii=True)


def case_hash(obj) -> str:
    return hashlib.sha1(canon(obj).encode()).hexdigest()[:14]


def derive_seed(seed: int, *parts) -> int:
    h = hashlib.sha256(repr((seed,) + parts).encode()).digest()
    return int.from_bytes(h[:8], "big")


def jsonable(obj):
    """Best-effort conversion for evidence/replay files."""
    try:
        json.dumps(obj)
        return obj
    except Exception:
        pass
    if isinstance(obj, dict):
        return {str(k): jsonable(v) for k, v in obj.items()}
    if isinstance(obj, (list, tuple, set, frozenset)):
        return [jsonable(v) for v in obj]
    return repr(obj)


def load_known(prop: str) -> list[dict]:
    f = HOME / "known_findings.json"
    if not f.exists():
        return []
    data = json.loads(f.read_text())
    return [e for e in data.get("findings", []) if e.get("property") == prop]


def assert_repo_modules():
    """Every loaded pydra module must come from the tree under test."""
    bad = []
    for name, mod in list(sys.modules.items()):
        if name == "pydra" or name.startswith("pydra."):
            f = getattr(mod, "__file__", None)
            if f and not str(Path(f).resolve()).startswith(str(REPO.resolve()) + os.sep):
                bad.append((name, f))
    if bad:
        raise HarnessError(f"pydra modules not loaded from {REPO}: {bad[:3]}")


class Shard:
    def __init__(self, module, tier, seed, index, n, scratch, deadline_s):
        self.module = module
        self.prop = module.ID
        self.tier = tier
        self.base_seed = seed
        self.index = index
        self.n = n
        self.seed = derive_seed(seed, module.ID, index)
        self.scratch = Path(scratch)
        self.t0 = time.time()
        self.deadline = self.t0 + deadline_s
        self.evaluations = 0
        self.nontrivial: set[str] = set()
        self.samples: list = []
        self.sample_keys: set[str] = set()
        self.max_samples = 4
        self.violations: list[dict] = []
        self.known_hits: dict[str, int] = {}
        self.known_examples: dict[str, dict] = {}
        self.counters: dict[str, int] = {}
        self.notes: list[str] = []
        self.time_limited = False
        self.known = {
            e["signature"]: e for e in load_known(self.prop) if e.get("status") == "known"
        }
        self.max_violations = 5

    # ------------------------------------------------------------------ budget
    @property
    def quick(self):
        return self.tier == "quick"

    def budget(self, quick: int, thorough: int) -> int:
        """Per-shard share of a total case budget."""
        total = quick if self.quick else thorough
        share = total // self.n + (1 if self.index < total % self.n else 0)
        return max(share, 0)

    def time_left(self) -> float:
        return self.deadline - time.time()

    def out_of_time(self) -> bool:
        if time.time() > self.deadline:
            self.time_limited = True
            return True
        return False

    # ------------------------------------------------------------------ counting
    def count(self, label: str, k: int = 1):
        self.counters[label] = self.counters.get(label, 0) + k

    def note(self, text: str):
        if text not in self.notes:
            self.notes.append(text)

    def record_case(self, case, nontrivial: bool, key=None, labels=()):
        self.evaluations += 1
        for lb in labels:
            self.count(lb)
        if nontrivial:
            h = case_hash(case if key is None else key)
            if h not in self.nontrivial:
                self.nontrivial.add(h)
                if len(self.samples) < self.max_samples:
                    self.samples.append(jsonable(case))

    # ------------------------------------------------------------------ verdicts
    def handle(self, case, records: list[dict], raise_unattributed=False):
        """Attribute violation records; returns the unattributed ones."""
        un = []
        for r in records or []:
            sig = r.get("signature", "unsigned")
            if sig in self.known:
                kid = self.known[sig]["id"]
                self.known_hits[kid] = self.known_hits.get(kid, 0) + 1
                self.known_examples.setdefault(kid, jsonable(case))
                continue
            rec = dict(r)
            rec["case"] = jsonable(case)
            un.append(rec)
        if un:
            if raise_unattributed:
                raise Unattributed(un[0])
            for rec in un:
                self.add_violation(rec)
        return un

    def add_violation(self, rec):
        sigs = {v["signature"] for v in self.violations}
        if rec["signature"] in sigs or len(self.violations) >= self.max_violations:
            self.count("violations_suppressed_duplicate_signature")
            return
        self.violations.append(jsonable(rec))

    def run_case(self, case, nontrivial=True, key=None, labels=(), raise_unattributed=False):
        """Record + execute + attribute one case."""
        self.record_case(case, nontrivial, key, labels)
        try:
            recs = self.module.check_case(case)
        except HarnessError:
            raise
        return self.handle(case, recs, raise_unattributed)

    # ------------------------------------------------------------------ hypothesis
    def settings(self, max_examples, **kw):
        from hypothesis import HealthCheck, Phase, settings

        phases = [Phase.explicit, Phase.generate]
        if not self.quick:
            phases.append(Phase.shrink)
        base = dict(
            max_examples=max(1, max_examples),
            database=None,
            deadline=None,
            derandomize=False,
            report_multiple_bugs=False,
            phases=phases,
            suppress_health_check=[HealthCheck.too_slow, HealthCheck.data_too_large,
                                   HealthCheck.filter_too_much],
            print_blob=False,
        )
        base.update(kw)
        return settings(**base)

    def given(self, strategy, body, max_examples, tag="", **kw):
        """Run `body(case)` over `strategy`.  `body` must call sh.run_case(...,
        raise_unattributed=True) (or raise Unattributed) for violations.  The final
        (shrunk in thorough tier) failing record is stored as a violation."""
        import hypothesis
        from hypothesis import given

        if max_examples <= 0:
            return
        sh = self
        last: dict = {}

        @hypothesis.seed(derive_seed(self.seed, tag))
        @self.settings(max_examples, **kw)
        @given(strategy)
        def test(case):
            if sh.out_of_time():
                return
            try:
                body(case)
            except Unattributed as e:
                last["rec"] = e.record
                raise

        try:
            test()
        except Unattributed as e:
            self.add_violation(e.record)
        except hypothesis.errors.FailedHealthCheck as e:
            raise HarnessError(f"hypothesis health check: {e}") from e
        except hypothesis.errors.Flaky as e:  # includes FlakyFailure
            if "rec" in last:
                rec = dict(last["rec"])
                rec["detail"] = dict(detail=rec.get("detail"), note="not reproduced when Hypothesis re-ran the case (flaky)")
                self.add_violation(rec)
            else:
                raise HarnessError(f"flaky hypothesis test: {e}") from e
        except BaseException as e:
            if type(e).__name__ in ("FlakyFailure", "FlakyStrategyDefinition") and "rec" in last:
                self.add_violation(last["rec"])
            else:
                raise

    def stateful(self, machine_cls, max_examples, step_count, tag=""):
        """Run a RuleBasedStateMachine; the machine raises Unattributed for violations."""
        import hypothesis
        from hypothesis.stateful import run_state_machine_as_test

        if max_examples <= 0:
            return
        st = self.settings(max_examples, stateful_step_count=step_count)
        try:
            run_state_machine_as_test(
                hypothesis.seed(derive_seed(self.seed, tag))(machine_cls), settings=st
            )
        except Unattributed as e:
            self.add_violation(e.record)
        except hypothesis.errors.FailedHealthCheck as e:
            raise HarnessError(f"hypothesis health check: {e}") from e

    # ------------------------------------------------------------------ output
    def result(self) -> dict:
        return dict(
            index=self.index,
            evaluations=self.evaluations,
            nontrivial=sorted(self.nontrivial),
            samples=self.samples,
            violations=self.violations,
            known_hits=self.known_hits,
            known_examples=self.known_examples,
            counters=self.counters,
            notes=self.notes,
            time_limited=self.time_limited,
            wall_s=round(time.time() - self.t0, 3),
        )


def exception_signature(e: BaseException, prefix="exc") -> str:
    """type + innermost pydra frame (function name), for bucketing unexpected exceptions."""
    tb = traceback.extract_tb(e.__traceback__)
    where = "?"
    for fr in reversed(tb):
        if "/pydra/" in fr.filename and "/tests/" not in fr.filename:
            where = f"{Path(fr.filename).name}:{fr.name}"
            break
    return f"{prefix}:{type(e).__name__}@{where}"


def short(e: BaseException, n=300) -> str:
    s = f"{type(e).__name__}: {e}"
    return s if len(s) <= n else s[:n] + "..."
