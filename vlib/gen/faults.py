"""Submission specs shared by C12, C35 and C36: build a task of a given *kind* from a JSON spec,
submit it into a cache root and summarise what came back in JSON.

A spec is {"kind": K, "x": int, "hooks": None | "count" | "raise:<hook>", "audit": None|"PROV"|"ALL",
"msgdir": "explicit" (default; messages go to <case dir>/msgs) | "default" (no message_dir given)}.
"""
from __future__ import annotations

import os
from pathlib import Path

from vlib.harness import HarnessError, exception_signature, short

#        kind           task builder key, worker, succeeds, body tags in execution order
KINDS = {
    "python":        dict(task="FInc", worker="debug", ok=True, tags=["P"]),
    "python_fail":   dict(task="FBoom", worker="debug", ok=False, tags=["P"]),
    "shell":         dict(task="ShOk", worker="debug", ok=True, tags=["S"]),
    "shell_fail":    dict(task="ShFail", worker="debug", ok=False, tags=["S"]),
    "wf_debug":      dict(task="FWf", worker="debug", ok=True, tags=["A", "B"]),
    "wf_cf":         dict(task="FWf", worker="cf", ok=True, tags=["A", "B"]),
    "wf_fail_debug": dict(task="FWfFail", worker="debug", ok=False, tags=["A", "B"]),
    "wf_fail_cf":    dict(task="FWfFail", worker="cf", ok=False, tags=["A", "B"]),
    "wf_fail1_debug": dict(task="FWfFailFirst", worker="debug", ok=False, tags=["A"]),
    "wf_fail1_cf":   dict(task="FWfFailFirst", worker="cf", ok=False, tags=["A"]),
    "python_cf":     dict(task="FInc", worker="cf", ok=True, tags=["P"]),
    "python_fail_cf": dict(task="FBoom", worker="cf", ok=False, tags=["P"]),
    "shell_cf":      dict(task="ShOk", worker="cf", ok=True, tags=["S"]),
    "shell_fail_cf": dict(task="ShFail", worker="cf", ok=False, tags=["S"]),
    # python tasks with a set-of-files input that must be staged (copy, made siblings | hard-linked)
    # before the body runs; `stage` says whether the VALUE lets that succeed:
    #   ok     differently named files on the device of the cache root
    #   names  two files with one name (in two directories) cannot be made siblings
    #   mount  a file on another device cannot be hard-linked
    # the body of a task whose staging fails never runs (tags: what a body WOULD log)
    "python_files":       dict(task="FStage", worker="debug", ok=True, tags=["P"], stage="ok"),
    "stagefail_names":    dict(task="FStage", worker="debug", ok=False, tags=["P"], stage="names"),
    "stagefail_mount":    dict(task="FStage", worker="debug", ok=False, tags=["P"], stage="mount"),
    "python_files_cf":    dict(task="FStage", worker="cf", ok=True, tags=["P"], stage="ok"),
    "stagefail_names_cf": dict(task="FStage", worker="cf", ok=False, tags=["P"], stage="names"),
}
CF_PROCS = 2


class CaseDir:
    """<dir>/cache (cache root), <dir>/log (+ .hooks), <dir>/cwd, <dir>/msgs, <dir>/ok.sh, fail.sh"""

    def __init__(self, d):
        from vlib import tasks_faults as TF

        self.dir = Path(d)
        self.cache = self.dir / "cache"
        self.log = self.dir / "log"
        self.hooklog = Path(str(self.log) + ".hooks")
        self.cwd = self.dir / "cwd"
        self.msgs = self.dir / "msgs"
        for p in (self.cache, self.cwd):
            p.mkdir(parents=True, exist_ok=True)
        self.ok_sh = self.dir / "ok.sh"
        self.fail_sh = self.dir / "fail.sh"
        if not self.ok_sh.exists():
            self.ok_sh.write_text(TF.SH_OK)
            self.fail_sh.write_text(TF.SH_FAIL)

    def body_counts(self) -> dict:
        from vlib.tasks_faults import read_lines

        out: dict = {}
        for ln in read_lines(self.log):
            out[ln] = out.get(ln, 0) + 1
        return out

    def hook_counts(self) -> dict:
        from vlib.tasks_faults import read_lines

        out: dict = {}
        for ln in read_lines(self.hooklog):
            out[ln] = out.get(ln, 0) + 1
        return out


def stage_files(cd: CaseDir, stage: str):
    """the files of an FStage task (created once per case directory; content depends on the path
    only, so that equal specs give equal checksums within a case)"""
    from vlib import tasks_faults as TF

    base = cd.dir / "stage"
    paths = {"ok": [base / "d1" / "x.txt", base / "d2" / "y.txt"],
             "names": [base / "d1" / "x.txt", base / "d2" / "x.txt"]}.get(stage)
    if paths is not None:
        for p in paths:
            if not p.exists():
                p.parent.mkdir(parents=True, exist_ok=True)
                p.write_text(f"{p.parent.name}/{p.name}")
        return paths
    if stage == "mount":
        # an existing read-only file on another device than the cache root (never written to:
        # a hard link across devices cannot be made)
        cand = other_device_file(cd.cache)
        if cand is None:
            raise HarnessError("no file on another device than the cache root available")
        return [cand]
    raise HarnessError(f"unknown stage {stage}")


def other_device_file(ref_dir):
    """an existing file that lies on another device than `ref_dir`, or None"""
    from vlib import tasks_faults as TF

    dev = os.stat(ref_dir).st_dev
    for cand in (TF.__file__, os.__file__, "/etc/hostname"):
        if os.path.isfile(cand) and os.stat(cand).st_dev != dev:
            return Path(cand)
    return None


def expected_outputs(spec) -> dict | None:
    k = KINDS[spec["kind"]]
    x = spec.get("x", 3)
    if not k["ok"]:
        return None
    if k["task"] == "FInc":
        return {"out": x + 1}
    if k["task"] == "ShOk":
        return {"stdout": f"out-{x + 1}\n", "stderr": "", "return_code": 0}
    if k["task"] == "FWf":
        return {"out": x + 2}
    if k["task"] == "FStage":
        return {"out": x + 2}
    raise HarnessError(f"no expected outputs for {spec}")


def build_task(spec, cd: CaseDir):
    from vlib import tasks_faults as TF

    k = KINDS[spec["kind"]]
    x = spec.get("x", 3)
    log = str(cd.log)
    t = k["task"]
    hooks = spec.get("hooks")
    if t == "FInc":
        return TF.FInc(x=x, log=log)
    if t == "FBoom":
        return TF.FBoom(x=x, log=log)
    if t == "ShOk":
        return TF.ShBody(script=str(cd.ok_sh), log=log, tag="S", x=x)
    if t == "ShFail":
        return TF.ShBody(script=str(cd.fail_sh), log=log, tag="S", x=x)
    if t == "FWf":
        if hooks:
            raising = hooks.split(":", 1)[1] if hooks.startswith("raise:") else ""
            return TF.FWf(x=x, log=log, hooked=True, raising=raising)
        return TF.FWf(x=x, log=log)
    if t == "FStage":
        from fileformats.generic import File, SetOf

        files = SetOf[File](stage_files(cd, k["stage"]))
        cls = TF.FStageHardlink if k["stage"] == "mount" else TF.FStageSiblings
        return cls(files=files, x=x, log=log)
    if t == "FWfFail":
        return TF.FWfFail(x=x, log=log)
    if t == "FWfFailFirst":
        return TF.FWfFailFirst(x=x, log=log)
    raise HarnessError(f"unknown task {t}")


def outputs_json(outputs):
    """Outputs object -> {field: JSON value}; attrs.NOTHING -> "<NOTHING>"; None -> None"""
    import attrs

    from pydra.utils.general import attrs_values

    if outputs is None:
        return None
    out = {}
    for name, v in attrs_values(outputs).items():
        if name.startswith("_"):
            continue
        if v is attrs.NOTHING:
            v = "<NOTHING>"
        elif isinstance(v, (int, float, str, bool)) or v is None:
            pass
        else:
            v = repr(v)
        out[name] = v
    return out


def submit(spec, cd: CaseDir, rerun=False) -> dict:
    """One submission through the public Submitter API; never raises for case-level exceptions.
    Returns dict(raised, errored, outputs, cwd_before, cwd_after)."""
    from pydra.engine.submitter import Submitter
    from pydra.utils.messenger import AuditFlag, FileMessenger
    from vlib import tasks_faults as TF

    k = KINDS[spec["kind"]]
    kwargs = {}
    if k["worker"] == "cf":
        kwargs["n_procs"] = CF_PROCS
    if spec.get("audit"):
        kwargs.update(audit_flags=getattr(AuditFlag, spec["audit"]), messengers=FileMessenger())
        if spec.get("msgdir", "explicit") == "explicit":
            cd.msgs.mkdir(exist_ok=True)
            kwargs["messenger_args"] = {"message_dir": str(cd.msgs)}
        # "default": no message_dir - the messenger writes to <cwd at send time>/messages; the
        # process is inside the scratch directory cd.cwd from here on (see the chdir below)
    hooks = None
    hk = spec.get("hooks")
    if hk and not k["task"].startswith("FWf"):
        hooks = TF.make_hooks(hk.split(":", 1)[1] if hk.startswith("raise:") else None)
    os.chdir(cd.cwd)
    cwd_before = os.getcwd()
    res = dict(raised=None, errored=None, outputs=None, has_result=False)
    try:
        task = build_task(spec, cd)
        with Submitter(cache_root=cd.cache, worker=k["worker"], **kwargs) as sub:
            result = sub(task, hooks=hooks, rerun=rerun)
        res["has_result"] = True
        res["errored"] = bool(result.errored)
        res["outputs"] = outputs_json(result.outputs)
    except BaseException as e:  # the case's own outcome (incl. injected KeyboardInterrupt)
        res["raised"] = dict(type=type(e).__name__, msg=short(e, 400),
                             sig=exception_signature(e, "exc"))
    res["cwd_before"] = cwd_before
    res["cwd_after"] = os.getcwd()
    return res


def job_dirs(cache: Path) -> dict:
    """{job name: job directory name} for every job dir of a cache root that holds a readable job
    record; unreadable ones appear as {"?<dirname>": dirname}"""
    import cloudpickle as cp

    out = {}
    for d in sorted(Path(cache).iterdir()):
        if not d.is_dir() or d.name == "pkl_files":
            continue
        f = d / "_job.pklz"
        try:
            with open(f, "rb") as fp:
                out[cp.load(fp).name] = d.name
        except Exception:
            out["?" + d.name] = d.name
    return out


def stored_results(cache: Path) -> dict:
    """{job dir name: {"errored": bool, "outputs": {...}|None} | "unreadable" | "missing"}"""
    import cloudpickle as cp

    out = {}
    for d in sorted(Path(cache).iterdir()):
        if not d.is_dir() or d.name == "pkl_files":
            continue
        f = d / "_result.pklz"
        if not f.exists():
            out[d.name] = "missing"
            continue
        try:
            with open(f, "rb") as fp:
                r = cp.load(fp)
            out[d.name] = dict(errored=bool(r.errored), outputs=outputs_json(r.outputs))
        except Exception:
            out[d.name] = "unreadable"
    return out


def listing(cache: Path) -> list[str]:
    """relative paths of everything below the cache root (files and dirs), sorted"""
    cache = Path(cache)
    out = []
    for p in sorted(cache.rglob("*")):
        out.append(str(p.relative_to(cache)) + ("/" if p.is_dir() else ""))
    return out
