"""Small shell-definition generator for the environment properties (C27, C39).

A *definition spec* is plain JSON:

  {"exe": ["tool"] | ["tool", "sub"],
   "dirs": ["d0", "d0/sub", "data set", ...]          directories (relative to the case scratch dir)
   "fields": [ {"name", "kind": flag|str|int|file|files, "argstr", "position",
                "value", "copy_mode" (file kinds), "sep" (files), "multi" (files: MultiInputObj),
                "optional" (file: File | None)} ... ]
   "outs":   [ {"name", "argstr", "position", "template": "out_o0.txt" | "out_{i1}.txt",
                "explicit": null | {"dir": k, "name": "x.txt"}} ... ]
   "append": [ "word" | {"dir": k, "name": "x.txt"} ... ] }

file values are {"dir": k, "name": "f0_0.txt"}; every file name in a spec is unique and no name is
a prefix of another, so that a host path can be located unambiguously inside an argument string.

`materialise(spec, base)` creates the directories and files under `base`, builds the pydra task
class and the keyword arguments, and returns what the oracles need (which host path belongs to
which field, copy mode, output names).
"""
from __future__ import annotations

import typing as ty
from pathlib import Path

from hypothesis import strategies as st

WORDS = ["alpha", "beta", "x1", "Quux", "n-1", "a.b", "v_2", "Z"]
PLAIN_DIRS = ["d0", "d1", "d0/sub", "d2/deep/er", ".hid", "d1/sub"]
SPACE_DIRS = ["data set", "d0/my files", "a b/c"]
EXTS = [".txt", ".nii.gz", "", ".dat"]
COPY_MODES = ["any", "copy", "symlink", "hardlink"]
FLAG_ARGSTR = ["-{n}", "--{n}{n}"]
VAL_ARGSTR = ["-{n}", "--{n}{n}", "--{n}{n}={{{name}}}", ""]


def _argstr(form: str, name: str) -> str:
    return form.format(n=name[0], name=name)


@st.composite
def definition(draw, files=True, lists=True, outs=True, spaces=1, append_files=True,
               max_fields=5):
    """Draw a definition spec.  `spaces`/8 = probability that directory names with a space are
    used in this spec."""
    use_space = draw(st.sampled_from([True] * spaces + [False] * (8 - spaces)))
    pool = PLAIN_DIRS + (SPACE_DIRS if use_space else [])
    dirs = draw(st.lists(st.sampled_from(pool), min_size=1, max_size=4, unique=True))
    if use_space and not any(" " in d for d in dirs):
        dirs[-1] = draw(st.sampled_from([d for d in SPACE_DIRS if d not in dirs]))
    if draw(st.integers(0, 5)) == 0:
        dirs[0] = "@cache"  # some inputs live directly in the cache root
    nd = len(dirs)
    kinds = ["flag", "str", "int"] + (["file", "file"] if files else []) + (
        ["files"] if files and lists else [])
    n = draw(st.integers(1, max_fields))
    n_outs = draw(st.sampled_from([0, 0, 1, 1, 2])) if outs else 0
    fields = []
    # positions: distinct slots 1..N (N = number of fields), some given in the equivalent
    # negative spelling (slot - (N + 1)), some dropped (None)
    total = n + n_outs
    slots = list(draw(st.permutations(list(range(1, total + 1)))))

    def draw_position():
        if draw(st.booleans()):
            return None
        s = slots.pop()
        return s - (total + 1) if draw(st.integers(0, 3)) == 0 else s

    for i in range(n):
        kind = draw(st.sampled_from(kinds))
        # the first letter is the flag letter (unique per field), the second names the kind
        name = "abcdefgh"[i] + {"flag": "f", "str": "s", "int": "i", "files": "l", "file": "p"}[kind] + str(i)
        f: dict = dict(name=name, kind=kind, position=draw_position())
        if kind == "flag":
            f["argstr"] = _argstr(draw(st.sampled_from(FLAG_ARGSTR)), name)
            f["value"] = draw(st.booleans())
        elif kind == "str":
            f["argstr"] = _argstr(draw(st.sampled_from(VAL_ARGSTR)), name)
            f["value"] = draw(st.sampled_from(WORDS))
        elif kind == "int":
            f["argstr"] = _argstr(draw(st.sampled_from(VAL_ARGSTR)), name)
            f["value"] = draw(st.integers(0, 99))
        elif kind == "file":
            form = draw(st.sampled_from(VAL_ARGSTR + [None]))
            f["argstr"] = None if form is None else _argstr(form, name)
            f["copy_mode"] = draw(st.sampled_from(COPY_MODES + ["any", "any"]))
            f["optional"] = draw(st.integers(0, 7)) == 0
            if f["optional"] and draw(st.booleans()):
                f["value"] = None
            else:
                f["value"] = dict(dir=draw(st.integers(0, nd - 1)),
                                  name=f"{name}_0{draw(st.sampled_from(EXTS))}")
        else:  # files
            form = draw(st.sampled_from(["-{n}", "--{n}{n}", "--{n}{n}={{{name}}}", "", "-{n}...",
                                         "--{n}{n}..."]))
            f["argstr"] = _argstr(form, name)
            f["copy_mode"] = draw(st.sampled_from(COPY_MODES + ["any", "any"]))
            f["sep"] = draw(st.sampled_from([" ", ","]))
            f["multi"] = draw(st.booleans())
            k = draw(st.integers(0, 3))
            f["value"] = [dict(dir=draw(st.integers(0, nd - 1)),
                               name=f"{name}_{j}{draw(st.sampled_from(EXTS))}") for j in range(k)]
        fields.append(f)
    out_specs = []
    if outs:
        ints = [f["name"] for f in fields if f["kind"] == "int"]
        for j in range(n_outs):
            name = "uv"[j] + "o" + str(j)
            position = draw_position()
            tmpl = f"out_{name}.txt"
            if ints and draw(st.booleans()):
                tmpl = "out_%s_{%s}.txt" % (name, draw(st.sampled_from(ints)))
            explicit = None
            if draw(st.integers(0, 3)) == 0:
                explicit = dict(dir=draw(st.integers(0, nd - 1)), name=f"given_{name}.out")
            out_specs.append(dict(name=name, argstr=_argstr(draw(st.sampled_from(VAL_ARGSTR)), name),
                                  position=position, template=tmpl, explicit=explicit))
    append = []
    if draw(st.integers(0, 3)) == 0:
        for j in range(draw(st.integers(1, 3))):
            if files and append_files and draw(st.integers(0, 3)) == 0:
                append.append(dict(dir=draw(st.integers(0, nd - 1)), name=f"app_{j}.txt"))
            else:
                append.append(draw(st.sampled_from(WORDS + ["--extra", "-q"])))
    exe = draw(st.sampled_from([["tool"], ["tool"], ["runner", "sub"]]))
    return dict(exe=exe, dirs=dirs, fields=fields, outs=out_specs, append=append)


# ----------------------------------------------------------------------------- building
class Built(ty.NamedTuple):
    task_cls: ty.Any
    kwargs: dict
    dirs: list          # absolute Path per spec directory
    inputs: list        # [(field name, kind "file"|"files"|"append", copy_mode, [orig Path,...], rendered)]
    outs: list          # [(name, explicit Path | None, resolved file name | None)]


def file_path(dirs, v) -> Path:
    return dirs[v["dir"]] / v["name"]


def materialise(spec, base: Path, name="EnvT", special=None) -> Built:
    """Create directories/files under `base` and the task class for `spec`.  `special` maps
    reserved directory tokens (e.g. "@cache" = the cache root itself) to absolute paths."""
    from fileformats.generic import File
    from pydra.compose import shell
    from pydra.utils.typing import MultiInputObj

    base = Path(base)
    dirs = []
    for d in spec["dirs"]:
        p = Path((special or {}).get(d, base / d))
        p.mkdir(parents=True, exist_ok=True)
        dirs.append(p)

    def mk(v):
        p = file_path(dirs, v)
        if not p.exists():
            p.write_text(f"content of {v['name']}\n")
        return p

    inputs_def, kwargs, inputs_info = {}, {}, []
    for f in spec["fields"]:
        kind, name_ = f["kind"], f["name"]
        common = dict(argstr=f["argstr"], position=f["position"])
        if kind == "flag":
            inputs_def[name_] = shell.arg(type=bool, default=False, **common)
            kwargs[name_] = f["value"]
        elif kind == "str":
            inputs_def[name_] = shell.arg(type=str, **common)
            kwargs[name_] = f["value"]
        elif kind == "int":
            inputs_def[name_] = shell.arg(type=int, **common)
            kwargs[name_] = f["value"]
        elif kind == "file":
            mode = File.CopyMode[f["copy_mode"]]
            if f.get("optional"):
                inputs_def[name_] = shell.arg(type=File | None, default=None, copy_mode=mode, **common)
            else:
                inputs_def[name_] = shell.arg(type=File, copy_mode=mode, **common)
            if f["value"] is not None:
                p = mk(f["value"])
                kwargs[name_] = File(p)
                inputs_info.append((name_, "file", f["copy_mode"], [p], f["argstr"] is not None))
        elif kind == "files":
            mode = File.CopyMode[f["copy_mode"]]
            tp = MultiInputObj[File] if f.get("multi") else list[File]
            inputs_def[name_] = shell.arg(type=tp, copy_mode=mode, sep=f.get("sep", " "), **common)
            ps = [mk(v) for v in f["value"]]
            kwargs[name_] = [File(p) for p in ps]
            if ps:
                inputs_info.append((name_, "files", f["copy_mode"], ps, True))
        else:
            raise ValueError(kind)
    outputs_def, outs_info = {}, []
    ints = {f["name"]: f["value"] for f in spec["fields"] if f["kind"] == "int"}
    for o in spec.get("outs", []):
        outputs_def[o["name"]] = shell.outarg(type=File, argstr=o["argstr"], position=o["position"],
                                              path_template=o["template"])
        explicit = None
        if o.get("explicit"):
            explicit = file_path(dirs, o["explicit"])
            kwargs[o["name"]] = explicit
        outs_info.append((o["name"], explicit, None if explicit else o["template"].format(**ints)))
    app = []
    app_files = []
    for a in spec.get("append", []):
        if isinstance(a, dict):
            p = mk(a)
            app.append(File(p))
            app_files.append(p)
        else:
            app.append(a)
    if app:
        kwargs["append_args"] = app
    if app_files:
        inputs_info.append(("append_args", "append", "any", app_files, True))
    exe = spec["exe"]
    cls = shell.define(exe[0] if len(exe) == 1 else list(exe), inputs=inputs_def,
                       outputs=outputs_def, name=name)
    return Built(cls, kwargs, dirs, inputs_info, outs_info)


def has_space(spec) -> bool:
    return any(" " in d for d in spec["dirs"])
