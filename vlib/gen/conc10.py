"""C10 generator: constraint sets that steer 2-4 submitters of one job at the gates of
vlib/inject/conc10.py.

A case is {"mode": "procs"|"threads", "n": 2..4, "worker": "debug"|"cf", "shape": "task"|"wf"|"wf_shared",
"clean_stale_locks": null|true|false (Submitter option; null = not given), "pre": bool,
"delay_ms": 0|50, "x": str, "constraints": [[i, gate, j, gate, "passed"|"arrived"], ...],
"escape_s": float}.  Shape "wf_shared": every submitter submits a DIFFERENT workflow (own salt input)
around the same node job; the gates then follow that node job.

Half of the constraint sets are instances of scenario templates that are feasible by construction
(a second submitter arrives while the first one is inside a chosen section of the locked region and
the first one stays there until the second one is polling the lock; simultaneous arrival at the
lock; arrival exactly at release time ...) or that are feasible exactly when mutual exclusion is
broken ("intrude": the owner waits inside the locked region until another submitter got in too),
with generated roles; the rest are free draws over all
(gate, gate) pairs, many of which are infeasible and are counted as such.
"""
from __future__ import annotations

from hypothesis import assume
from hypothesis import strategies as st

from vlib.inject.conc10 import GATES

# sections of the locked region: (gate after which the owner is inside, gate it may only pass
# once the contender is polling the lock)
SECTIONS = [
    ("after_acquire", "after_check"),
    ("after_check", "after_populate"),
    ("after_populate", "body_entered"),
    ("body_entered", "body_left"),
    ("body_left", "before_save"),
    ("before_save", "after_save"),
    ("after_save", "before_release"),
]


# with a pre-existing result the owner leaves right after the check
SECTIONS_PRE = [("after_acquire", "after_check"), ("after_check", "before_release")]


@st.composite
def scenario(draw, n, pre=False, hold=None):
    """`hold`: the gate at which a later submitter is held back - "before_acquire" (it has started,
    stamped its run start and stands in front of the lock) or "before_submit" (it has not yet
    created its Submitter: it STARTS while the owner is at work); drawn when not given"""
    if hold is None:
        hold = draw(st.sampled_from(["before_acquire", "before_acquire", "before_submit"]))
    procs = list(range(n))
    owner = draw(st.sampled_from(procs))
    others = [p for p in procs if p != owner]
    kind = draw(st.sampled_from(["contend", "contend", "contend", "barrier", "at_release", "late", "chain",
                                 "intrude", "intrude"]))
    cons = []
    if kind == "contend":
        inside, leave = draw(st.sampled_from(SECTIONS_PRE if pre else SECTIONS))
        k = draw(st.integers(1, len(others)))
        for c in others[:k]:
            cons.append([c, hold, owner, inside, "passed"])
            cons.append([owner, leave, c, "lock_wait", "passed"])
        for c in others[k:]:
            if draw(st.booleans()):
                cons.append([c, hold, owner, draw(st.sampled_from(["after_release", "returned"])), "passed"])
    elif kind == "intrude":
        # infeasible while the lock excludes (escaped at once as a wait-for cycle); it becomes feasible -
        # and exposes the overlap - exactly when a second submitter can get into the locked region
        inside = draw(st.sampled_from(["after_check", "before_release"] if pre else
                                      ["after_check", "after_populate", "body_entered", "body_left",
                                       "before_save", "after_save", "before_release"]))
        reached = draw(st.sampled_from(["after_acquire", "after_check"] if pre else
                                       ["after_acquire", "after_check", "after_populate", "body_entered"]))
        c = draw(st.sampled_from(others))
        cons.append([c, hold, owner, "after_acquire", "passed"])
        cons.append([owner, inside, c, reached, "passed"])
    elif kind == "barrier":
        for a in procs:
            for b in procs:
                if a != b:
                    cons.append([a, "before_acquire", b, "before_acquire", "arrived"])
    elif kind == "at_release":
        for c in others:
            cons.append([c, hold, owner, draw(st.sampled_from(["before_release", "after_save"])),
                         draw(st.sampled_from(["arrived", "passed"]))])
    elif kind == "late":
        for c in others:
            cons.append([c, hold, owner, draw(st.sampled_from(["after_release", "returned"])), "passed"])
    else:  # chain: each submitter arrives while its predecessor is polling or holding
        order = draw(st.permutations(procs))
        for a, b in zip(order, order[1:]):
            cons.append([b, hold, a,
                         draw(st.sampled_from(["after_acquire", "lock_wait"] + ([] if pre else ["body_entered"]))),
                         "passed"])
        cons.append([order[0], draw(st.sampled_from(["before_release"] if pre else
                                                    ["body_left", "after_save", "before_release"])),
                     order[-1], draw(st.sampled_from(["lock_wait", "before_acquire"])), "passed"])
    return kind, cons


@st.composite
def free_constraints(draw, n):
    cons = []
    for _ in range(draw(st.integers(1, 4))):
        i = draw(st.integers(0, n - 1))
        j = draw(st.integers(0, n - 1).filter(lambda v, i=i: v != i))
        cons.append([i, draw(st.sampled_from(GATES[:-1])), j, draw(st.sampled_from(GATES)),
                     draw(st.sampled_from(["passed", "passed", "arrived"]))])
    return "free", cons


@st.composite
def cases(draw, max_n=3):
    # Hypothesis always starts with the all-minimal example; with a handful of examples per shard
    # every shard would run the same case: discard it
    assume(draw(st.integers(0, 255)) != 0)
    mode = draw(st.sampled_from(["procs", "procs", "procs", "procs", "threads"]))
    n = 2 if mode == "threads" else draw(st.integers(2, max_n))
    worker = "debug" if mode == "threads" else draw(st.sampled_from(["debug", "debug", "debug", "cf"]))
    pre = draw(st.integers(0, 3)) == 0
    if draw(st.integers(0, 2)) == 0:
        kind, cons = draw(free_constraints(n))
    else:
        kind, cons = draw(scenario(n, pre))
    shape = "task" if mode == "threads" else draw(st.sampled_from(["task", "task", "task", "wf", "wf",
                                                                   "wf_shared"]))
    return dict(mode=mode, n=n, worker=worker, shape=shape, pre=pre,
                clean_stale_locks=draw(st.sampled_from([None, None, False, True])),
                delay_ms=draw(st.sampled_from([0, 50])), x=f"v{draw(st.integers(0, 9))}",
                constraints=cons, scenario=kind, escape_s=30.0)


@st.composite
def shared_node_cases(draw, max_n=3):
    """2..max_n submitter processes, each with a DIFFERENT workflow around the same node job (shape
    "wf_shared"), Submitter option clean_stale_locks drawn (mostly the value documented for shared
    caches, False), scenarios in which a submitter starts while another one is inside a drawn
    section of the locked region of the node job preferred."""
    assume(draw(st.integers(0, 255)) != 0)
    n = draw(st.integers(2, max_n))
    worker = draw(st.sampled_from(["debug", "debug", "debug", "cf"]))
    pre = draw(st.integers(0, 3)) == 0
    pick = draw(st.integers(0, 5))
    if pick == 0:
        kind, cons = draw(free_constraints(n))
    elif pick == 1:
        kind, cons = draw(scenario(n, pre))
    else:
        kind, cons = draw(scenario(n, pre, hold="before_submit"))
    return dict(mode="procs", n=n, worker=worker, shape="wf_shared", pre=pre,
                clean_stale_locks=draw(st.sampled_from([False, False, False, None, True])),
                delay_ms=draw(st.sampled_from([0, 50])), x=f"v{draw(st.integers(0, 9))}",
                constraints=cons, scenario=kind, escape_s=30.0)
