"""C10 generator: constraint sets that steer 2-4 submitters of one job at the gates of
vlib/inject/conc10.py.

A case is {"mode": "procs"|"threads", "n": 2..4, "worker": "debug"|"cf", "shape": "task"|"wf", "pre": bool,
"delay_ms": 0|50, "x": str, "constraints": [[i, gate, j, gate, "passed"|"arrived"], ...],
"escape_s": float}.

Half of the constraint sets are instances of scenario templates that are feasible by construction
(a second submitter arrives while the first one is inside a chosen section of the locked region and
the first one stays there until the second one is polling the lock; simultaneous arrival at the
lock; arrival exactly at release time ...) or that are feasible exactly when mutual exclusion is
broken ("intrude": the owner waits inside the locked region until another submitter got in too),
with generated roles; the rest are free draws over all
(gate, gate) pairs, many of which are infeasible and are counted as such.
"""
from __future__ import annotations

from hypothesis import assume
from hypothesis import strategies as st

from vlib.inject.conc10 import GATES

# sections of the locked region: (gate after which the owner is inside, gate it may only pass
# once the contender is polling the lock)
SECTIONS = [
    ("after_acquire", "after_check"),
    ("after_check", "after_populate"),
    ("after_populate", "body_entered"),
    ("body_entered", "body_left"),
    ("body_left", "before_save"),
    ("before_save", "after_save"),
    ("after_save", "before_release"),
]


# with a pre-existing result the owner leaves right after the check
SECTIONS_PRE = [("after_acquire", "after_check"), ("after_check", "before_release")]


@st.composite
def scenario(draw, n, pre=False):
    procs = list(range(n))
    owner = draw(st.sampled_from(procs))
    others = [p for p in procs if p != owner]
    kind = draw(st.sampled_from(["contend", "contend", "contend", "barrier", "at_release", "late", "chain",
                                 "intrude", "intrude"]))
    cons = []
    if kind == "contend":
        inside, leave = draw(st.sampled_from(SECTIONS_PRE if pre else SECTIONS))
        k = draw(st.integers(1, len(others)))
        for c in others[:k]:
            cons.append([c, "before_acquire", owner, inside, "passed"])
            cons.append([owner, leave, c, "lock_wait", "passed"])
        for c in others[k:]:
            if draw(st.booleans()):
                cons.append([c, "before_acquire", owner, draw(st.sampled_from(["after_release", "returned"])), "passed"])
    elif kind == "intrude":
        # infeasible while the lock excludes (escaped at once as a wait-for cycle); it becomes feasible -
        # and exposes the overlap - exactly when a second submitter can get into the locked region
        inside = draw(st.sampled_from(["after_check", "before_release"] if pre else
                                      ["after_check", "after_populate", "body_entered", "body_left",
                                       "before_save", "after_save", "before_release"]))
        reached = draw(st.sampled_from(["after_acquire", "after_check"] if pre else
                                       ["after_acquire", "after_check", "after_populate", "body_entered"]))
        c = draw(st.sampled_from(others))
        cons.append([c, "before_acquire", owner, "after_acquire", "passed"])
        cons.append([owner, inside, c, reached, "passed"])
    elif kind == "barrier":
        for a in procs:
            for b in procs:
                if a != b:
                    cons.append([a, "before_acquire", b, "before_acquire", "arrived"])
    elif kind == "at_release":
        for c in others:
            cons.append([c, "before_acquire", owner, draw(st.sampled_from(["before_release", "after_save"])),
                         draw(st.sampled_from(["arrived", "passed"]))])
    elif kind == "late":
        for c in others:
            cons.append([c, "before_acquire", owner, draw(st.sampled_from(["after_release", "returned"])), "passed"])
    else:  # chain: each submitter arrives while its predecessor is polling or holding
        order = draw(st.permutations(procs))
        for a, b in zip(order, order[1:]):
            cons.append([b, "before_acquire", a,
                         draw(st.sampled_from(["after_acquire", "lock_wait"] + ([] if pre else ["body_entered"]))),
                         "passed"])
        cons.append([order[0], draw(st.sampled_from(["before_release"] if pre else
                                                    ["body_left", "after_save", "before_release"])),
                     order[-1], draw(st.sampled_from(["lock_wait", "before_acquire"])), "passed"])
    return kind, cons


@st.composite
def free_constraints(draw, n):
    cons = []
    for _ in range(draw(st.integers(1, 4))):
        i = draw(st.integers(0, n - 1))
        j = draw(st.integers(0, n - 1).filter(lambda v, i=i: v != i))
        cons.append([i, draw(st.sampled_from(GATES[:-1])), j, draw(st.sampled_from(GATES)),
                     draw(st.sampled_from(["passed", "passed", "arrived"]))])
    return "free", cons


@st.composite
def cases(draw, max_n=3):
    # Hypothesis always starts with the all-minimal example; with a handful of examples per shard
    # every shard would run the same case: discard it
    assume(draw(st.integers(0, 255)) != 0)
    mode = draw(st.sampled_from(["procs", "procs", "procs", "procs", "threads"]))
    n = 2 if mode == "threads" else draw(st.integers(2, max_n))
    worker = "debug" if mode == "threads" else draw(st.sampled_from(["debug", "debug", "debug", "cf"]))
    pre = draw(st.integers(0, 3)) == 0
    if draw(st.integers(0, 2)) == 0:
        kind, cons = draw(free_constraints(n))
    else:
        kind, cons = draw(scenario(n, pre))
    shape = "task" if mode == "threads" else draw(st.sampled_from(["task", "task", "wf"]))
    return dict(mode=mode, n=n, worker=worker, shape=shape, pre=pre,
                delay_ms=draw(st.sampled_from([0, 50])), x=f"v{draw(st.integers(0, 9))}",
                constraints=cons, scenario=kind, escape_s=30.0)
