"""Type grammar (DESIGN 3.4) for C20/C21: JSON type specs, JSON value specs, strategies.

type spec
  ["int"] ["float"] ["bool"] ["str"] ["bytes"] ["Path"] ["File"] ["Any"] ["None"](union member only)
  ["Optional", T, sp]  ["Union", [T, T(, T)], sp]        sp: "ty" -> typing.Optional/Union, "pipe" -> X | Y
  ["list", T] ["tuplevar", T] ["tuple", [T1, T2(, T3)]] ["dict", K, V] ["set", T] ["frozenset", T]
  ["Sequence", T] ["Mapping", K, V] ["Multi", T]          (Multi = pydra MultiInputObj)
value spec
  ["none"] ["bool", b] ["int", "<decimal>"] ["float", "<hex>"|"inf"|"-inf"] ["str", s] ["bytes", "<hex>"]
  ["path", s] ["purepath", s]
  ["file", "<hex content>"]      -> fileformats.generic.File over a scratch file
  ["filestr", "<hex content>"]   -> str path of an existing scratch file; ["filepath", hex] -> Path
  ["list", [..]] ["tuple", [..]] ["set", [..]] ["frozenset", [..]] ["dict", [[k, v], ..]]

build_type(spec) -> the Python type; build_value(spec, scratch) -> the Python value;
values_of(T) -> strategy of value specs conforming to T (vlib/ref/conforms.py is the judge);
values_near(T) -> strategy of value specs near T: another type's value, a coercible neighbour
(tuple for list, int for float, str for Path, single item for a multi-input ...), or a str /
sequence confusion (a str where a collection is declared and vice versa).
"""
from __future__ import annotations

import os

import functools
import json
import operator
import typing as ty
from pathlib import Path, PurePosixPath

from hypothesis import strategies as st

SCALARS = ["int", "float", "bool", "str", "bytes", "Path", "File", "Any"]
HASHABLE_SCALARS = ["int", "float", "bool", "str", "bytes", "Path"]
CONTAINERS = ["list", "tuplevar", "tuple", "dict", "set", "frozenset", "Sequence", "Mapping", "Multi"]


# ------------------------------------------------------------------------------- types
def build_type(spec):
    k = spec[0]
    if k == "int":
        return int
    if k == "float":
        return float
    if k == "bool":
        return bool
    if k == "str":
        return str
    if k == "bytes":
        return bytes
    if k == "Path":
        return Path
    if k == "File":
        from fileformats.generic import File

        return File
    if k == "Any":
        return ty.Any
    if k == "None":
        return type(None)
    if k == "Optional":
        inner = build_type(spec[1])
        return ty.Optional[inner] if spec[2] == "ty" else (inner | None)
    if k == "Union":
        ms = [build_type(m) for m in spec[1]]
        if spec[2] == "ty":
            return ty.Union[tuple(ms)]
        return functools.reduce(operator.or_, ms)
    if k == "list":
        return list[build_type(spec[1])]
    if k == "tuplevar":
        return tuple[build_type(spec[1]), ...]
    if k == "tuple":
        return tuple[tuple(build_type(m) for m in spec[1])]
    if k == "dict":
        return dict[build_type(spec[1]), build_type(spec[2])]
    if k == "set":
        return set[build_type(spec[1])]
    if k == "frozenset":
        return frozenset[build_type(spec[1])]
    if k == "Sequence":
        return ty.Sequence[build_type(spec[1])]
    if k == "Mapping":
        return ty.Mapping[build_type(spec[1]), build_type(spec[2])]
    if k == "Multi":
        from pydra.utils.typing import MultiInputObj

        return MultiInputObj[build_type(spec[1])]
    raise ValueError(f"unknown type spec {spec!r}")


def render(spec) -> str:
    k = spec[0]
    if k in SCALARS or k == "None":
        return k
    if k == "Optional":
        return f"{render(spec[1])}|None" if spec[2] == "pipe" else f"Optional[{render(spec[1])}]"
    if k == "Union":
        ms = [render(m) for m in spec[1]]
        return "|".join(ms) if spec[2] == "pipe" else f"Union[{','.join(ms)}]"
    if k == "tuplevar":
        return f"tuple[{render(spec[1])},...]"
    if k == "tuple":
        return f"tuple[{','.join(render(m) for m in spec[1])}]"
    if k in ("dict", "Mapping"):
        return f"{k}[{render(spec[1])},{render(spec[2])}]"
    return f"{'MultiInputObj' if k == 'Multi' else k}[{render(spec[1])}]"


def children(spec):
    k = spec[0]
    if k in SCALARS or k == "None":
        return []
    if k == "Optional":
        return [spec[1]]
    if k in ("Union", "tuple"):
        return list(spec[1])
    if k in ("dict", "Mapping"):
        return [spec[1], spec[2]]
    return [spec[1]]


def kinds(spec, acc=None):
    acc = set() if acc is None else acc
    acc.add(spec[0])
    for c in children(spec):
        kinds(c, acc)
    return acc


def depth(spec) -> int:
    cs = children(spec)
    return 0 if not cs else 1 + max(depth(c) for c in cs)


def hashable_type(spec) -> bool:
    """every conforming value is hashable (usable as set element / dict key)"""
    k = spec[0]
    if k in HASHABLE_SCALARS or k == "None":
        return True
    if k in ("Optional", "Union", "tuple", "tuplevar", "frozenset"):
        return all(hashable_type(c) for c in children(spec))
    return False


@st.composite
def types(draw, max_depth=3, hashable=False, top=True):
    """type specs of nesting depth <= max_depth"""
    if max_depth <= 0 or draw(st.integers(0, 99)) < (22 if top else 40):
        return [draw(st.sampled_from(HASHABLE_SCALARS if hashable else SCALARS))]
    sub = functools.partial(types, max_depth=max_depth - 1, top=False)
    pool = (["Optional", "Union", "tuplevar", "tuple", "frozenset"] if hashable else
            ["Optional", "Union", "list", "tuplevar", "tuple", "dict", "set", "frozenset",
             "Sequence", "Mapping", "Multi", "list", "Union", "Optional"])
    k = draw(st.sampled_from(pool))
    sp = draw(st.sampled_from(["ty", "pipe"]))
    if k == "Optional":
        inner = draw(sub(hashable=hashable).filter(lambda t: t[0] not in ("Optional", "Any")))
        return ["Optional", inner, sp]
    if k == "Union":
        n = draw(st.integers(2, 3))
        ms, seen = [], set()
        for _ in range(n + 2):
            m = ["None"] if draw(st.integers(0, 11)) == 0 else draw(sub(hashable=hashable))
            if m[0] in ("Union", "Optional"):
                continue
            key = json.dumps(_strip_spelling(m))
            if key not in seen:
                seen.add(key)
                ms.append(m)
            if len(ms) == n:
                break
        if len(ms) < 2:
            real = [m for m in ms if m[0] != "None"]
            return real[0] if real else ["int"]
        if all(m[0] == "None" for m in ms):
            return ["int"]
        return ["Union", ms, sp]
    if k in ("set", "frozenset"):
        return [k, draw(sub(hashable=True))]
    if k in ("dict", "Mapping"):
        return [k, draw(sub(hashable=True, max_depth=min(max_depth - 1, 1))), draw(sub(hashable=hashable))]
    if k == "tuple":
        n = draw(st.sampled_from([2, 2, 2, 1, 3]))
        return ["tuple", [draw(sub(hashable=hashable)) for _ in range(n)]]
    return [k, draw(sub(hashable=hashable))]


def _strip_spelling(spec):
    k = spec[0]
    if k == "Optional":
        return ["Optional", _strip_spelling(spec[1])]
    if k == "Union":
        return ["Union", [_strip_spelling(m) for m in spec[1]]]
    if k == "tuple":
        return ["tuple", [_strip_spelling(m) for m in spec[1]]]
    return [k] + [_strip_spelling(c) for c in children(spec)]


# ------------------------------------------------------------------------------- values
def contains_file(vspec) -> bool:
    k = vspec[0]
    if k in ("file", "filestr", "filepath"):
        return True
    if k in ("list", "tuple", "set", "frozenset"):
        return any(contains_file(e) for e in vspec[1])
    if k == "dict":
        return any(contains_file(a) or contains_file(b) for a, b in vspec[1])
    return False


def _scratch_file(scratch, hexcontent):
    if scratch is None:
        raise ValueError("a scratch directory is needed to build file values")
    p = Path(scratch) / "files" / f"f{hexcontent or 'empty'}.txt"
    if not p.exists():
        p.parent.mkdir(parents=True, exist_ok=True)
        p.write_bytes(bytes.fromhex(hexcontent))
    return p


def build_value(spec, scratch=None):
    k = spec[0]
    if k == "none":
        return None
    if k == "bool":
        return bool(spec[1])
    if k == "int":
        return int(spec[1])
    if k == "float":
        return float(spec[1]) if spec[1] in ("inf", "-inf") else float.fromhex(spec[1])
    if k == "str":
        return spec[1]
    if k == "bytes":
        return bytes.fromhex(spec[1])
    if k == "path":
        return Path(spec[1])
    if k == "purepath":
        return PurePosixPath(spec[1])
    if k == "file":
        from fileformats.generic import File

        return File(_scratch_file(scratch, spec[1]))
    if k == "filestr":
        return str(_scratch_file(scratch, spec[1]))
    if k == "filepath":
        return _scratch_file(scratch, spec[1])
    if k == "list":
        return [build_value(e, scratch) for e in spec[1]]
    if k == "tuple":
        return tuple(build_value(e, scratch) for e in spec[1])
    if k == "set":
        return {build_value(e, scratch) for e in spec[1]}
    if k == "frozenset":
        return frozenset(build_value(e, scratch) for e in spec[1])
    if k == "dict":
        return {build_value(a, scratch): build_value(b, scratch) for a, b in spec[1]}
    raise ValueError(f"unknown value spec {spec!r}")


def hashable_value(vspec) -> bool:
    k = vspec[0]
    if k in ("list", "set", "dict", "file"):
        return False
    if k in ("tuple", "frozenset"):
        return all(hashable_value(e) for e in vspec[1])
    return True


def valid_value(vspec) -> bool:
    """set elements and dict keys hashable, everywhere"""
    k = vspec[0]
    if k in ("set", "frozenset"):
        return all(hashable_value(e) and valid_value(e) for e in vspec[1])
    if k == "dict":
        return all(hashable_value(a) and valid_value(a) and valid_value(b) for a, b in vspec[1])
    if k in ("list", "tuple"):
        return all(valid_value(e) for e in vspec[1])
    return True


_ORDER_CLASS = {"int": "num", "bool": "num", "float": "num", "str": "str", "filestr": "str",
                "bytes": "bytes", "path": "path", "filepath": "path", "purepath": "path"}


def hash_safe(vspec) -> bool:
    """dict keys and set elements are mutually orderable scalars (or there is at most one):
    pydra's hashing sorts them and refuses mixed kinds by design (C08 assumption)

    No longer used as a filter: that reading was wrong (see DESIGN 10, findings F-C08 sets and
    repo commit 0f3c8582 for mappings); kept as a classifier for the evidence counters."""
    if os.environ.get("VERIF_HASH_SAFE_FILTER") != "1":
        return True
    k = vspec[0]
    if k in ("set", "frozenset", "dict"):
        els = vspec[1] if k != "dict" else [a for a, _ in vspec[1]]
        if len(els) > 1:
            classes = {_ORDER_CLASS.get(e[0]) for e in els}
            if len(classes) != 1 or None in classes:
                return False
        subs = vspec[1] if k != "dict" else [x for ab in vspec[1] for x in ab]
        return all(hash_safe(e) for e in subs)
    if k in ("list", "tuple"):
        return all(hash_safe(e) for e in vspec[1])
    return True


def vkinds(vspec, acc=None):
    acc = set() if acc is None else acc
    acc.add(vspec[0])
    k = vspec[0]
    if k in ("list", "tuple", "set", "frozenset"):
        for e in vspec[1]:
            vkinds(e, acc)
    elif k == "dict":
        for a, b in vspec[1]:
            vkinds(a, acc)
            vkinds(b, acc)
    return acc


def _uniq_by_eq(specs):
    """drop specs whose built values compare equal (1 == 1.0 == True inside one set)"""
    seen, out = set(), []
    for s in specs:
        v = _eqkey(s)
        if v not in seen:
            seen.add(v)
            out.append(s)
    return out


def _eqkey(spec):
    if contains_file(spec):
        return ("spec", json.dumps(spec))
    return build_value(spec)


_TEXTS = ["abc", "ab", "xy", "a", "", "b c", "12", "a/b", "x.txt", "é漢", "['a']", "None", "0"]
_text = st.one_of(st.sampled_from(_TEXTS), st.text(alphabet="abcxyz01 /._-", max_size=4))
_ints = st.one_of(st.integers(-3, 3), st.sampled_from([255, 2**40, -(2**70)]))
_floats = st.sampled_from([0.0, -0.0, 0.5, 1.0, -2.25, 3.0, 1e10, float("inf")])
_paths = st.sampled_from(["a", "a/b", "/x/y.txt", ".", "d/e.nii.gz", "/"])
_hex = st.binary(max_size=3).map(lambda b: b.hex())


def _fl(f):
    return ["float", repr(f) if abs(f) == float("inf") else float(f).hex()]


def scalar_values(kind, existing_paths=False):
    if kind == "int":
        return st.one_of(_ints.map(lambda i: ["int", str(i)]), _ints.map(lambda i: ["int", str(i)]),
                         _ints.map(lambda i: ["int", str(i)]), st.booleans().map(lambda b: ["bool", b]))
    if kind == "float":
        return _floats.map(_fl)
    if kind == "bool":
        return st.booleans().map(lambda b: ["bool", b])
    if kind == "str":
        if existing_paths:
            return _hex.map(lambda h: ["filestr", h])
        return _text.map(lambda s: ["str", s])
    if kind == "bytes":
        return st.one_of(_hex, st.sampled_from(["6162", "", "00ff"])).map(lambda h: ["bytes", h])
    if kind == "Path":
        if existing_paths:
            return _hex.map(lambda h: ["filepath", h])
        return _paths.map(lambda s: ["path", s])
    if kind == "File":
        return _hex.map(lambda h: ["file", h])
    if kind == "None":
        return st.just(["none"])
    raise ValueError(kind)


def _any_values(hashable, existing_paths):
    leaf = st.one_of(*[scalar_values(k, existing_paths) for k in HASHABLE_SCALARS], st.just(["none"]))
    if hashable:
        return st.one_of(leaf, st.lists(leaf, max_size=2).map(lambda x: ["tuple", x]))
    return st.one_of(
        leaf, leaf,
        st.lists(leaf, max_size=3).map(lambda x: ["list", x]),
        st.lists(leaf, max_size=2).map(lambda x: ["tuple", x]),
        st.lists(st.tuples(scalar_values("str"), leaf).map(list), max_size=2).map(
            lambda x: ["dict", _uniq_keys(x)]),
    )


def _uniq_keys(items):
    seen, out = set(), []
    for a, b in items:
        v = _eqkey(a)
        if v not in seen:
            seen.add(v)
            out.append([a, b])
    return out


@st.composite
def values_of(draw, T, hashable=False, existing_paths=False, str_as_seq=False, max_len=3):
    """value specs that conform to T.  existing_paths: every str/Path names an existing scratch
    file; str_as_seq: a str / bytes may stand for Sequence[str] / Sequence[int] (Python's own
    reading; off by default)."""
    kw = dict(hashable=hashable, existing_paths=existing_paths, str_as_seq=str_as_seq, max_len=max_len)
    sub = lambda t, **over: draw(values_of(t, **{**kw, **over}))  # noqa: E731
    k = T[0]
    if k == "Any":
        return draw(_any_values(hashable, existing_paths))
    if k in SCALARS or k == "None":
        return draw(scalar_values(k, existing_paths))
    if k == "Optional":
        return ["none"] if draw(st.integers(0, 3)) == 0 else sub(T[1])
    if k == "Union":
        return sub(draw(st.sampled_from(T[1])))
    n = draw(st.integers(0, max_len))
    if k in ("list", "Multi"):
        return ["list", [sub(T[1]) for _ in range(n)]]
    if k == "tuplevar":
        return ["tuple", [sub(T[1]) for _ in range(n)]]
    if k == "tuple":
        return ["tuple", [sub(m) for m in T[1]]]
    if k in ("set", "frozenset"):
        return [k, _uniq_by_eq([sub(T[1], hashable=True) for _ in range(n)])]
    if k == "Sequence":
        if str_as_seq and draw(st.integers(0, 2)) == 0:
            inner = T[1]
            if inner[0] in ("str", "Any") and not existing_paths:
                return draw(scalar_values("str"))
            if inner[0] in ("int", "Any"):
                return draw(scalar_values("bytes"))
        return [draw(st.sampled_from(["list", "tuple"])), [sub(T[1]) for _ in range(n)]]
    if k in ("dict", "Mapping"):
        return ["dict", _uniq_keys([[sub(T[1], hashable=True), sub(T[2])] for _ in range(n)])]
    raise ValueError(T)


# ------------------------------------------------------------------------------- near values
def _chars(s, kind):
    els = [["str", c] for c in s]
    if kind in ("set", "frozenset"):
        els = _uniq_by_eq(els)
    return [kind, els]


def near_mutations(vs):
    """[(label, replacement spec)]: coercible neighbours and str/sequence confusions of one node"""
    k = vs[0]
    out = []
    if k == "int":
        i = int(vs[1])
        out += [("num", _fl(float(i))) if abs(i) < 2**50 else ("num", ["str", vs[1]]),
                ("tostr", ["str", vs[1]]), ("wrap", ["list", [vs]]), ("none", ["none"])]
        if i in (0, 1):
            out.append(("num", ["bool", bool(i)]))
    elif k == "float":
        f = build_value(vs)
        if abs(f) != float("inf") and f == int(f):
            out.append(("num", ["int", str(int(f))]))
        out += [("tostr", ["str", repr(f)]), ("none", ["none"]), ("wrap", ["list", [vs]])]
    elif k == "bool":
        out += [("num", ["int", str(int(vs[1]))]), ("tostr", ["str", str(bool(vs[1]))]),
                ("none", ["none"]), ("num", _fl(float(vs[1])))]
    elif k == "str":
        s = vs[1]
        out += [("pathlike", ["path", s or "."]), ("pathlike", ["purepath", s or "."]),
                ("bytes", ["bytes", s.encode().hex()]), ("wrap", ["list", [vs]]),
                ("wrap", ["tuple", [vs]]), ("none", ["none"]),
                ("confuse_split", _chars(s, "list")), ("confuse_split", _chars(s, "tuple")),
                ("confuse_split", _chars(s, "set")), ("confuse_split", _chars(s, "frozenset"))]
        if s.lstrip("-").isdigit():
            out.append(("num", ["int", str(int(s))]))
    elif k == "bytes":
        b = bytes.fromhex(vs[1])
        out += [("intlist", ["list", [["int", str(c)] for c in b]]), ("none", ["none"]),
                ("wrap", ["list", [vs]])]
        try:
            out.append(("tostr", ["str", b.decode()]))
        except UnicodeDecodeError:
            pass
    elif k in ("path", "purepath"):
        out += [("pathlike", ["str", vs[1]]), ("none", ["none"]), ("wrap", ["list", [vs]]),
                ("pathlike", ["purepath" if k == "path" else "path", vs[1]]),
                ("bytes", ["bytes", vs[1].encode().hex()])]
    elif k in ("file", "filestr", "filepath"):
        out += [("pathlike", [alt, vs[1]]) for alt in ("file", "filestr", "filepath") if alt != k]
        out += [("pathlike", ["str", "/nonexistent/" + (vs[1] or "e")]), ("none", ["none"]),
                ("wrap", ["list", [vs]])]
    elif k == "none":
        out += [("fill", ["int", "0"]), ("fill", ["str", ""]), ("fill", ["list", []]),
                ("fill", ["bool", False]), ("fill", ["str", "None"])]
    elif k in ("list", "tuple", "set", "frozenset"):
        els = vs[1]
        for alt in ("list", "tuple", "set", "frozenset"):
            if alt != k:
                out.append(("container", [alt, els if alt in ("list", "tuple") else _dedupe(els)]))
        if all(e[0] == "str" for e in els):
            strs = [e[1] for e in els]
            out += [("confuse_join", ["str", "".join(strs)]), ("confuse_join", ["str", repr(strs)]),
                    ("confuse_join", ["str", " ".join(strs)])]
        else:
            out.append(("confuse_join", ["str", "abc"]))
        out.append(("confuse_join", ["str", "xyz"]))
        if len(els) == 1:
            out.append(("unwrap", els[0]))
        if k in ("list", "tuple"):
            out += [("arity", [k, els + els[-1:]] if els else [k, [["int", "1"]]]),
                    ("alien", [k, els + [["str", "zz"]]]), ("alien", [k, els + [["none"]]]),
                    ("alien", [k, [["int", "7"]] + els]), ("wrap", ["list", [vs]])]
            if els:
                out.append(("arity", [k, els[:-1]]))
            if k == "list" and all(e[0] == "int" and 0 <= int(e[1]) < 256 for e in els):
                out.append(("bytes", ["bytes", bytes(int(e[1]) for e in els).hex()]))
            if all(e[0] == "tuple" and len(e[1]) == 2 for e in els) and els:
                out.append(("container", ["dict", [[a, b] for _, (a, b) in els]]))
        out.append(("none", ["none"]))
    elif k == "dict":
        items = vs[1]
        out += [("container", ["list", [a for a, _ in items]]),
                ("container", ["list", [["tuple", [a, b]] for a, b in items]]),
                ("confuse_join", ["str", "abc"]), ("none", ["none"]),
                ("alien", ["dict", items + [[["str", "zz"], ["none"]]]]),
                ("alien", ["dict", items + [[["int", "9"], ["str", "q"]]]])]
        if items:
            a, b = items[-1]
            if a[0] == "str":
                out.append(("pathlike", ["dict", items[:-1] + [[["path", a[1] or "."], b]]]))
            if a[0] == "int":
                out.append(("tostr", ["dict", items[:-1] + [[["str", a[1]], b]]]))
    return [(lab, s) for lab, s in out if valid_value(s) and s != vs]


def _dedupe(els):
    els = [e for e in els if hashable_value(e)]
    try:
        return _uniq_by_eq(els)
    except (TypeError, ValueError):
        return els


def vpaths(vs, path=()):
    yield path
    k = vs[0]
    if k in ("list", "tuple", "set", "frozenset"):
        for i, e in enumerate(vs[1]):
            yield from vpaths(e, path + (1, i))
    elif k == "dict":
        for i, (a, b) in enumerate(vs[1]):
            yield from vpaths(a, path + (1, i, 0))
            yield from vpaths(b, path + (1, i, 1))


def vget(vs, path):
    for p in path:
        vs = vs[p]
    return vs


def vset(vs, path, new):
    if not path:
        return new
    out = list(vs)
    out[path[0]] = vset(vs[path[0]], path[1:], new)
    return out


def _renormalise(vs):
    """re-dedupe sets / dict keys after a mutation below them; None when no longer buildable"""
    if not valid_value(vs):
        return None
    try:
        if not contains_file(vs):
            build_value(vs)
    except (TypeError, ValueError):
        return None
    return vs


@st.composite
def values_near(draw, T, existing_paths=False):
    """-> (label, value spec)"""
    mode = draw(st.sampled_from(["other_type", "mutate", "mutate", "confuse", "confuse_top",
                                 "bytes_for_collection"]))
    if mode == "bytes_for_collection":
        # bytes is a Sequence (of ints) that cannot hold anything else
        if T[0] in ("list", "tuplevar", "set", "frozenset", "Sequence", "Multi", "tuple"):
            return "bytes_for_collection", ["bytes", draw(st.sampled_from(["00", "01", "0001", "6162", ""]))]
        mode = "other_type"
    if mode == "other_type":
        other = draw(types(max_depth=min(2, max(1, depth(T)))))
        return "other_type", draw(values_of(other, existing_paths=existing_paths))
    base = draw(values_of(T, existing_paths=existing_paths))
    if mode == "confuse_top":
        # a str where T declares something else / the characters of a str where T declares str
        s = draw(st.sampled_from(["abc", "ab", "xyz", "a", "['a', 'b']", "12"]))
        if base[0] == "str" and len(base[1]) >= 1:
            return "confuse_split", _chars(base[1], draw(st.sampled_from(
                ["list", "tuple", "set", "frozenset"])))
        return "confuse_str_for_" + base[0], ["str", s]
    ps = list(vpaths(base))
    order = draw(st.permutations(ps)) if len(ps) > 1 else ps
    for p in order[:8]:
        cands = near_mutations(vget(base, p))
        if mode == "confuse":
            cands = [c for c in cands if c[0].startswith("confuse")]
        if not cands:
            continue
        lab, new = draw(st.sampled_from(cands))
        out = _renormalise(vset(base, p, new))
        if out is not None:
            return lab, out
    return "unmutated", base


# ------------------------------------------------------------------------------- related types (C21)
def _widenings(S):
    """type specs T that plausibly accept a connection from S (one local change of the root)"""
    k = S[0]
    out = [["Optional", S, "ty"], ["Optional", S, "pipe"], ["Multi", S],
           ["Union", [S, ["bytes"]], "ty"], ["Union", [["bytes"], S], "pipe"]]
    if k == "int":
        out += [["float"], ["Union", [["str"], ["float"]], "ty"]]
    if k == "bool":
        out += [["int"], ["float"], ["Union", [["int"], ["str"]], "pipe"]]
    if k == "str":
        out += [["Path"], ["File"]]
    if k == "Path":
        out += [["str"], ["File"]]
    if k == "File":
        out += [["Path"], ["str"]]
    if k in ("list", "tuplevar", "set", "frozenset", "Sequence", "Multi"):
        for alt in ("list", "tuplevar", "set", "frozenset", "Sequence", "Multi"):
            if alt != k and (alt not in ("set", "frozenset") or hashable_type(S[1])):
                out.append([alt, S[1]])
        out += [["tuple", [S[1], S[1]]], ["tuple", [S[1]]]]
    if k == "tuple":
        ms = S[1]
        out += [["tuple", ms[:-1]]] if len(ms) > 1 else []
        out.append(["tuple", ms + ms[-1:]])
        if len({json.dumps(_strip_spelling(m)) for m in ms}) == 1:
            for alt in ("list", "tuplevar", "Sequence", "Multi", "set", "frozenset"):
                if alt not in ("set", "frozenset") or hashable_type(ms[0]):
                    out.append([alt, ms[0]])
        else:
            u = ["Union", _dedupe_types(ms), "ty"]
            out += [["list", u], ["tuplevar", u], ["Sequence", u]]
    if k in ("dict", "Mapping"):
        out.append(["Mapping" if k == "dict" else "dict", S[1], S[2]])
    if k == "Optional":
        out += [S[1], ["Union", [S[1], ["None"], ["bytes"]], "ty"]]
    if k == "Union":
        out += [["Union", S[1][::-1], S[2]], ["Union", S[1] + [["bytes"]], S[2]], S[1][0],
                ["Union", S[1][:-1], S[2]] if len(S[1]) > 2 else S[1][-1]]
    return out


def _dedupe_types(ms):
    seen, out = set(), []
    for m in ms:
        key = json.dumps(_strip_spelling(m))
        if key not in seen:
            seen.add(key)
            out.append(m)
    return out


@st.composite
def related_type(draw, S, p_change=35):
    """a type derived from S by local widenings / container swaps at some nodes"""
    k = S[0]
    if draw(st.integers(0, 99)) < p_change:
        if draw(st.integers(0, 15)) == 0:
            return ["Any"]
        return draw(st.sampled_from(_widenings(S)))
    sub = lambda t: draw(related_type(t, p_change))  # noqa: E731
    if k in SCALARS or k == "None":
        return S
    if k == "Optional":
        inner = sub(S[1])
        return inner if inner[0] in ("Optional", "Any") else ["Optional", inner, S[2]]
    if k == "Union":
        ms = _dedupe_types([m for m in (sub(m) for m in S[1]) if m[0] not in ("Union", "Optional")])
        return ["Union", ms, S[2]] if len(ms) >= 2 else (ms[0] if ms else S)
    if k == "tuple":
        return ["tuple", [sub(m) for m in S[1]]]
    if k in ("dict", "Mapping"):
        key = sub(S[1])
        return [k, key if hashable_type(key) else S[1], sub(S[2])]
    inner = sub(S[1])
    if k in ("set", "frozenset") and not hashable_type(inner):
        inner = S[1]
    return [k, inner]
