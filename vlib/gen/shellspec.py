"""Shared generator of shell task definitions (DESIGN 3.5).  Used by C22, C23, C24, C32 and
importable by C25/C26/C27/C39.

Everything is a JSON-able *spec*; the pydra objects are built from it on demand.

SPEC  = {"executable": "tool" | ["tool", "sub", ...],
         "executable_seq": "tuple",                   # optional: a multi-part executable is handed
                                                      # to pydra as a tuple instead of a list
                                                      # (its type is str | Sequence[str]); needs
                                                      # "style": "class" (shell.define(<tuple>) is
                                                      # not part of the functional form)
         "style": "class",                            # optional: the definition is written in the
                                                      # canonical class form (@shell.define on a
                                                      # class with annotated shell.arg attributes
                                                      # and an `executable` attribute) instead of
                                                      # shell.define(executable, inputs={...})
         "fields": [FIELD, ...],                      # definition order is significant
         "xor":     [["a", "b", None], ...],          # optional: passed to shell.define(xor=)
         "outputs": [{"name": "out", "path_template": "{a}_out", "argstr": "-o",
                      "position": -1}, ...]}          # optional: shell.outarg(type=File, ...)
FIELD = {"name":     "a",                             # identifier, unique in the spec
         "type":     one of TYPES  ("bool" "str" "int" "float" "file" "list[str]" "list[int]"
                                    "multi[str]" = MultiInputObj[str]),
         "optional": bool,                            # True -> `T | None`
         "argstr":   str | None,                      # "-a" "--a" "--a={a}" "--a {a}" "-a..."
                                                      # "--a {a}..." "" (bare value) None (not
                                                      # part of the command)
         "position": int | None,
         "sep":      str | None,                      # None -> not passed (pydra default " ")
         "default":  <json value>}                    # key ABSENT -> mandatory field
                                                      # extra keys "help", "allowed_values",
                                                      # "readonly" are passed through;
                                                      # "requires": [[R, ...], ...] (alternatives
                                                      # of conjunctions) with R = "name" or
                                                      # ["name", [allowed values]]
VALUES = {"a": <json value>, ...}                     # a missing name keeps the default
         value by type: bool -> true/false, str -> "s", int, float, file -> "<base name>" (the
         file is created in the working directory given to kwargs()/resolved()),
         list[...] -> [..], multi[str] -> [..] or a single "s"; None for optional fields
CASE   = {"spec": SPEC, "values": VALUES, "append_args": [str, ...],      (what the checks store)
          "executable_override": str | [str, ...],    # optional: T(executable=...) at call time
          "executable_override_seq": "tuple"}         # optional: ... given as a tuple

    T = build(spec)                       -> the `shell.define(...)` class  (ValueError etc. from
                                             pydra propagate: the caller decides what they mean)
    kw = kwargs(spec, values, workdir)    -> keyword arguments for T(**kw); creates the files
    rv = resolved(spec, values, workdir)  -> {name: json value} with defaults filled in and file
                                             names replaced by the absolute path string; this is
                                             what the reference model (vlib/ref/argv.py) reads
    task = make_task(case, workdir)       -> T(**kw, append_args=...)

Strategies (Hypothesis): specs(...), values_for(spec, alphabet), append_args(alphabet),
cases(alphabet, assignments=1|k, exe_seqs=, verbatim=, **specs-kwargs).  Alphabets: WORDS (C22),
MILD (words and blanks), SAFE (shell metacharacters, unicode letters and the whitespace characters
outside the POSIX blanks -- NO-BREAK SPACE, IDEOGRAPHIC SPACE, EM SPACE, LINE SEPARATOR, NEL, VT,
FF, US -- all of which POSIX tokenisation leaves alone: no blank/tab, quotes, backslash), HOSTILE
(DESIGN 3.5: blanks, tab, quotes, backslash, metacharacters, unicode incl. non-POSIX whitespace),
QUOTING (dense in the characters quoting rules care about: ' " backslash blank $ ` !; meant for the
arguments that reach argv verbatim: append_args and executables, see `verbatim=`).
Helpers for counters: position_kinds(spec), is_set(field, value), slots_collide(spec),
plain_char(ch), has_special(strings), has_uws(strings), executable_form(case).
"""
from __future__ import annotations

import os
from pathlib import Path

from hypothesis import strategies as st

TYPES = ("bool", "str", "int", "float", "file", "list[str]", "list[int]", "multi[str]")
LIST_TYPES = ("list[str]", "list[int]", "multi[str]")
NAMES = ("a", "b", "c", "d", "e", "g", "h", "k")
CLASS_NAME = "Tool"


# ---------------------------------------------------------------------------- building
def py_type(tname: str, optional: bool = False):
    from fileformats.generic import File
    from pydra.utils.typing import MultiInputObj

    t = {
        "bool": bool, "str": str, "int": int, "float": float, "file": File,
        "list[str]": list[str], "list[int]": list[int], "multi[str]": MultiInputObj[str],
    }[tname]
    return (t | None) if optional else t


_PASS_THROUGH = ("help", "allowed_values", "readonly")


def arg_kwargs(f: dict) -> dict:
    """keyword arguments of shell.arg for one FIELD"""
    kw = dict(type=py_type(f["type"], f.get("optional", False)), argstr=f.get("argstr", ""),
              position=f.get("position"))
    if f.get("sep") is not None:
        kw["sep"] = f["sep"]
    if "default" in f:
        kw["default"] = f["default"]
    for k in _PASS_THROUGH:
        if k in f:
            kw[k] = f[k]
    if "requires" in f:
        kw["requires"] = requires_arg(f["requires"])
    return kw


def requires_arg(req):
    """JSON requirement sets -> what the `requires=` argument of a field accepts"""
    return [[(r if isinstance(r, str) else (r[0], list(r[1]))) for r in rs] for rs in req]


def build(spec: dict, name: str = CLASS_NAME, **define_kwargs):
    """SPEC -> shell task class.  Exceptions raised by pydra propagate."""
    from pydra.compose import shell

    from fileformats.generic import File

    exe = spec["executable"]
    if spec.get("style") == "class":
        return build_class(spec, name, **define_kwargs)
    if spec.get("executable_seq") == "tuple":
        raise ValueError("generator bug: a tuple executable needs the class form of the definition")
    inputs = {f["name"]: shell.arg(**arg_kwargs(f)) for f in spec["fields"]}
    if spec.get("xor"):
        define_kwargs.setdefault("xor", [list(x) for x in spec["xor"]])
    if spec.get("outputs"):
        define_kwargs.setdefault("outputs", {
            o["name"]: shell.outarg(type=File, path_template=o["path_template"],
                                    argstr=o.get("argstr", ""), position=o.get("position"),
                                    **({"help": o["help"]} if "help" in o else {}))
            for o in spec["outputs"]})
    return shell.define(list(exe) if isinstance(exe, (list, tuple)) else exe, inputs=inputs,
                        name=name, **define_kwargs)


def exe_value(exe, seq=None):
    """the executable as it is handed to pydra: str, list or (seq == "tuple") tuple"""
    if isinstance(exe, (list, tuple)):
        return tuple(exe) if seq == "tuple" else list(exe)
    return exe


def build_class(spec: dict, name: str = CLASS_NAME, **define_kwargs):
    """SPEC -> shell task class through the canonical class form:

        @shell.define
        class Tool(shell.Task["Tool.Outputs"]):
            executable = <str | list | tuple>
            a: <type> = shell.arg(argstr=..., position=..., ...)
            class Outputs(shell.Outputs):
                out: File = shell.outarg(path_template=..., ...)
    """
    import types

    from fileformats.generic import File
    from pydra.compose import shell

    ns, ann = {"executable": exe_value(spec["executable"], spec.get("executable_seq"))}, {}
    for f in spec["fields"]:
        kw = arg_kwargs(f)
        ann[f["name"]] = kw.pop("type")
        ns[f["name"]] = shell.arg(**kw)
    ns["__annotations__"] = ann
    out_ns, out_ann = {}, {}
    for o in spec.get("outputs") or []:
        out_ann[o["name"]] = File
        out_ns[o["name"]] = shell.outarg(path_template=o["path_template"],
                                         argstr=o.get("argstr", ""), position=o.get("position"),
                                         **({"help": o["help"]} if "help" in o else {}))
    out_ns["__annotations__"] = out_ann
    ns["Outputs"] = type("Outputs", (shell.Outputs,), out_ns)
    klass = types.new_class(name, (shell.Task[f"{name}.Outputs"],),
                            exec_body=lambda n: n.update(ns))
    if spec.get("xor"):
        define_kwargs.setdefault("xor", [list(x) for x in spec["xor"]])
    return shell.define(klass, **define_kwargs) if define_kwargs else shell.define(klass)


def _file(workdir, base: str) -> str:
    p = Path(workdir) / base
    if not p.exists():
        p.parent.mkdir(parents=True, exist_ok=True)
        p.write_text("x")
    return str(p)


def kwargs(spec: dict, values: dict, workdir) -> dict:
    """VALUES -> keyword arguments for the task class (files are created in workdir)."""
    out = {}
    for f in spec["fields"]:
        n = f["name"]
        if n not in values:
            continue
        v = values[n]
        if f["type"] == "file" and v is not None:
            v = _file(workdir, v)
        out[n] = v
    return out


def resolved(spec: dict, values: dict, workdir) -> dict:
    """VALUES + defaults -> {name: json value}; file names become absolute path strings.
    A mandatory field without a value is reported as KeyError (generator bug)."""
    out = {}
    for f in spec["fields"]:
        n = f["name"]
        if n in values:
            v = values[n]
        else:
            v = f["default"]
        if f["type"] == "file" and v is not None:
            v = os.path.join(str(workdir), v)
        out[n] = v
    return out


def make_task(case: dict, workdir, T=None):
    T = build(case["spec"]) if T is None else T
    kw = kwargs(case["spec"], case["values"], workdir)
    if case.get("append_args") is not None:
        kw["append_args"] = list(case["append_args"])
    if case.get("executable_override") is not None:
        kw["executable"] = exe_value(case["executable_override"],
                                     case.get("executable_override_seq"))
    return T(**kw)


def effective_spec(case) -> dict:
    """the spec with the executable the task instance really uses (for the reference model)"""
    if case.get("executable_override") is not None:
        return dict(case["spec"], executable=case["executable_override"])
    return case["spec"]


def executable_form(case) -> str:
    """how the executable the task instance really uses was handed to pydra: str/list/tuple"""
    if case.get("executable_override") is not None:
        exe, seq = case["executable_override"], case.get("executable_override_seq")
    else:
        exe, seq = case["spec"]["executable"], case["spec"].get("executable_seq")
    if not isinstance(exe, (list, tuple)):
        return "str"
    return "tuple" if seq == "tuple" else "list"


# ---------------------------------------------------------------------------- alphabets
WORD_CHARS = "abcxyz019_.+"
WORDS = dict(name="words", chars=WORD_CHARS, min=1, max=4)
MILD = dict(name="mild", chars=WORD_CHARS + "  ", min=1, max=6)
# Whitespace for str.split()/str.strip()/str.isspace()/regex \s, but NOT for POSIX word splitting
# (shlex, sh: blank, tab, newline): NO-BREAK SPACE, IDEOGRAPHIC SPACE, EM SPACE, LINE SEPARATOR,
# NEL, VT, FF, UNIT SEPARATOR.  An argument holding one of them is still one argument.
UWS_CHARS = "\u00a0\u3000\u2003\u2028\x85\x0b\x0c\x1f"
# survive POSIX tokenisation unquoted (no blanks, quotes, backslash) but are shell metacharacters,
# unicode letters or non-POSIX whitespace
SAFE = dict(name="safe", chars=WORD_CHARS + "$*;&|<>()~#=,:%@!?^-" + "éü中α" + UWS_CHARS,
            min=1, max=6)
HOSTILE = dict(name="hostile",
               chars="abx01_." + " \t'\"\\" * 3 + "$*;&|<>()" + "é中" + "\u00a0\u3000\x0c",
               min=1, max=7)
# dense in what quoting rules distinguish: inside '...' nothing is special, inside "..." the
# backslash, $, ` (and for interactive shells !) are, outside both everything is
QUOTING = dict(name="quoting", chars="ab" + "''\\\\\"" + " $`!", min=1, max=5)
ALPHABETS = {a["name"]: a for a in (WORDS, MILD, SAFE, HOSTILE, QUOTING)}


def plain_char(ch: str) -> bool:
    """a character no shell and no tokeniser gives a meaning to"""
    return ch.isascii() and (ch.isalnum() or ch in "_.+-/")


def has_special(strings) -> bool:
    return any(not plain_char(ch) for s in strings for ch in s)


def has_uws(strings) -> bool:
    """some string contains whitespace that is not a POSIX blank (see UWS_CHARS)"""
    return any(ch in UWS_CHARS for s in strings for ch in s)


def text(alpha, for_file=False):
    chars = alpha["chars"]
    if for_file:
        chars = chars.replace("/", "")
    s = st.text(alphabet=st.sampled_from(list(chars)), min_size=alpha["min"],
                max_size=alpha["max"])
    if for_file:
        s = s.map(lambda x: x + ".dat")  # a usable base name (never '.' or '..')
    return s


INTS = st.sampled_from([0, 1, 7, 42, -3, 10**12])
FLOATS = st.sampled_from([0.0, 1.5, 2.25, -0.5, 1e-07, 3.0])


def value_of(tname: str, alpha, draw):
    if tname == "bool":
        return draw(st.booleans())
    if tname == "str":
        return draw(text(alpha))
    if tname == "int":
        return draw(INTS)
    if tname == "float":
        return draw(FLOATS)
    if tname == "file":
        return draw(text(alpha, for_file=True))
    if tname == "list[str]":
        return draw(st.lists(text(alpha), min_size=1, max_size=3))
    if tname == "list[int]":
        return draw(st.lists(INTS, min_size=1, max_size=3))
    if tname == "multi[str]":
        k = draw(st.integers(0, 5))
        if k == 0:
            return []
        if k == 1:
            return draw(text(alpha))  # a single value: MultiInputObj wraps it
        return draw(st.lists(text(alpha), min_size=1, max_size=3))
    raise ValueError(tname)


@st.composite
def values_for(draw, spec, alpha=WORDS, p_none=0.2):
    """An assignment for `spec`: mandatory fields always get a value; fields with a default are
    sometimes left out, optional ones sometimes set to None."""
    out = {}
    for f in spec["fields"]:
        has_default = "default" in f
        r = draw(st.integers(0, 9))
        if has_default and r == 0:
            continue
        if f.get("optional") and r <= int(p_none * 10):
            out[f["name"]] = None
            continue
        out[f["name"]] = value_of(f["type"], alpha, draw)
    return out


def append_args(alpha=WORDS):
    return st.one_of(st.none(), st.just([]), st.lists(text(alpha), min_size=1, max_size=3))


# ---------------------------------------------------------------------------- definitions
def argstr_choices(name: str, tname: str, templated=True):
    short, long_ = f"-{name}", f"--{name}"
    if tname == "bool":
        return [short, long_, long_, long_, short, None]
    plain = [short, long_, "", short, long_, "", None]
    tmpl = [f"{long_}={{{name}}}", f"{long_} {{{name}}}"] if templated else []
    if tname in LIST_TYPES:
        return plain + tmpl + [f"{short}...", f"{long_} {{{name}}}...", f"{long_}={{{name}}}...",
                               "..."]
    return plain + tmpl


@st.composite
def positions(draw, n):
    """n positions: None / small or large non-negative (>= 1, 0 is the executable) / negative,
    without duplicates."""
    used, out = set(), []
    for _ in range(n):
        r = draw(st.integers(0, 9))
        p = None
        if r <= 2:
            cand = [q for q in range(1, n + 2) if q not in used]
            p = draw(st.sampled_from(cand))
        elif r == 3:
            cand = [q for q in (n + 2, n + 5, 20, 100, 1000 + n) + tuple(range(2000, 2000 + n))
                    if q not in used]
            p = draw(st.sampled_from(cand))
        elif r <= 6:
            cand = [q for q in tuple(range(-1, -(n + 2), -1)) + (-(n + 4), -(n + 9))
                    if q not in used]
            p = draw(st.sampled_from(cand))
        if p is not None:
            used.add(p)
        out.append(p)
    return out


@st.composite
def specs(draw, min_fields=1, max_fields=5, types=TYPES, positioned=True, templated=True,
          executables=("tool", "tool", ["tool", "sub"]), seps=(None, " ", ",", ":"),
          defined_only=True, styles=("function",), exe_seqs=("list",)):
    """A SPEC.  `defined_only` keeps away from combinations the C22 statement leaves open
    (list joined by a blank separator inside a template; see vlib/ref/argv.py).
    `styles`: how the definition is written ("function" = shell.define(executable, inputs=...),
    "class" = decorated class); `exe_seqs`: the sequence type of a multi-part executable ("list",
    "tuple"; a tuple forces the class form, the functional form takes str/list only)."""
    n = draw(st.sampled_from([k for k in (1, 2, 2, 3, 3, 3, 4, 4, 4, 5, 5, 5, 6, 7, 8)
                              if min_fields <= k <= max_fields] or [min_fields]))
    names = draw(st.permutations(NAMES))[:n]
    pos = draw(positions(n)) if positioned else [None] * n
    if positioned and slots_collide(dict(fields=[dict(position=p) for p in pos])):
        # pydra rejects these definitions (see slots_collide); keep only a small share of them
        if draw(st.integers(0, 7)) != 0:
            pos = [(p + 3000 if p is not None and p > 0 else p) for p in pos]
            pos = [(None if p is not None and p == -(n + 1) else p) for p in pos]
    fields = []
    for name, p in zip(names, pos):
        tname = draw(st.sampled_from(types))
        argstr = draw(st.sampled_from(argstr_choices(name, tname, templated)))
        f = dict(name=name, type=tname, optional=False, argstr=argstr, position=p, sep=None)
        if tname in LIST_TYPES:
            f["sep"] = draw(st.sampled_from(seps))
            if (defined_only and argstr and "{" in argstr and not argstr.endswith("...")
                    and tname != "multi[str]" and (f["sep"] or " ").strip() == ""):
                f["sep"] = draw(st.sampled_from([",", ":"]))
        r = draw(st.integers(0, 9))
        if tname == "bool":
            if r <= 7:
                f["default"] = False
            elif r == 8:
                f["default"] = True
        elif tname == "multi[str]":
            if r <= 3:
                f["optional"] = True
                f["default"] = None
        else:
            if r <= 4:
                f["optional"] = True
                f["default"] = None
            elif r == 5:
                f["optional"] = True  # optional but mandatory
            elif r == 6 and tname in ("str", "int", "float"):
                f["default"] = {"str": "dflt", "int": 5, "float": 0.25}[tname]
        fields.append(f)
    spec = dict(executable=draw(st.sampled_from(list(executables))), fields=fields)
    if len(styles) > 1 or styles[0] != "function":
        if draw(st.sampled_from(list(styles))) == "class":
            spec["style"] = "class"
    if len(exe_seqs) > 1 and isinstance(spec["executable"], list):
        if draw(st.sampled_from(list(exe_seqs))) == "tuple":
            spec["executable_seq"], spec["style"] = "tuple", "class"
    return spec


@st.composite
def one_case(draw, spec, alpha, exe_seqs=("list",), verbatim=None):
    """`verbatim`: alphabet of the strings that reach argv without passing through an argstr
    (append_args, executable given at instantiation); default: the same as for the values."""
    valpha = alpha if verbatim is None else verbatim
    case = dict(spec=spec, values=draw(values_for(spec, alpha)), append_args=draw(append_args(valpha)))
    if draw(st.sampled_from([1] + [0] * 9)):  # executable given at instantiation
        case["executable_override"] = draw(st.one_of(
            text(valpha), st.lists(text(valpha), min_size=1, max_size=2)))
        if len(exe_seqs) > 1 and isinstance(case["executable_override"], list):
            if draw(st.sampled_from(list(exe_seqs))) == "tuple":
                case["executable_override_seq"] = "tuple"
    return case


@st.composite
def cases(draw, alpha=WORDS, assignments=1, verbatim=None, **spec_kw):
    spec = draw(specs(**spec_kw))
    seqs = spec_kw.get("exe_seqs", ("list",))
    if assignments == 1:
        return draw(one_case(spec, alpha, seqs, verbatim))
    return [draw(one_case(spec, alpha, seqs, verbatim)) for _ in range(assignments)]


# ---------------------------------------------------------------------------- descriptions
def position_kinds(spec) -> set:
    out = set()
    for f in spec["fields"]:
        p = f.get("position")
        out.add("none" if p is None else ("neg" if p < 0 else "nonneg"))
    return out


def is_set(f, v) -> bool:
    """does the field contribute anything according to the C22 statement"""
    if f.get("argstr") is None or v is None:
        return False
    if f["type"] == "bool":
        return v is True
    if f["type"] == "multi[str]" and v == []:
        return False
    return True


def slots_collide(spec) -> bool:
    """pydra identifies a negative position p with slot len(fields)+1+p (slot 0 = executable) and
    rejects the definition when two fields share a slot; used for counters only."""
    n = len(spec["fields"]) + 1
    slots = [0]
    for f in spec["fields"]:
        p = f.get("position")
        if p is not None:
            slots.append(p if p >= 0 else n + p)
    return len(slots) != len(set(slots))
