"""Hypothesis strategies for the cache-history checks (C11, C13, C19): JSON-able op lists."""
from __future__ import annotations

from hypothesis import strategies as st

# --------------------------------------------------------------------------------------- C11
C11_TASKS = ["A", "B", "C", "W", "S", "N"]       # N: workflow with the workflow W as a node
C11_PLANT_IDENTS = ["A", "B", "C", "E", "W", "N"]
PLANT_KINDS = ["empty", "jobonly", "zero", "trunc"]
# "trunc": _result.pklz is a proper, non-empty prefix of a pickle stream (the writer died half-way);
# the op carries "cut": the length of the prefix in permille of the complete stream


@st.composite
def c11_plant(draw, idents=None, roots=(0, 1, 2)):
    op = dict(op="plant", ident=draw(st.sampled_from(list(idents or C11_PLANT_IDENTS))),
              root=draw(st.sampled_from(list(roots))), kind=draw(st.sampled_from(PLANT_KINDS)))
    if op["kind"] == "trunc":
        op["cut"] = draw(st.sampled_from([1, 10, 250, 500, 900, 999]) | st.integers(1, 999))
    return op


@st.composite
def c11_op(draw, cf_weight=1):
    roots = [0, 1, 2]
    if draw(st.integers(0, 4)) == 4:
        return draw(c11_plant())
    root = draw(st.sampled_from(roots))
    others = [r for r in roots if r != root]
    ro = draw(st.sampled_from([[], [], others[:1], others[1:], others, others[::-1]]))
    worker = "cf" if draw(st.integers(0, 11)) < cf_weight else "debug"
    return dict(op="submit", task=draw(st.sampled_from(C11_TASKS)), root=root, ro=ro,
                rerun=draw(st.integers(0, 3)) == 0, prop=draw(st.booleans()), worker=worker)


def c11_history(max_ops=8, cf_weight=1):
    return st.lists(c11_op(cf_weight), min_size=1, max_size=max_ops).map(lambda ops: dict(ops=ops))


@st.composite
def c11_followups(draw, cf_weight=6):
    """One thing (workflows preferred) is submitted and then submitted again 1..3 times with
    drawn rerun / propagate_rerun / worker / cache lists, a leftover planted in between now and
    then: reruns (and read-only hits) of something already cached are reached in every case
    instead of by luck.  The first submission is an ordinary one on the debug worker."""
    roots = [0, 1, 2]
    task = draw(st.sampled_from(["N", "W", "S", "N", "W", "A", "C"]))
    root = draw(st.sampled_from(roots))
    ops = [dict(op="submit", task=task, root=root, ro=[], rerun=False, prop=draw(st.booleans()),
                worker="debug")]
    for _ in range(draw(st.integers(1, 3))):
        if draw(st.integers(0, 5)) == 5:
            ops.append(draw(c11_plant()))
        if draw(st.integers(0, 2)) == 2:            # move: the earlier root becomes a read-only cache
            new = draw(st.sampled_from([r for r in roots if r != root]))
            ro, root = [root], new
        else:
            ro = []
        ops.append(dict(op="submit", task=task, root=root, ro=ro,
                        rerun=draw(st.integers(0, 3)) > 0, prop=draw(st.integers(0, 2)) > 0,
                        worker="cf" if draw(st.integers(0, 11)) < cf_weight else "debug"))
    return dict(ops=ops)


@st.composite
def c11_leftover_scenarios(draw):
    """Something is submitted to one location; leftovers (drawn kind) of the identity of the thing
    submitted NEXT, or of identities inside it, are planted in other locations; then 1..2
    submissions (mostly without rerun) use another location as cache root and list the first one
    - and possibly the third - as read-only caches in a drawn order: an incomplete directory
    listed BEFORE the location with the complete result is met in most cases instead of by luck.
    The first thing is mostly the same as the next one, else any other of the pool (shared node
    identities: a task cached first, then a workflow that has it as a node; a workflow cached
    first, then the workflow that holds it as a node)."""
    from vlib.ref.cachehist import all_idents

    roots = [0, 1, 2]
    task = draw(st.sampled_from(C11_TASKS))
    t1 = task if draw(st.integers(0, 2)) else draw(st.sampled_from(C11_TASKS))
    first = draw(st.sampled_from(roots))
    ops = [dict(op="submit", task=t1, root=first, ro=[], rerun=False, prop=draw(st.booleans()),
                worker="debug")]
    inside = [i for i in all_idents(task) if i in C11_PLANT_IDENTS]
    inside = inside[:1] * 2 + inside          # the outermost plantable identity preferred
    others = [r for r in roots if r != first]
    for _ in range(draw(st.integers(1, 2))):
        ops.append(draw(c11_plant(idents=inside, roots=others)))
    for _ in range(draw(st.integers(1, 2))):
        root = draw(st.sampled_from(others))
        third = [r for r in others if r != root]
        ro = draw(st.sampled_from([[first], third + [first], [first] + third]))
        ops.append(dict(op="submit", task=task, root=root, ro=ro, rerun=draw(st.integers(0, 5)) == 0,
                        prop=draw(st.booleans()), worker="debug"))
    return dict(ops=ops)


# --------------------------------------------------------------------------------------- C13
C13_KINDS = ["py_raise", "sh_exit", "wf_node", "dict_missing", "dict_empty", "tuple_long",
             "tuple_short", "none_for_two"]


# how the command of the shell kind fails: exit status n | killed by signal n (TERM, KILL, USR1)
C13_SH_FAIL = [["exit", 3], ["signal", 15], ["exit", 1], ["signal", 9], ["exit", 255],
               ["signal", 10], ["exit", 127]]


def _sh_fail(draw, kinds):
    """drawn only when the shell kind takes part (the draw sequence of other cases is unchanged)"""
    return {"sh_fail": draw(st.sampled_from(C13_SH_FAIL))} if "sh_exit" in kinds else {}


@st.composite
def c13_history(draw, max_ops=8, cf_weight=1):
    kinds = draw(st.lists(st.sampled_from(C13_KINDS), min_size=1, max_size=2, unique=True))
    extra = _sh_fail(draw, kinds)
    n = draw(st.integers(2, max_ops))
    flag = {k: "fail" for k in kinds}
    ops = []
    for _ in range(n):
        k = draw(st.sampled_from(kinds))
        if draw(st.integers(0, 3)) == 3:
            # mostly toggle (a flip to the current value is a legal no-op and stays possible)
            other = "ok" if flag[k] == "fail" else "fail"
            value = other if draw(st.integers(0, 4)) else flag[k]
            flag[k] = value
            ops.append(dict(op="flip", kind=k, value=value))
        else:
            worker = "cf" if draw(st.integers(0, 11)) < cf_weight else "debug"
            ops.append(dict(op="submit", kind=k, worker=worker,
                            api=draw(st.sampled_from(["call", "call", "submitter"])),
                            rerun=draw(st.integers(0, 5)) == 0))
    return dict(kinds=kinds, ops=ops, **extra)


@st.composite
def c13_scenario(draw, cf_weight=1):
    """fail -> fixed -> again -> broken again -> rerun -> again, with random omissions: the
    follow-up classes (ok directly after a cached failure, cached ok while the flag says fail,
    rerun of a success that fails) are reached in every few cases instead of by luck"""
    k = draw(st.sampled_from(C13_KINDS))
    extra = _sh_fail(draw, [k])

    def sub(rerun=False):
        worker = "cf" if draw(st.integers(0, 11)) < cf_weight else "debug"
        return dict(op="submit", kind=k, worker=worker,
                    api=draw(st.sampled_from(["call", "call", "submitter"])), rerun=rerun)

    template = [sub(), sub(), dict(op="flip", kind=k, value="ok"), sub(), sub(),
                dict(op="flip", kind=k, value="fail"), sub(), sub(rerun=True), sub(),
                dict(op="flip", kind=k, value="ok"), sub()]
    ops = [o for o in template if draw(st.integers(0, 4))]
    return dict(kinds=[k], ops=ops, **extra)


# --------------------------------------------------------------------------------------- C19
MARK = "☃MUT"          # a value the grammar never generates
BIGINT = 424242


def _key_of(kspec):
    """runtime dict key / set element for the JSON-able atom kinds, else None"""
    if kspec[0] == "int":
        return int(kspec[1])
    if kspec[0] == "str":
        return kspec[1]
    return None


def mutable_targets(spec, rpath=()):
    """(runtime path, sub-spec) of every in-place-mutable object reachable by indexing /
    attribute access from the root value"""
    t = spec[0]
    if t in ("list", "dict", "set", "attrs", "obj", "ndarray"):
        yield [list(p) for p in rpath], spec
    if t in ("list", "tuple"):
        for i, s in enumerate(spec[1]):
            yield from mutable_targets(s, rpath + (("i", i),))
    elif t == "dict":
        for k, v in spec[1]:
            key = _key_of(k)
            if key is not None:
                yield from mutable_targets(v, rpath + (("k", key),))
    elif t in ("attrs", "obj"):
        for name, v in spec[2].items():
            yield from mutable_targets(v, rpath + (("a", name),))


def actions_for(spec):
    """in-place actions applicable to the object denoted by `spec` that change its content"""
    t = spec[0]
    out = []
    if t == "list":
        out.append(["append", BIGINT])
        if spec[1]:
            out += [["pop"], ["setitem", 0, MARK], ["clear"]]
    elif t == "dict":
        keys = [_key_of(k) for k, _ in spec[1]]
        out.append(["setitem", BIGINT if keys and isinstance(keys[0], int) else MARK, 1])
        if keys and keys[0] is not None:
            out += [["delitem", keys[0]], ["setitem", keys[0], MARK]]
        if keys:
            out.append(["clear"])
    elif t == "set":
        els = [_key_of(e) for e in spec[1]]
        if not els:
            out.append(["add", 1])
        elif els[0] is not None:
            out += [["add", BIGINT if isinstance(els[0], int) else MARK], ["discard", els[0]]]
        if els:
            out.append(["clear"])
    elif t in ("attrs", "obj"):
        for name in sorted(spec[2]):
            out.append(["setattr", name, MARK])
    elif t == "ndarray":
        vals = spec[3]
        if vals:
            v = vals[0]
            new = (not v) if spec[1] == "bool" else (0 if v != 0 else 1)
            out.append(["arr_set", 0, new])
    return out


@st.composite
def c19_value_case(draw, worker="debug"):
    from vlib.gen import values as V

    spec = draw(V.values(max_leaves=8, with_arrays=True, with_funcs=False, with_files=False))
    targets = [(p, s) for p, s in mutable_targets(spec) if actions_for(s)]
    if not targets:
        # wrap an immutable value so that every draw yields a usable case
        spec = draw(st.sampled_from([["list", [spec]], ["dict", [[["str", "k"], spec]]],
                                     ["obj", "Plain", {"a": spec, "b": ["none"]}]]))
        targets = [(p, s) for p, s in mutable_targets(spec) if actions_for(s)]
    kind = draw(st.sampled_from(sorted({s[0] for _, s in targets})))  # kinds equally likely
    path, sub = draw(st.sampled_from([t for t in targets if t[1][0] == kind]))
    if draw(st.integers(0, 3)) == 3:
        action = ["read"]
    else:
        action = draw(st.sampled_from(actions_for(sub)))
    return dict(task="mutator", value=spec, prog=[path, action], worker=worker)


# the enumerated pool: one small value per mutable kind (root and nested), every action
POOL_VALUES = [
    ["list", [["int", "1"], ["int", "2"]]],
    ["dict", [[["str", "k"], ["int", "1"]], [["str", "m"], ["int", "2"]]]],
    ["set", [["int", "1"], ["int", "2"]]],
    ["attrs", "P", {"a": ["int", "1"], "b": ["str", "x"]}],
    ["obj", "Plain", {"a": ["int", "1"], "b": ["str", "x"]}],
    ["ndarray", "int64", [2, 2], [1, 2, 3, 4], "C"],
    ["ndarray", "float64", [3], [0, 1, 2], "C"],
    ["tuple", [["int", "0"], ["list", [["int", "1"]]]]],
    ["dict", [[["str", "k"], ["list", [["int", "1"]]]]]],
    ["obj", "Plain", {"a": ["dict", [[["int", "1"], ["int", "2"]]]], "b": ["none"]}],
    ["list", [["attrs", "Q", {"a": ["set", [["str", "s"]]], "b": ["none"]}]]],
]
FILE_TASKS = ["file_any", "file_copy", "sh_any", "sh_copy"]
TWO_FILE_TASKS = ["file_two", "sh_two"]       # one task, two file fields a and b
TWO_MODES = [["any", "copy"], ["copy", "any"], ["copy", "copy"]]   # copy modes of (a, b) as declared


def c19_pool(full=True):
    """the enumerated part of the C19 space: every pool value x every applicable action on its
    deepest mutable target (+ one read) x both workers; every file task x {append, rewrite, read}
    x both workers.  `full=False` (quick tier) keeps, under the process-pool worker only, the
    first action + the read per value (a pool start/stop costs ~1 s); debug stays complete."""
    cases = []
    for spec in POOL_VALUES:
        path, sub = list(mutable_targets(spec))[-1]
        acts = actions_for(sub)
        for n, action in enumerate(acts + [["read"]]):
            for worker in ("debug", "cf"):
                if worker == "cf" and not full and 0 < n < len(acts):
                    continue
                cases.append(dict(task="mutator", value=spec, prog=[path, action], worker=worker))
    for task in FILE_TASKS:
        acts = [["file_append", "5a5a"], ["file_rewrite", "6e6577"], ["read"]]
        if task.startswith("sh_"):
            acts = [["file_append", "5a5a"], ["read"]]
        for action in acts:
            for worker in ("debug", "cf"):
                cases.append(dict(task=task, value=["file", "in.txt", "68656c6c6f"],
                                  prog=[[], action], worker=worker))
    # two file fields on one task: declared modes x {two files, the SAME file for both fields} x
    # field whose file the body works on x action x worker
    for task in TWO_FILE_TASKS:
        acts = [["file_append", "5a5a"], ["file_rewrite", "6e6577"], ["read"]]
        if task.startswith("sh_"):
            acts = [["file_append", "5a5a"], ["read"]]
        # shell: not copy+copy - two staged copies of equally named files are renamed apart
        # ("in (1).txt") and a blank in a shell argument runs into the known finding F-C23-1
        for modes in (TWO_MODES[:2] if task.startswith("sh_") else TWO_MODES):
            for same in (True, False):
                for write in (0, 1):
                    for n, action in enumerate(acts):
                        for worker in ("debug", "cf"):
                            if worker == "cf" and not full and (n > 0 or not same):
                                continue
                            cases.append(dict(task=task, modes=modes, same=same, write=write,
                                              value=["file", "in.txt", "68656c6c6f"],
                                              prog=[[], action], worker=worker))
    return cases
