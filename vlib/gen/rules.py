"""Generator for C31: task definitions with requires / xor rules (spec format: vlib/ref/rules.py)."""
from __future__ import annotations

from hypothesis import strategies as st

KIND_POOL = ["bool", "bool", "bool", "optstr", "optstr", "optstr", "optbool", "optbool", "str", "mbool"]


@st.composite
def definitions(draw, max_fields=5):
    n = draw(st.integers(2, max_fields))
    names = [f"f{i}" for i in range(n)]
    kinds = [draw(st.sampled_from(KIND_POOL)) for _ in names]
    # at most two mandatory fields (keeps the assignment space interesting)
    seen = 0
    for i, k in enumerate(kinds):
        if k in ("str", "mbool"):
            seen += 1
            if seen > 2:
                kinds[i] = "optstr" if k == "str" else "bool"
    kind = dict(zip(names, kinds))
    fields = []
    for nm in names:
        reqs = []
        if draw(st.integers(0, 9)) < 5:
            others = [o for o in names if o != nm]
            for _ in range(draw(st.sampled_from([1, 1, 2]))):
                k = draw(st.integers(1, min(2, len(others))))
                targets = draw(st.permutations(others))[:k]
                rs = []
                for t in targets:
                    allowed = None
                    if kind[t] in ("optstr", "str") and draw(st.integers(0, 9)) < 4:
                        allowed = draw(st.sampled_from([["a"], ["b"], ["a", "b"]]))
                    elif kind[t] in ("bool", "optbool", "mbool") and draw(st.integers(0, 9)) < 1:
                        allowed = [True]
                    rs.append([t, allowed])
                reqs.append(rs)
        fields.append(dict(name=nm, kind=kind[nm], requires=reqs))
    xor = []
    for _ in range(draw(st.sampled_from([0, 0, 1, 1, 1, 2]))):
        k = draw(st.integers(2, min(3, n)))
        grp = list(draw(st.permutations(names))[:k])
        if draw(st.booleans()):
            grp.append(None)
        if sorted(map(str, grp)) not in [sorted(map(str, g)) for g in xor]:
            xor.append(grp)
    return dict(fields=fields, xor=xor)
