"""Scenario generators for C28 (JSON specs; `@S@` in option values = per-case scratch directory)."""
from __future__ import annotations

import itertools

from hypothesis import strategies as st

from vlib.ref.sched28 import ENDS, REQUEUE, UNCLASSIFIED

FINAL = ("completed", "failed", "oom")

SLURM_SPELL = {
    "name": [["-J", "V"], ["--job-name=V"], ["--job-name", "V"], ["-JV"]],
    "output": [["-o", "V"], ["--output=V"], ["--output", "V"], ["-oV"]],
    "error": [["-e", "V"], ["--error=V"], ["--error", "V"], ["-eV"]],
}
SGE_SPELL = {"name": [["-N", "V"]], "output": [["-o", "V"]], "error": [["-e", "V"]]}
VALUES = {
    "name": ["myjob", "a.b-c_1", "J", "x-o"],
    "output": ["@S@/out-%j.txt", "@S@/logs/o.txt", "@S@/o"],
    "error": ["@S@/err-%j.txt", "@S@/logs/e.txt", "@S@/e"],
}
SLURM_OTHER = [["-N1"], ["-N", "1"], ["--mem=100M"], ["-p", "debug"], ["--time=10"], ["--export=ALL"],
               ["-n", "1"], ["--requeue"], ["-c", "2"], ["--qos=low"]]
# values that end in "-o" / "-e" / "-J": a look-behind for "-o " also matches after them
SLURM_TRICKY = [["-p", "big-o"], ["-C", "intel-e"], ["-A", "proj-J"]]
SGE_OTHER = [["-q", "all.q"], ["-l", "h_rt=00:10:00"], ["-pe", "smp", "2"], ["-l", "mem_free=2G"],
             ["-P", "proj"], ["-cwd"], ["-V"]]
SGE_TRICKY = [["-q", "big-o"], ["-P", "proj-N"]]


def _spell(tmpl, value):
    out = []
    for t in tmpl:
        if t == "V":
            out.append(value)
        elif t.endswith("V"):
            out.append(t[:-1] + value)
        else:
            out.append(t)
    return out


def attempt(end, payload="ok", pre=(), linger=0, lag=(), **kw):
    d = dict(pre=list(pre), linger=linger, lag=list(lag), end=end, payload=payload)
    d.update(kw)
    return d


# --------------------------------------------------------------------------- exhaustive parts
def verdict_space(kind, max_len):
    """all end sequences up to max_len (last one final) x payload of the last attempt x level"""
    nonfinal = [e for e in ENDS[kind] if e in REQUEUE + UNCLASSIFIED[kind]]
    for n in range(1, max_len + 1):
        for head in itertools.product(nonfinal, repeat=n - 1):
            for last in FINAL:
                for payload in ("ok", "raise", "none"):
                    for level in ("task", "wf"):
                        atts = [attempt(e, "none", pre=["PENDING"]) for e in head]
                        atts.append(attempt(last, payload, pre=["PENDING", "RUNNING"]))
                        case = dict(worker=kind, level=level, exec="inproc", args=[], attempts=atts)
                        if kind == "sge":
                            case["sge"] = dict(poll_for_result_file=(len(head) + len(payload)) % 2 == 0,
                                               polls_before_checking_evicted=2)
                        yield case


def special_space(kind):
    """hand-picked sequences the random part reaches only rarely: a payload killed in mid-run
    (stale lock + info file) before a requeue, sacct's truncated `CANCELLED+`, signal exit codes"""
    sge = dict(poll_for_result_file=True, polls_before_checking_evicted=2)
    for level in ("task", "wf"):
        for end in ("cancelled", "timeout", "preempted"):
            case = dict(worker=kind, level=level, exec="sh", args=[],
                        attempts=[attempt(end, "killed", pre=["RUNNING"]),
                                  attempt("completed", "ok", pre=["PENDING"])])
            if kind == "sge":
                case["sge"] = dict(sge)
            yield case
        if kind == "slurm":
            for first in (attempt("cancelled", "none", fmt="plus", code="0:15"),
                          attempt("timeout", "none", code="0:1", linger=1),
                          attempt("preempted", "none", lag=["RUNNING"])):
                yield dict(worker=kind, level=level, exec="inproc", args=[], gone="invalid_id",
                           attempts=[first, attempt("completed", "ok", pre=["PENDING", "RUNNING"])])
            for last in (attempt("failed", "raise", code="0:9"), attempt("failed", "early_fail"),
                         attempt("failed", "prologue_fail"),
                         attempt("failed", "raise", code="127:0", lag=["RUNNING", "PENDING"])):
                yield dict(worker=kind, level=level, exec="inproc", args=[], attempts=[last])


def option_space(kind):
    """every combination absent/spelling for name x output x error, one successful attempt"""
    spellings = SLURM_SPELL if kind == "slurm" else SGE_SPELL
    choices = {c: [None] + spellings[c] for c in ("name", "output", "error")}
    vias = ["sbatch_args"] if kind == "slurm" else ["qsub_args", "default_qsub_args"]
    for via in vias:
        for n, o, e in itertools.product(choices["name"], choices["output"], choices["error"]):
            args = []
            for cls, tmpl in (("name", n), ("output", o), ("error", e)):
                if tmpl is not None:
                    args += _spell(tmpl, VALUES[cls][0])
            ends = [("completed", "ok")]
            if e is not None and n is None and o is None:
                ends.append(("failed", "raise"))  # the worker reads the error file on failure
            for end, payload in ends:
                case = dict(worker=kind, level="task", exec="inproc", args=args, args_via=via,
                            attempts=[attempt(end, payload, pre=["RUNNING"])])
                if kind == "sge":
                    case["sge"] = dict(poll_for_result_file=True, polls_before_checking_evicted=2)
                yield case


# --------------------------------------------------------------------------- random scenarios
def _one_in(n):
    """True with probability 1/n (sampled_from is uniform; integers() favours its bounds)"""
    return st.sampled_from([True] + [False] * (n - 1))


def _weighted(pairs):
    return st.sampled_from([v for v, w in pairs for _ in range(w)])


@st.composite
def args_strategy(draw, kind):
    spellings = SLURM_SPELL if kind == "slurm" else SGE_SPELL
    blocks = []
    for cls in ("name", "output", "error"):
        if draw(_weighted([(True, 4), (False, 6)])):
            # the `-o V` / `--output=V` forms are the documented ones: most of the weight
            tmpls = spellings[cls]
            k = draw(st.sampled_from([0, 0, 0, 1, 1, 1, 2, 3])) % len(tmpls)
            blocks.append(_spell(tmpls[k], draw(st.sampled_from(VALUES[cls]))))
    other = SLURM_OTHER if kind == "slurm" else SGE_OTHER
    tricky = SLURM_TRICKY if kind == "slurm" else SGE_TRICKY
    for _ in range(draw(st.sampled_from([0, 0, 1, 1, 2]))):
        blocks.append(draw(st.sampled_from(other)))
    if draw(_one_in(20)):
        blocks.append(draw(st.sampled_from(tricky)))
    if kind == "slurm" and draw(_one_in(30)):
        blocks.append(["--no-requeue"])
    blocks = draw(st.permutations(blocks))
    return [t for b in blocks for t in b]


@st.composite
def attempt_strategy(draw, kind, final, sh):
    ends = FINAL if final else [e for e in ENDS[kind] if e not in FINAL]
    end = draw(st.sampled_from(ends))
    payloads = ["ok", "raise", "none", "early_fail", "prologue_fail"] + (["killed"] if sh and not final else [])
    # coherent combinations get most of the weight, the incoherent ones are the "faults"
    natural = {"completed": "ok", "failed": "raise", "oom": "none"}.get(end, "none")
    payload = natural if draw(st.booleans()) else draw(st.sampled_from(payloads))
    if sh and not final and draw(st.booleans()):
        payload = "killed"
    a = attempt(
        end, payload,
        pre=draw(st.lists(st.sampled_from(["PENDING", "RUNNING"]), max_size=3)),
        linger=draw(st.sampled_from([0, 0, 1, 2])),
        lag=draw(st.lists(st.sampled_from(["RUNNING", "PENDING", "missing"]), min_size=1, max_size=2))
        if draw(_one_in(4)) else [],
    )
    if kind == "slurm":
        if end == "cancelled" and draw(st.booleans()):
            a["fmt"] = "plus"
        codes = {"failed": ["1:0", "0:9", "127:0", "2:0"], "cancelled": ["0:0", "0:15"],
                 "timeout": ["0:0", "0:1"], "preempted": ["0:0"], "node_fail": ["0:0", "1:0"],
                 "oom": ["0:125"], "completed": ["0:0"]}[end]
        a["code"] = draw(st.sampled_from(codes))
    return a


@st.composite
def scenario(draw, kind):
    sh = draw(_one_in(12))
    n = draw(st.sampled_from([1, 1, 2, 2, 2, 3, 4]))
    atts = [draw(attempt_strategy(kind, False, sh)) for _ in range(n - 1)]
    atts.append(draw(attempt_strategy(kind, True, sh)))
    case = dict(worker=kind, level=draw(st.sampled_from(["task", "task", "wf"])),
                exec="sh" if sh else "inproc", args=draw(args_strategy(kind)), attempts=atts)
    if kind == "slurm":
        case["gone"] = draw(st.sampled_from(["empty", "invalid_id"]))
    else:
        case["args_via"] = draw(st.sampled_from(["qsub_args", "qsub_args", "default_qsub_args"]))
        case["sge"] = dict(poll_for_result_file=draw(st.booleans()),
                           polls_before_checking_evicted=draw(st.sampled_from([1, 2, 5, 60])))
    if draw(_one_in(40)):
        case["submit_rc"] = 1
    return case
