"""Generator and pydra builder for workflow programs (spec format: vlib/ref/workflow.py)."""
from __future__ import annotations

import hashlib
import json
from pathlib import Path

from hypothesis import strategies as st

from vlib.ref import splitter as S
from vlib.ref import workflow as RW

TASKS = {"T1": "WT1", "T2": "WT2", "T3": "WT3", "L": "WL", "LE": "WLE", "Sub1": "WSub1", "Sub2": "WSub2"}


# ---------------------------------------------------------------------- rendering
def _lit(v):
    return repr(v)


def render(prog, clsname=None):
    """-> (python source defining a workflow class, class name)"""
    h = hashlib.sha1(json.dumps(prog, sort_keys=True).encode()).hexdigest()[:10]
    clsname = clsname or f"Wf_{h}"
    params = list(prog["inputs"])
    outs = [f"o{i}" for i in range(len(prog["outs"]))]
    lines = [
        "import typing as ty",
        "from pydra.compose import workflow",
        "from vlib.tasks import WT1, WT2, WT3, WL, WLE, WSub1, WSub2",
        "",
        f"@workflow.define(outputs={outs!r})",
        f"def {clsname}({', '.join(f'{p}: ty.Any' for p in params)}):",
    ]
    for nd in prog["nodes"]:
        kw, spl = [], []
        for f in RW.FIELDS[nd["kind"]]:
            s = nd["in"][f]
            if s[0] == "const":
                kw.append(f"{f}={_lit(s[1])}")
            elif s[0] == "wfin":
                kw.append(f"{f}={s[1]}")
            elif s[0] == "node":
                kw.append(f"{f}={s[1]}.out")
            elif s[0] == "split":
                spl.append(f"{f}={s[1]}")
            elif s[0] == "splitnode":
                spl.append(f"{f}={s[1]}.out")
        expr = f"{TASKS[nd['kind']]}({', '.join(kw)})"
        if spl:
            tree = nd.get("split")
            if tree is None or S.is_leaf(tree):
                expr += f".split({', '.join(spl)})"
            else:
                expr += f".split({S.to_py(tree)!r}, {', '.join(spl)})"
        if nd.get("combine"):
            expr += f".combine({list(nd['combine'])!r})"
        lines.append(f"    {nd['name']} = workflow.add({expr}, name={nd['name']!r})")
    rets = ", ".join(f"{o}.out" for o in prog["outs"])
    lines.append(f"    return {rets}")
    return "\n".join(lines) + "\n", clsname


_counter = [0]


def build(prog, scratch):
    """-> instantiated pydra workflow task for the program"""
    src, clsname = render(prog)
    _counter[0] += 1
    Path(scratch).mkdir(parents=True, exist_ok=True)
    path = Path(scratch) / f"wf_{_counter[0]}.py"
    path.write_text(src)
    ns = {"__name__": f"verif_dyn_wf_{_counter[0]}"}
    exec(compile(src, str(path), "exec"), ns)
    W = ns[clsname]
    ws = prog.get("wf_split")
    if ws:
        kw = {k: v for k, v in prog["inputs"].items() if k != ws["input"]}
        t = W(**kw).split(**{ws["input"]: ws["values"]})
        if ws.get("combine"):
            t = t.combine(ws["input"])
        return t
    return W(**prog["inputs"])


def outputs_of(prog, outs):
    """normalise pydra outputs to plain nested lists, one entry per workflow output"""
    def plain(x):
        if isinstance(x, (list, tuple)):
            return [plain(i) for i in x]
        return x

    n = len(prog["outs"])
    if prog.get("wf_split"):
        if isinstance(outs, (list, tuple)):  # uncombined: list of Outputs objects
            return [[plain(getattr(o, f"o{i}")) for o in outs] for i in range(n)]
        return [plain(getattr(outs, f"o{i}")) for i in range(n)]
    return [plain(getattr(outs, f"o{i}")) for i in range(n)]


# ---------------------------------------------------------------------- generation
@st.composite
def programs(draw, max_nodes=5, allow_inner=True, allow_nested=True, allow_combine=True,
             allow_wf_split=True, avoid=()):
    """`avoid`: shape labels the generator steers away from (known-finding regions)"""
    n = draw(st.integers(1, max_nodes))
    inputs = {}
    nodes = []
    kinds = ["T1", "T2", "T2", "T3"]
    if allow_inner:
        kinds += ["L", "L", "LE"]
    if allow_nested:
        kinds += ["Sub1", "Sub2"]
    stateless_head = draw(st.integers(0, 2)) == 0  # start with 1-2 nodes that have no state
    for i in range(n):
        kind = draw(st.sampled_from(kinds))
        fields = RW.FIELDS[kind]
        name = f"n{i}"
        src = {}
        lists_up = [m["name"] for m in nodes if m["kind"] in ("L", "LE")]
        for f in fields:
            choice = draw(st.integers(0, 9))
            if nodes and choice <= 4:
                src[f] = ["node", draw(st.sampled_from([m["name"] for m in nodes]))]
            elif choice == 5 or (not nodes and choice <= 1) or (stateless_head and i < 2 and choice >= 7):
                src[f] = ["const", f"k{i}{f}"]
            elif choice == 6:
                nm = f"s{len(inputs)}"
                inputs[nm] = f"{nm}v"
                src[f] = ["wfin", nm]
            elif allow_inner and lists_up and choice in (7, 8) and not any(
                    s[0] == "splitnode" for s in src.values()):
                src[f] = ["splitnode", draw(st.sampled_from(lists_up))]
            else:
                nm = f"x{len(inputs)}"
                inputs[nm] = [f"{nm}_{j}" for j in range(draw(st.integers(1, 3)))]
                src[f] = ["split", nm]
        sf = [f for f in fields if src[f][0] == "split"]
        split = None
        if any(s[0] == "splitnode" for s in src.values()):
            # keep one inner split field alone: turn other split fields into whole-list inputs
            for f in sf:
                src[f] = ["wfin", src[f][1]]
            split = [f for f in fields if src[f][0] == "splitnode"][0]
        elif len(sf) >= 2:
            op = draw(st.sampled_from("OOI"))
            order = list(draw(st.permutations(sf)))
            if len(order) == 3 and draw(st.booleans()):
                # nested: one operator over a pair and the third field
                op2 = draw(st.sampled_from("OI"))
                split = [op, [[op2, order[:2]], order[2]]]
            else:
                split = [op, order]
            # make the lengths agree below inner nodes rather than discarding the case
            la = len(inputs[src[order[0]][1]])

            def equalise(t, under_inner):
                if S.is_leaf(t):
                    if under_inner:
                        nm = src[t][1]
                        inputs[nm] = [f"{nm}_{j}" for j in range(la)]
                    return
                for k in t[1]:
                    equalise(k, under_inner or t[0] == "I")

            equalise(split, False)
        elif len(sf) == 1:
            split = sf[0]
        nd = dict(name=name, kind=kind, split=split, combine=None)
        nd["in"] = src
        nodes.append(nd)
        if allow_combine and draw(st.integers(0, 9)) <= 1 + 2 * (split is not None):
            partial = dict(inputs=inputs, nodes=nodes, outs=[name])
            try:
                _, res = RW.evaluate(partial)
                axes = res[name]["axes"]
            except RW.Undefined:
                axes = []
            if axes:
                chosen = draw(st.lists(st.sampled_from(axes), min_size=1, max_size=len(axes), unique=True))
                names = []
                for ax in chosen:
                    node, fs = ax.split(".", 1)
                    f = draw(st.sampled_from(fs.split("+")))
                    names.append(f if node == name else f"{node}.{f}")
                nd["combine"] = names
    # outputs: the last node plus possibly another one
    outs = [nodes[-1]["name"]]
    if len(nodes) > 1 and draw(st.integers(0, 2)) == 0:
        outs.append(draw(st.sampled_from([m["name"] for m in nodes[:-1]])))
    prog = dict(inputs=inputs, nodes=nodes, outs=outs, wf_split=None)
    scalars = [k for k, v in inputs.items() if isinstance(v, str)]
    if allow_wf_split and scalars and draw(st.integers(0, 5)) == 0:
        k = draw(st.sampled_from(scalars))
        prog["wf_split"] = dict(input=k, values=[f"{k}w{j}" for j in range(draw(st.integers(1, 3)))],
                                combine=draw(st.booleans()))
    return prog


# ---------------------------------------------------------------------- shape templates
def _lst(name, n):
    return [f"{name}_{j}" for j in range(n)]


@st.composite
def template_programs(draw, allow_inner=True, allow_nested=True, allow_combine=True, shapes=None):
    """Programs built around a named interaction shape (joins of stateless/stateful inputs,
    diamonds, own+upstream combiners, inner-split chains), with randomised lengths, kinds,
    combiners and an optional trailing consumer.  Free random graphs rarely produce these."""
    shape = draw(st.sampled_from(shapes or [
        "stateless_pair_own_split", "stateless_pair_inherited", "fan_in_independent", "diamond",
        "shared_direct", "own_plus_upstream_combine", "combine_then_consume", "inner_chain",
        "three_way_join", "two_upstreams_own_split_combine", "split_consumer_and_independent_chain"]))
    L = lambda: draw(st.integers(1, 3))  # noqa: E731
    inputs, nodes = {}, []

    def node(kind, src, split=None, combine=None):
        nd = dict(name=f"n{len(nodes)}", kind=kind, split=split, combine=combine)
        nd["in"] = src
        nodes.append(nd)
        return nd["name"]

    def lst(n=None):
        nm = f"x{len(inputs)}"
        inputs[nm] = _lst(nm, n or L())
        return nm

    one = draw(st.sampled_from(["T1", "Sub1"] if allow_nested else ["T1"]))
    if shape == "stateless_pair_own_split":
        a = node("T1", {"a": ["const", "ka"]})
        b = node(one, {"a": ["const", "kb"]})
        order = draw(st.permutations(["a", "b", "c"]))
        src = {order[0]: ["node", a], order[1]: ["node", b], order[2]: ["split", lst()]}
        node("T3", src, split=order[2])
    elif shape == "stateless_pair_inherited":
        a = node("T1", {"a": ["const", "ka"]})
        b = node("T1", {"a": ["const", "kb"]})
        s = node(one, {"a": ["split", lst()]}, split="a")
        order = draw(st.permutations([a, s, b]))
        node("T3", {"a": ["node", order[0]], "b": ["node", order[1]], "c": ["node", order[2]]})
    elif shape == "fan_in_independent":
        a = node("T1", {"a": ["split", lst()]}, split="a")
        b = node(one, {"a": ["split", lst()]}, split="a")
        comb = None
        if allow_combine:
            comb = draw(st.sampled_from([None, [f"{a}.a"], [f"{b}.a"], [f"{a}.a", f"{b}.a"]]))
        node("T2", {"a": ["node", a], "b": ["node", b]}, combine=comb)
    elif shape == "diamond":
        a = node("T1", {"a": ["split", lst()]}, split="a")
        b = node("T1", {"a": ["node", a]})
        c = node(one, {"a": ["node", a]})
        node("T2", {"a": ["node", b], "b": ["node", c]})
    elif shape == "shared_direct":
        a = node("T1", {"a": ["split", lst()]}, split="a")
        b = node(one, {"a": ["node", a]})
        pair = draw(st.permutations([a, b]))
        node("T2", {"a": ["node", pair[0]], "b": ["node", pair[1]]})
    elif shape == "own_plus_upstream_combine":
        two = draw(st.booleans())
        if two:
            a = node("T2", {"a": ["split", lst()], "b": ["split", lst()]}, split=["O", ["a", "b"]])
            up_axes = [f"{a}.a", f"{a}.b"]
        else:
            a = node("T1", {"a": ["split", lst()]}, split="a")
            up_axes = [f"{a}.a"]
        axes = up_axes + ["b"]
        comb = draw(st.lists(st.sampled_from(axes), min_size=1, max_size=len(axes), unique=True)) \
            if allow_combine else None
        node("T2", {"a": ["node", a], "b": ["split", lst()]}, split="b", combine=comb)
    elif shape == "combine_then_consume":
        a = node("T2", {"a": ["split", lst()], "b": ["split", lst()]},
                 split=[draw(st.sampled_from("OO")), ["a", "b"]])
        comb = draw(st.sampled_from([[f"{a}.a"], [f"{a}.b"], [f"{a}.a", f"{a}.b"]])) if allow_combine else None
        b = node("T1", {"a": ["node", a]}, combine=comb)
        node(one, {"a": ["node", b]})
    elif shape == "inner_chain" and allow_inner:
        a = node("T1", {"a": ["split", lst()]}, split="a")
        b = node(draw(st.sampled_from(["L", "LE"])), {"a": ["node", a]})
        c = node("T1", {"a": ["splitnode", b]}, split="a",
                 combine=draw(st.sampled_from([None, ["a"], [f"{a}.a"], ["a", f"{a}.a"]])) if allow_combine else None)
        node("T1", {"a": ["node", c]})
    elif shape == "two_upstreams_own_split_combine":
        a = node("T1", {"a": ["split", lst()]}, split="a")
        b = node(one, {"a": ["split", lst()]}, split="a")
        axes = ["c", f"{a}.a", f"{b}.a"]
        comb = draw(st.lists(st.sampled_from(axes), min_size=1, max_size=3, unique=True)) \
            if allow_combine else None
        order = draw(st.permutations(["a", "b", "c"]))
        node("T3", {order[0]: ["node", a], order[1]: ["node", b], order[2]: ["split", lst()]},
             split=order[2], combine=[order[2] if x == "c" else x for x in comb] if comb else None)
    elif shape == "split_consumer_and_independent_chain":
        a = node("T1", {"a": ["split", lst(draw(st.integers(2, 3)))]}, split="a")
        node("T1", {"a": ["node", a]})
        c = node("T1", {"a": ["const", "kc"]})
        for _ in range(draw(st.integers(1, 3))):
            c = node("T1", {"a": ["node", c]})
    else:  # three_way_join
        a = node("T1", {"a": ["split", lst()]}, split="a")
        b = node("T1", {"a": ["const", "kb"]})
        c = node(one, {"a": ["split", lst()]}, split="a")
        order = draw(st.permutations([a, b, c]))
        node("T3", {"a": ["node", order[0]], "b": ["node", order[1]], "c": ["node", order[2]]})
    if draw(st.booleans()):  # trailing consumer of the last node
        node("T1", {"a": ["node", nodes[-1]["name"]]})
    outs = [nodes[-1]["name"]]
    if draw(st.integers(0, 2)) == 0:
        outs.append(draw(st.sampled_from([m["name"] for m in nodes[:-1]])))
    return dict(inputs=inputs, nodes=nodes, outs=outs, wf_split=None)


def mixed_programs(**kw):
    """half free random graphs, half shape templates"""
    tkw = {k: v for k, v in kw.items() if k in ("allow_inner", "allow_nested", "allow_combine")}
    return st.one_of(programs(**kw), template_programs(**tkw))
