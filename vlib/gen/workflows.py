"""Generator and pydra builder for workflow programs (spec format: vlib/ref/workflow.py)."""
from __future__ import annotations

import hashlib
import json
from pathlib import Path

from hypothesis import strategies as st

from vlib.ref import splitter as S
from vlib.ref import workflow as RW

TASKS = {"T1": "WT1", "T2": "WT2", "L": "WL", "Sub1": "WSub1", "Sub2": "WSub2"}


# ---------------------------------------------------------------------- rendering
def _lit(v):
    return repr(v)


def render(prog, clsname=None):
    """-> (python source defining a workflow class, class name)"""
    h = hashlib.sha1(json.dumps(prog, sort_keys=True).encode()).hexdigest()[:10]
    clsname = clsname or f"Wf_{h}"
    params = list(prog["inputs"])
    outs = [f"o{i}" for i in range(len(prog["outs"]))]
    lines = [
        "import typing as ty",
        "from pydra.compose import workflow",
        "from vlib.tasks import WT1, WT2, WL, WSub1, WSub2",
        "",
        f"@workflow.define(outputs={outs!r})",
        f"def {clsname}({', '.join(f'{p}: ty.Any' for p in params)}):",
    ]
    for nd in prog["nodes"]:
        kw, spl = [], []
        for f in RW.FIELDS[nd["kind"]]:
            s = nd["in"][f]
            if s[0] == "const":
                kw.append(f"{f}={_lit(s[1])}")
            elif s[0] == "wfin":
                kw.append(f"{f}={s[1]}")
            elif s[0] == "node":
                kw.append(f"{f}={s[1]}.out")
            elif s[0] == "split":
                spl.append(f"{f}={s[1]}")
            elif s[0] == "splitnode":
                spl.append(f"{f}={s[1]}.out")
        expr = f"{TASKS[nd['kind']]}({', '.join(kw)})"
        if spl:
            tree = nd.get("split")
            if tree is None or S.is_leaf(tree):
                expr += f".split({', '.join(spl)})"
            else:
                expr += f".split({S.to_py(tree)!r}, {', '.join(spl)})"
        if nd.get("combine"):
            expr += f".combine({list(nd['combine'])!r})"
        lines.append(f"    {nd['name']} = workflow.add({expr}, name={nd['name']!r})")
    rets = ", ".join(f"{o}.out" for o in prog["outs"])
    lines.append(f"    return {rets}")
    return "\n".join(lines) + "\n", clsname


_counter = [0]


def build(prog, scratch):
    """-> instantiated pydra workflow task for the program"""
    src, clsname = render(prog)
    _counter[0] += 1
    Path(scratch).mkdir(parents=True, exist_ok=True)
    path = Path(scratch) / f"wf_{_counter[0]}.py"
    path.write_text(src)
    ns = {"__name__": f"verif_dyn_wf_{_counter[0]}"}
    exec(compile(src, str(path), "exec"), ns)
    W = ns[clsname]
    ws = prog.get("wf_split")
    if ws:
        kw = {k: v for k, v in prog["inputs"].items() if k != ws["input"]}
        t = W(**kw).split(**{ws["input"]: ws["values"]})
        if ws.get("combine"):
            t = t.combine(ws["input"])
        return t
    return W(**prog["inputs"])


def outputs_of(prog, outs):
    """normalise pydra outputs to plain nested lists, one entry per workflow output"""
    def plain(x):
        if isinstance(x, (list, tuple)):
            return [plain(i) for i in x]
        return x

    n = len(prog["outs"])
    if prog.get("wf_split"):
        if isinstance(outs, (list, tuple)):  # uncombined: list of Outputs objects
            return [[plain(getattr(o, f"o{i}")) for o in outs] for i in range(n)]
        return [plain(getattr(outs, f"o{i}")) for i in range(n)]
    return [plain(getattr(outs, f"o{i}")) for i in range(n)]


# ---------------------------------------------------------------------- generation
@st.composite
def programs(draw, max_nodes=5, allow_inner=True, allow_nested=True, allow_combine=True,
             allow_wf_split=True, avoid=()):
    """`avoid`: shape labels the generator steers away from (known-finding regions)"""
    n = draw(st.integers(1, max_nodes))
    inputs = {}
    nodes = []
    kinds = ["T1", "T2", "T2"]
    if allow_inner:
        kinds.append("L")
    if allow_nested:
        kinds += ["Sub1", "Sub2"]
    for i in range(n):
        kind = draw(st.sampled_from(kinds))
        fields = RW.FIELDS[kind]
        name = f"n{i}"
        src = {}
        lists_up = [m["name"] for m in nodes if m["kind"] == "L"]
        for f in fields:
            choice = draw(st.integers(0, 9))
            if nodes and choice <= 4:
                src[f] = ["node", draw(st.sampled_from([m["name"] for m in nodes]))]
            elif choice <= 5:
                src[f] = ["const", f"k{i}{f}"]
            elif choice <= 6:
                nm = f"s{len(inputs)}"
                inputs[nm] = f"{nm}v"
                src[f] = ["wfin", nm]
            elif allow_inner and lists_up and choice == 7 and not any(
                    s[0] == "splitnode" for s in src.values()):
                src[f] = ["splitnode", draw(st.sampled_from(lists_up))]
            else:
                nm = f"x{len(inputs)}"
                inputs[nm] = [f"{nm}_{j}" for j in range(draw(st.integers(1, 3)))]
                src[f] = ["split", nm]
        sf = [f for f in fields if src[f][0] == "split"]
        split = None
        if any(s[0] == "splitnode" for s in src.values()):
            # keep one inner split field alone: turn other split fields into whole-list inputs
            for f in sf:
                src[f] = ["wfin", src[f][1]]
            split = [f for f in fields if src[f][0] == "splitnode"][0]
        elif len(sf) == 2:
            la, lb = len(inputs[src[sf[0]][1]]), len(inputs[src[sf[1]][1]])
            op = draw(st.sampled_from("OOI"))
            if op == "I" and la != lb:
                # make the lengths agree rather than discarding the case
                inputs[src[sf[1]][1]] = [f"{src[sf[1]][1]}_{j}" for j in range(la)]
            order = sf if draw(st.booleans()) else sf[::-1]
            split = [op, order]
        elif len(sf) == 1:
            split = sf[0]
        nd = dict(name=name, kind=kind, split=split, combine=None)
        nd["in"] = src
        nodes.append(nd)
        if allow_combine and draw(st.integers(0, 3)) == 0:
            partial = dict(inputs=inputs, nodes=nodes, outs=[name])
            try:
                _, res = RW.evaluate(partial)
                axes = res[name]["axes"]
            except RW.Undefined:
                axes = []
            if axes:
                chosen = draw(st.lists(st.sampled_from(axes), min_size=1, max_size=len(axes), unique=True))
                names = []
                for ax in chosen:
                    node, fs = ax.split(".", 1)
                    f = draw(st.sampled_from(fs.split("+")))
                    names.append(f if node == name else f"{node}.{f}")
                nd["combine"] = names
    # outputs: the last node plus possibly another one
    outs = [nodes[-1]["name"]]
    if len(nodes) > 1 and draw(st.integers(0, 2)) == 0:
        outs.append(draw(st.sampled_from([m["name"] for m in nodes[:-1]])))
    prog = dict(inputs=inputs, nodes=nodes, outs=outs, wf_split=None)
    scalars = [k for k, v in inputs.items() if isinstance(v, str)]
    if allow_wf_split and scalars and draw(st.integers(0, 5)) == 0:
        k = draw(st.sampled_from(scalars))
        prog["wf_split"] = dict(input=k, values=[f"{k}w{j}" for j in range(draw(st.integers(1, 3)))],
                                combine=draw(st.booleans()))
    return prog
