"""Generators for C25 (command-line templates, built by construction from the documented token
forms) and C26 (output path templates).  All specs are JSON-able; see vlib/ref/shelltmpl.py."""
from __future__ import annotations

import itertools

from hypothesis import strategies as st

from vlib.ref import shelltmpl as R

# --------------------------------------------------------------------------- alphabets
EXES = [["cmd"], ["my-tool"], ["tool2"], ["a.out"], ["git", "commit"], ["x", "y", "z"], ["Run_It"]]
FIELD_NAMES = ["a", "b", "x", "y", "in_file", "out_file", "inFile", "n", "x1", "arg2", "output",
               "outdir", "modified", "file", "int", "value", "v", "long_field_name", "o", "A", "k9"]
OPT_NAMES = ["-a", "-b", "-o", "-R", "-v", "-x", "-9", "--opt", "--output", "--int-arg",
             "--text_arg", "--x", "--long-option-name", "--Out", "--n2", "-xy", "--a-b_c"]
WORDS = ["w", "xy", "v1", "foo", "bar", "abc_d", "Q", "z9"]
SCALAR_TYPES = ["int", "float", "str"]
TUPLE_TYPES = ["int,str", "str,int", "int,int", "float,str", "str,str,int", "int,...", "str,...",
               "float,..."]
IN_FS_TYPES = [None, "file", "directory", "fs-object", "generic/file", "generic/directory",
               "text/csv", "text/tsv", "application/json", "image/png"]
OUT_FS_TYPES = [None, "file", "directory", "fs-object", "generic/file", "text/csv",
                "application/json", "image/png", "application/gzip"]
INTS = st.one_of(st.integers(1, 99), st.integers(-20, -1), st.integers(100, 10**6))
FLOATS = st.sampled_from([0.5, 1.5, 2.25, -3.75, 10.0, 1e-3, 123.456])
STRS = st.sampled_from(WORDS)
# strings a default may well contain and that are single shell words (no blanks/quotes)
SPECIAL_STRS = ["a=b", "KEY=VAL", "a$b", "a:b", "k,v", "what?", "a+", "x*", "a-b", "1.5"]


def scalar_value(t):
    return {"int": INTS, "float": FLOATS, "str": STRS}[t]


def literal_src(v, draw=None, quote="'"):
    """source text of a default as the documentation writes it (no blanks)"""
    if isinstance(v, str):
        return f"{quote}{v}{quote}"
    if isinstance(v, list):
        return "(" + ",".join(literal_src(x) for x in v) + ("," if len(v) == 1 else "") + ")"
    return repr(v)


def tuple_value(t):
    parts = t.split(",")
    if parts[-1] == "...":
        return st.lists(scalar_value(parts[0]), min_size=1, max_size=3)
    return st.tuples(*[scalar_value(p) for p in parts]).map(list)


def base_value(tok, idx=""):
    """strategy for ONE JSON value of the token's base type"""
    t = tok.get("type")
    if t is None and tok.get("opt"):
        return STRS
    if t in R.SCALARS:
        return scalar_value(t)
    if R.is_tuple_type(t):
        return tuple_value(t)
    ext = R.type_ext(t) or ""
    if R.type_is_dir(t):
        return st.just({"dir": f"{tok['name']}{idx}_d"})
    if t in (None, "fs-object", "generic/fs-object"):
        return st.sampled_from([{"file": f"{tok['name']}{idx}.dat"}, {"dir": f"{tok['name']}{idx}_d"},
                                {"file": f"{tok['name']}{idx}"}])
    if t in ("file", "generic/file"):
        return st.sampled_from([{"file": f"{tok['name']}{idx}.txt"}, {"file": f"{tok['name']}{idx}"},
                                {"file": f"{tok['name']}{idx}.tar.gz"}])
    return st.just({"file": f"{tok['name']}{idx}{ext}"})


# --------------------------------------------------------------------------- C25 tokens
FORMS = ["arg", "optarg", "flag", "out", "optout", "modify"]


@st.composite
def token(draw, name, opt, kind_form):
    """one documented form; `opt` is a fresh option name (used when the form needs one)"""
    if kind_form == "flag":
        tok = dict(kind="flag", name=name, opt=opt, type=None, mod=None)
        d = draw(st.sampled_from([None, True, False]))
        if d is not None:
            tok.update(mod="=", default=d, default_src=repr(d))
        return tok
    if kind_form == "modify":
        t = draw(st.sampled_from(["file", "image/png", "text/csv", "generic/file", "application/json"]))
        return dict(kind="modify", name=name, opt=None, type=t, mod=None)
    if kind_form in ("out", "optout"):
        t = draw(st.sampled_from(OUT_FS_TYPES if kind_form == "out" else OUT_FS_TYPES[1:] * 3 + [None]))
        tok = dict(kind="out", name=name, opt=opt if kind_form == "optout" else None, type=t, mod=None)
        m = draw(st.sampled_from([None, None, "?", "$", "$"]))
        tok["mod"] = m
        if m == "$":
            ext = R.type_ext(t)
            if ext is None and not R.type_is_dir(t):
                ext = draw(st.sampled_from(["", ".txt", ".nii.gz", ".out"]))
            tok["tmpl"] = draw(st.sampled_from(WORDS + ["zipped", "out-put", "res.v2", "run=1"])) + (ext or "")
        return tok
    # arg / optarg
    o = opt if kind_form == "optarg" else None
    tclass = draw(st.sampled_from(["scalar", "scalar", "fs", "tuple", "untyped"]))
    if tclass == "scalar":
        t = draw(st.sampled_from(SCALAR_TYPES))
    elif tclass == "tuple":
        t = draw(st.sampled_from(TUPLE_TYPES))
    elif tclass == "fs":
        t = draw(st.sampled_from(IN_FS_TYPES[1:]))
    else:
        t = None
    tok = dict(kind="arg", name=name, opt=o, type=t, mod=None)
    mods = [None, None, "?", "+", "*"]
    # defaults are documented for typed scalars/tuples and for (string) options
    if t in R.SCALARS or R.is_tuple_type(t) or (t is None and o):
        mods += ["=", "="]
    m = draw(st.sampled_from(mods))
    tok["mod"] = m
    if m == "=":
        v = draw(base_value(tok))
        if isinstance(v, str) and draw(st.integers(0, 7)) == 0:
            v = draw(st.sampled_from(SPECIAL_STRS))
        tok["default"] = v
        tok["default_src"] = literal_src(v, quote=draw(st.sampled_from(["'", '"'])))
    return tok


def add_out_refs(draw, tokens):
    """let some `$` templates reference a mandatory int/str field of the same template"""
    def referable(t):
        if t["kind"] != "arg" or t.get("mod") is not None:
            return False
        return t.get("type") in ("int", "str") or (t.get("type") is None and bool(t.get("opt")))

    refs = [t["name"] for t in tokens if referable(t)]
    if not refs:
        return
    for t in tokens:
        if t["kind"] == "out" and t.get("mod") == "$" and draw(st.integers(0, 2)) == 0:
            r = draw(st.sampled_from(refs))
            stem, dot, ext = t["tmpl"].partition(".")
            t["tmpl"] = f"{stem}_{{{r}}}{dot}{ext}"


@st.composite
def values_for(draw, tokens):
    vals = {}
    for tok in tokens:
        n, mod = tok["name"], tok.get("mod")
        if tok["kind"] == "flag":
            c = draw(st.sampled_from(["unset", True, False]))
            if c != "unset":
                vals[n] = c
        elif tok["kind"] == "out":
            c = draw(st.sampled_from(["unset", "unset", "true", "path"]))
            if c == "true":
                vals[n] = True
            elif c == "path":
                ext = R.type_ext(tok.get("type")) or ("" if R.type_is_dir(tok.get("type")) else
                                                      draw(st.sampled_from(["", ".txt", ".b.c"])))
                vals[n] = {"path": f"given_{n}{ext}"}
        elif mod in ("+", "*"):
            lo = 1 if mod == "+" else 0
            if mod == "*" and draw(st.integers(0, 3)) == 0:
                continue
            k = draw(st.integers(lo, 3))
            vals[n] = [draw(base_value(tok, idx=i)) for i in range(k)]
        elif mod in ("?", "="):
            if draw(st.booleans()):
                vals[n] = draw(base_value(tok))
        else:
            vals[n] = draw(base_value(tok))
    return vals


@st.composite
def template_case(draw, max_tokens=6):
    n = draw(st.sampled_from([0, 1, 2, 2, 3, 3, 4, 4, 5, 5, 6, 6][: 2 * max_tokens]))
    names = draw(st.permutations(FIELD_NAMES))[:n]
    opts = draw(st.permutations(OPT_NAMES))[:n]
    weights = ["arg"] * 12 + ["optarg"] * 12 + ["flag"] * 8 + ["out"] * 6 + ["optout"] * 6 + ["modify"]
    tokens = [draw(token(names[i], opts[i], draw(st.sampled_from(weights)))) for i in range(n)]
    seen = set()
    for i, t in enumerate(tokens):  # two outputs must not be told to write the same file
        if t["kind"] == "out" and t.get("mod") == "$":
            if t["tmpl"] in seen:
                t["tmpl"] = f"o{i}" + t["tmpl"]
            seen.add(t["tmpl"])
    add_out_refs(draw, tokens)
    case = dict(exe=draw(st.sampled_from(EXES)), tokens=tokens)
    case["values"] = draw(values_for(tokens))
    return case


# exhaustive single-token space (every documented form x type x modifier, canonical values)
def single_token_space():
    def canon(tok, idx=""):
        t = tok.get("type")
        if t is None and tok.get("opt"):
            return "foo"
        if t in R.SCALARS:
            return {"int": 7, "float": 2.5, "str": "foo"}[t]
        if R.is_tuple_type(t):
            parts = t.split(",")
            if parts[-1] == "...":
                return [{"int": 7, "float": 2.5, "str": "foo"}[parts[0]]] * 2
            return [{"int": 7, "float": 2.5, "str": "foo"}[p] for p in parts]
        if R.type_is_dir(t):
            return {"dir": f"x{idx}_d"}
        return {"file": f"x{idx}{R.type_ext(t) or '.dat'}"}

    out = []
    for exe in (["cmd"], ["cmd", "sub"]):
        for opt in (None, "--opt", "-o"):
            for t in [None] + SCALAR_TYPES + TUPLE_TYPES + IN_FS_TYPES[1:]:
                for mod in (None, "?", "+", "*", "="):
                    tok = dict(kind="arg", name="x", opt=opt, type=t, mod=mod)
                    if mod == "=":
                        if not (t in R.SCALARS or R.is_tuple_type(t) or (t is None and opt)):
                            continue
                        tok["default"] = canon(tok)
                        tok["default_src"] = literal_src(tok["default"])
                    for supplied in (True, False):
                        if not supplied and mod in (None, "+"):
                            continue
                        vals = {}
                        if supplied:
                            vals["x"] = ([canon(tok, 0), canon(tok, 1)] if mod in ("+", "*") else canon(tok))
                        out.append(dict(exe=exe, tokens=[tok], values=vals))
            for t in OUT_FS_TYPES:
                for mod in (None, "?", "$"):
                    tok = dict(kind="out", name="x", opt=opt, type=t, mod=mod)
                    if mod == "$":
                        tok["tmpl"] = "named" + (R.type_ext(t) or ("" if R.type_is_dir(t) else ".txt"))
                    for v in (None, True, {"path": "given" + (R.type_ext(t) or "")}):
                        out.append(dict(exe=exe, tokens=[tok], values={} if v is None else {"x": v}))
        for opt in ("-f", "--flag"):
            for d in (None, True, False):
                tok = dict(kind="flag", name="x", opt=opt, type=None, mod=None)
                if d is not None:
                    tok.update(mod="=", default=d, default_src=repr(d))
                for v in (None, True, False):
                    out.append(dict(exe=exe, tokens=[tok], values={} if v is None else {"x": v}))
        for t in ("file", "image/png", "text/csv"):
            tok = dict(kind="modify", name="x", opt=None, type=t, mod=None)
            out.append(dict(exe=exe, tokens=[tok], values={"x": canon(tok)}))
    return out


# =========================================================================== C26
STEMS = ["a", "sub-01_T1w", "x1", "Data", "out", "pre"]
EXT_CHAINS = [[], [".txt"], [".nii"], [".nii", ".gz"], [".tar", ".gz"], [".v1", ".json"], [".X"]]
DIRS = ["", "d1", "d1/deep", "with.dot", "out", "x_y/z"]
LITS = ["out", "pre", "_", "-", "res", "_x_", "v", "T"]
TEMPLATE_EXTS = ["", "", ".txt", ".nii.gz", ".json", ".out"]
HOSTILE_STR = ["..", ".", "../up", "/abs/p", "a/b", "x/../y", "./c", "a.b", "tr/"]


@st.composite
def c26_input(draw, name, kinds, allow_hostile=True):
    kind = draw(st.sampled_from(kinds))
    spec = dict(name=name, kind=kind)
    if kind == "file":
        hidden = draw(st.integers(0, 14)) == 0
        spec["value"] = dict(dir=draw(st.sampled_from(DIRS)),
                             stem=("." if hidden else "") + draw(st.sampled_from(STEMS)),
                             exts=draw(st.sampled_from(EXT_CHAINS)))
        spec["hidden"] = hidden
    elif kind == "str":
        if allow_hostile and draw(st.integers(0, 7)) == 0:
            spec["value"] = draw(st.sampled_from(HOSTILE_STR))
            spec["hostile"] = True
        else:
            spec["value"] = draw(st.sampled_from(WORDS))
    elif kind == "int":
        spec["value"] = draw(st.one_of(st.integers(0, 20), st.integers(-5, -1), st.integers(1000, 99999)))
    elif kind == "float":
        spec["value"] = draw(st.sampled_from([0.0, 0.5, 1.5, 2.25, -3.75, 10.0, 123.456]))
        spec["fmt"] = draw(st.sampled_from(["", "", ":.1f", ":.3f", ":05.2f"]))
    elif kind == "liststr":
        spec["value"] = draw(st.lists(st.sampled_from(WORDS), min_size=1, max_size=3, unique=True))
    elif kind == "listint":
        spec["value"] = draw(st.lists(st.integers(0, 30), min_size=1, max_size=3, unique=True))
    return spec


@st.composite
def c26_case(draw):
    nref = draw(st.sampled_from([0, 1, 1, 1, 2, 2, 2]))
    names = ["a", "b", "c"]
    multi = draw(st.integers(0, 5)) == 0  # MultiOutputFile output fed by a list input
    inputs = []
    have_file = False
    for i in range(nref):
        kinds = ["str", "int", "float"]
        if not have_file:
            kinds += ["file", "file", "file"]
        if multi:
            kinds = ["liststr", "listint"] if i == 0 else kinds
        spec = draw(c26_input(names[i], kinds, allow_hostile=not multi))
        have_file = have_file or spec["kind"] == "file"
        inputs.append(spec)
    if multi and nref == 0:
        multi = False
    # template: literal pieces around the references, optional own extension at the very end
    order = list(draw(st.permutations(list(range(nref)))))
    pieces = []
    lead = draw(st.sampled_from(["", "", ""] + LITS))
    if have_file and draw(st.booleans()):
        # the file reference opens the template (the classic "{in_file}_brain" shape)
        k = next(i for i, s in enumerate(inputs) if s["kind"] == "file")
        order.remove(k)
        order.insert(0, k)
        lead = ""
    pieces.append(lead)
    for j, k in enumerate(order):
        inp = inputs[k]
        pieces.append("{" + inp["name"] + inp.get("fmt", "") + "}")
        pieces.append(draw(st.sampled_from(["", "_"] + LITS)) if j == len(order) - 1
                      else draw(st.sampled_from(["_", "-", "_x_"])))
    text = "".join(pieces)
    if not text:
        text = draw(st.sampled_from(LITS[:1] + ["res"]))
    if text in ("_", "-") or nref == 0:
        text = draw(st.sampled_from(["out", "res", "T"])) + text
    template = text + draw(st.sampled_from(TEMPLATE_EXTS))
    extra = None
    if draw(st.integers(0, 3)) == 0:
        extra = draw(c26_input("u", ["str", "int", "file"] if not have_file else ["str", "int"]))
    optional = (not multi) and draw(st.integers(0, 3)) == 0
    # (a MultiOutputFile field accepts no explicit value at all: its input type is Path | bool)
    assigns = ["unset", "true"] if multi else ["unset", "true", "abs", "rel"] + (["false"] if optional else [])
    return dict(
        inputs=inputs, extra=extra, template=template,
        keep=draw(st.sampled_from([True, False, None])),  # None: rely on the documented default (True)
        multi=multi, optional=optional, assign=draw(st.sampled_from(assigns + ["unset", "true"])),
        explicit=draw(st.sampled_from(["given.txt", "deep/er/given.nii.gz", "given", "g.h.i"])),
        relocate=draw(st.sampled_from(["other", "other/deeper", "o.ther"])),
        second=draw(st.sampled_from(["none"] if multi else ["none", "none", "abs2", "true", "false"])),
    )


def product_size(*seqs):
    return len(list(itertools.product(*seqs)))
