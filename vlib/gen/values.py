"""Value grammar (DESIGN 3.3): JSON specs -> Python objects, rebuilt identically in any process.

spec forms
  ["none"] ["bool",b] ["int","<decimal>"] ["float","<hex>"] ["complex","<hex>","<hex>"]
  ["str",s] ["bytes","<hex>"] ["path",s] ["range",a,b,c] ["slice",spec,spec,spec]
  ["list",[specs]] ["tuple",[specs]] ["dict",[[kspec,vspec],...]] ["set",[specs]] ["frozenset",[specs]]
  ["attrs",cls,{name:spec}] ["obj",cls,{name:spec}] ["type",name]
  ["func",template,{"k":int,"d":int,"g":int}]
  ["ndarray",dtype,[shape],[values],order]
  ["file",name,"<hex content>"]
dict/set element order in the spec is the insertion order used when building.
"""
from __future__ import annotations

import json
import typing as ty
from pathlib import Path, PurePosixPath

import attrs
from hypothesis import strategies as st


# ----------------------------------------------------------------------- by-value classes
@attrs.define
class P:
    a: ty.Any = None
    b: ty.Any = None


@attrs.define
class Q:
    a: ty.Any = None
    b: ty.Any = None


class Plain:
    def __init__(self, **kw):
        self.__dict__.update(kw)


class Plain2:
    def __init__(self, **kw):
        self.__dict__.update(kw)


CLASSES = {"P": P, "Q": Q, "Plain": Plain, "Plain2": Plain2}

TYPES = {
    "int": int, "str": str, "float": float, "bool": bool, "bytes": bytes, "list": list,
    "dict": dict, "list[int]": list[int], "list[str]": list[str], "dict[str,int]": dict[str, int],
    "tuple[int,str]": tuple[int, str], "tuple[int,...]": tuple[int, ...],
    "Union[int,str]": ty.Union[int, str], "Optional[int]": ty.Optional[int], "Path": Path,
    "P": P, "Q": Q, "Plain": Plain, "Any": ty.Any, "list[list[int]]": list[list[int]],
}

FUNC_TEMPLATES = {
    # k is captured in a closure cell, d is a default of a non-field parameter, g a module global
    "closure": "def make(k, d):\n    def f(x, _d={d}):\n        return x + k\n    return f\n",
    "const": "def make(k, d):\n    def f(x, _d={d}):\n        return x + {kconst}\n    return f\n",
    "global": "G = {g}\ndef make(k, d):\n    def f(x, _d={d}):\n        return x + G\n    return f\n",
    # the constant sits in a leading expression statement (not a docstring) of a multi-statement body
    "stmt": "def make(k, d):\n    def f(x, _d={d}):\n        acc = []\n        acc.append({kconst})\n        return x + acc[-1]\n    return f\n",
    # a multi-line string literal whose continuation line starts in column 0
    "mls": "def make(k, d):\n    def f(x, _d={d}):\n        s = \"\"\"ab\ncd\"\"\"\n        return x + {kconst} + len(s) - 5\n    return f\n",
    "stmt1": "ACC = []\ndef make(k, d):\n    def f(x, _d={d}):\n        ACC.append({kconst})\n        return x + ACC.pop()\n    return f\n",
}

_func_counter = [0]


def build_func(template, params, scratch):
    """Writes the source to a real file so that inspect.getsource works (AST hashing path)."""
    k, d, g = params.get("k", 0), params.get("d", 0), params.get("g", 0)
    src = FUNC_TEMPLATES[template].format(d=d, kconst=k, g=g)
    if params.get("depth"):
        # the same definition written at a deeper nesting level (lines of a multi-line string
        # literal that start in column 0 stay where they are)
        lines = src.split("\n")
        out, in_str = [], False
        for ln in lines:
            out.append(ln if in_str or not ln else "    " + ln)
            if ln.count('"""') % 2:
                in_str = not in_str
        src = "if True:\n" + "\n".join(out)
    _func_counter[0] += 1
    # the file name must not influence the hash; a fresh name per build checks that too
    Path(scratch).mkdir(parents=True, exist_ok=True)
    path = Path(scratch) / f"fn_{_func_counter[0]}.py"
    path.write_text(src)
    ns: dict = {"__name__": "verif_dyn_funcs"}
    exec(compile(src, str(path), "exec"), ns)
    return ns["make"](k, d)


def build(spec, scratch=None):
    t = spec[0]
    if t == "none":
        return None
    if t == "bool":
        return bool(spec[1])
    if t == "int":
        return int(spec[1])
    if t == "float":
        return float.fromhex(spec[1]) if spec[1] not in ("nan", "inf", "-inf") else float(spec[1])
    if t == "complex":
        return complex(float.fromhex(spec[1]), float.fromhex(spec[2]))
    if t == "str":
        return spec[1]
    if t == "bytes":
        return bytes.fromhex(spec[1])
    if t == "path":
        return PurePosixPath(spec[1])
    if t == "range":
        return range(spec[1], spec[2], spec[3])
    if t == "slice":
        return slice(*(build(s, scratch) for s in spec[1:4]))
    if t == "list":
        return [build(s, scratch) for s in spec[1]]
    if t == "tuple":
        return tuple(build(s, scratch) for s in spec[1])
    if t == "dict":
        return {build(k, scratch): build(v, scratch) for k, v in spec[1]}
    if t == "set":
        out = set()
        for s in spec[1]:
            out.add(build(s, scratch))
        return out
    if t == "frozenset":
        return frozenset([build(s, scratch) for s in spec[1]])
    if t in ("attrs", "obj"):
        return CLASSES[spec[1]](**{k: build(v, scratch) for k, v in spec[2].items()})
    if t == "type":
        return TYPES[spec[1]]
    if t == "func":
        return build_func(spec[1], spec[2], scratch)
    if t == "ndarray":
        import numpy as np

        arr = np.array(spec[3], dtype=spec[1]).reshape(spec[2])
        return np.asfortranarray(arr) if spec[4] == "F" else np.ascontiguousarray(arr)
    if t == "file":
        from fileformats.generic import File

        p = Path(scratch) / spec[1]
        p.parent.mkdir(parents=True, exist_ok=True)
        content = bytes.fromhex(spec[2])
        if not p.exists() or p.read_bytes() != content:  # several sessions may share the file
            p.write_bytes(content)
        return File(p)
    raise ValueError(spec)


# ----------------------------------------------------------------------- equal content
def norm(spec):
    """canonical form: equal iff the two specs denote values with equal type and content"""
    t = spec[0]
    if t in ("list", "tuple"):
        return [t, [norm(s) for s in spec[1]]]
    if t == "dict":
        items = {}
        for k, v in spec[1]:
            items[json.dumps(norm(k), sort_keys=True)] = norm(v)  # later insertion wins, like dict
        return [t, sorted(items.items())]
    if t in ("set", "frozenset"):
        return [t, sorted({json.dumps(norm(s), sort_keys=True) for s in spec[1]})]
    if t in ("attrs", "obj"):
        return [t, spec[1], sorted((k, norm(v)) for k, v in spec[2].items())]
    if t == "slice":
        return [t] + [norm(s) for s in spec[1:4]]
    if t == "func":
        tpl, p = spec[1], spec[2]
        rel = {"closure": ("k", "d"), "const": ("k", "d"), "global": ("g", "d"), "stmt": ("k", "d"),
               "stmt1": ("k", "d"), "mls": ("k", "d")}[tpl]
        return [t, tpl, [(n, p.get(n, 0)) for n in rel]]
    if t == "ndarray":
        return [t, spec[1], list(spec[2]), list(spec[3])]  # memory order is not content
    if t == "file":
        return [t, spec[2]]  # content only (the file name/location is not content)
    if t == "path":
        from pathlib import PurePosixPath

        return [t, str(PurePosixPath(spec[1]))]  # PurePosixPath("/.") == PurePosixPath("/")
    return list(spec)


def same(a, b):
    return norm(a) == norm(b)


def has_unordered(spec, minlen=2):
    t = spec[0]
    if t in ("dict", "set", "frozenset") and len(spec[1]) >= minlen:
        return True
    if t in ("list", "tuple", "set", "frozenset"):
        return any(has_unordered(s, minlen) for s in spec[1])
    if t == "dict":
        return any(has_unordered(v, minlen) for _, v in spec[1])
    if t in ("attrs", "obj"):
        return any(has_unordered(v, minlen) for v in spec[2].values())
    return False


def kinds(spec, acc=None):
    acc = set() if acc is None else acc
    acc.add(spec[0])
    t = spec[0]
    if t in ("list", "tuple", "set", "frozenset"):
        for s in spec[1]:
            kinds(s, acc)
    elif t == "dict":
        for k, v in spec[1]:
            kinds(k, acc)
            kinds(v, acc)
    elif t in ("attrs", "obj"):
        for v in spec[2].values():
            kinds(v, acc)
    elif t == "slice":
        for s in spec[1:4]:
            kinds(s, acc)
    return acc


def reorder(spec, draw):
    """same content, different insertion orders of every dict/set (draw = hypothesis draw)"""
    t = spec[0]
    if t in ("list", "tuple"):
        return [t, [reorder(s, draw) for s in spec[1]]]
    if t == "dict":
        items = [[reorder(k, draw), reorder(v, draw)] for k, v in spec[1]]
        return [t, draw(st.permutations(items)) if len(items) > 1 else items]
    if t in ("set", "frozenset"):
        items = [reorder(s, draw) for s in spec[1]]
        return [t, draw(st.permutations(items)) if len(items) > 1 else items]
    if t in ("attrs", "obj"):
        return [t, spec[1], {k: reorder(v, draw) for k, v in spec[2].items()}]
    if t == "slice":
        return [t] + [reorder(s, draw) for s in spec[1:4]]
    if t == "func":
        # same definition at another nesting depth of its source text
        return [t, spec[1], dict(spec[2], depth=draw(st.integers(0, 1)))]
    if t == "ndarray" and len(spec[2]) >= 2:
        # same content in the other memory layout (C <-> Fortran order)
        return [t, spec[1], spec[2], spec[3], draw(st.sampled_from("CF"))]
    return spec


# ----------------------------------------------------------------------- strategies
_text = st.text(alphabet=st.sampled_from("abcxyz01 _-/.é漢"), max_size=6)
_ints = st.one_of(st.integers(-3, 3), st.integers(-2**70, 2**70),
                  st.sampled_from([2**63 - 1, -2**63, 2**63, 255, 256]))


def _floats():
    return st.floats(allow_nan=False, allow_infinity=True, width=64).map(
        lambda f: ["float", f.hex() if f == f and abs(f) != float("inf") else repr(f)])


def scalars():
    return st.one_of(
        st.just(["none"]),
        st.booleans().map(lambda b: ["bool", b]),
        _ints.map(lambda i: ["int", str(i)]),
        _floats(),
        st.tuples(st.floats(-4, 4, width=32), st.floats(-4, 4, width=32)).map(
            lambda c: ["complex", float(c[0]).hex(), float(c[1]).hex()]),
        _text.map(lambda s: ["str", s]),
        st.binary(max_size=5).map(lambda b: ["bytes", b.hex()]),
        _text.map(lambda s: ["path", "/" + s.replace("/", "_")]),
        st.tuples(st.integers(0, 3), st.integers(0, 6), st.integers(1, 3)).map(
            lambda r: ["range", r[0], r[1], r[2]]),
        st.sampled_from(sorted(TYPES)).map(lambda n: ["type", n]),
    )


def hashable_atoms(kind):
    """homogeneous, orderable atoms for set elements / dict keys"""
    if kind == "int":
        return st.integers(-5, 5).map(lambda i: ["int", str(i)])
    if kind == "str":
        return _text.map(lambda s: ["str", s])
    if kind == "mixed":  # keys of mutually unorderable types
        return st.one_of(hashable_atoms("int"), hashable_atoms("str"), hashable_atoms("bytes"))
    return st.binary(max_size=3).map(lambda b: ["bytes", b.hex()])


def _uniq(lst):
    seen, out = set(), []
    for s in lst:
        k = json.dumps(norm(s), sort_keys=True)
        if k not in seen:
            seen.add(k)
            out.append(s)
    return out


def sets(allow_nested=True):
    kind = st.sampled_from(["int", "str", "bytes"])
    flat = kind.flatmap(lambda k: st.lists(hashable_atoms(k), max_size=5).map(_uniq))
    base = st.tuples(st.sampled_from(["set", "frozenset"]), flat).map(list)
    if not allow_nested:
        return base
    fs_of_fs = kind.flatmap(
        lambda k: st.lists(
            st.lists(hashable_atoms(k), max_size=3).map(lambda e: ["frozenset", _uniq(e)]),
            min_size=2, max_size=4).map(_uniq)
    ).flatmap(lambda els: st.sampled_from(["set", "frozenset"]).map(lambda t: [t, els]))
    # elements that are only partially ordered although they are not sets themselves: tuples with
    # a common prefix followed by frozensets
    tup_of_fs = kind.flatmap(
        lambda k: st.tuples(
            hashable_atoms(k),
            st.lists(st.lists(hashable_atoms(k), max_size=3).map(lambda e: ["frozenset", _uniq(e)]),
                     min_size=2, max_size=4).map(_uniq))
    ).flatmap(lambda pe: st.sampled_from(["set", "frozenset"]).map(
        lambda t: [t, [["tuple", [pe[0], fs]] for fs in pe[1]]]))
    return st.one_of(base, fs_of_fs, tup_of_fs)


def arrays():
    import numpy as np  # noqa: F401

    def mk(args):
        dtype, shape, seed, order = args
        n = 1
        for s in shape:
            n *= s
        vals = [((seed + 3 * i) % 7) for i in range(n)]
        if dtype == "bool":
            vals = [bool(v % 2) for v in vals]
        return ["ndarray", dtype, list(shape), vals, order]

    shapes = st.one_of(
        st.tuples(st.integers(0, 6)),
        st.tuples(st.integers(1, 3), st.integers(1, 4)),
        st.tuples(st.integers(1, 2), st.integers(1, 3), st.integers(1, 2)),
    )
    return st.tuples(st.sampled_from(["int64", "int32", "float64", "float32", "uint8", "bool"]),
                     shapes, st.integers(0, 6), st.sampled_from("CF")).map(mk)


def funcs():
    return st.tuples(st.sampled_from(sorted(FUNC_TEMPLATES)), st.integers(0, 3), st.integers(0, 2),
                     st.integers(0, 3)).map(lambda a: ["func", a[0], {"k": a[1], "d": a[2], "g": a[3]}])


def files():
    return st.tuples(st.sampled_from(["f.txt", "g.dat", "sub/h.txt"]), st.binary(max_size=12)).map(
        lambda a: ["file", a[0], a[1].hex()])


def equal_scalars():
    """containers holding numerically equal scalars of different types side by side
    (1, 1.0, True, 1+0j; 0, 0.0, False, -0.0)"""
    def mk(args):
        k, kinds, cont = args
        pool = {"int": ["int", str(k)], "float": ["float", float(k).hex()], "bool": ["bool", bool(k)],
                "complex": ["complex", float(k).hex(), float(0).hex()]}
        return [cont, [pool[x] for x in kinds]]

    return st.tuples(st.sampled_from([0, 1]), st.lists(st.sampled_from(["int", "float", "bool", "complex"]),
                                                        min_size=2, max_size=4),
                     st.sampled_from(["list", "tuple"])).map(mk)


def values(max_leaves=12, with_arrays=True, with_funcs=True, with_files=False):
    leaves = [scalars(), scalars(), sets(), equal_scalars()]
    if with_arrays:
        leaves.append(arrays())
    if with_funcs:
        leaves.append(funcs())
    if with_files:
        leaves.append(files())

    def extend(children):
        keyk = st.sampled_from(["int", "str", "str", "mixed"])
        dicts = keyk.flatmap(lambda k: st.lists(st.tuples(hashable_atoms(k), children).map(list),
                                                max_size=4)).map(
            lambda items: ["dict", _uniq_keys(items)])
        return st.one_of(
            st.lists(children, max_size=4).map(lambda x: ["list", x]),
            st.lists(children, max_size=4).map(lambda x: ["tuple", x]),
            dicts,
            st.tuples(st.sampled_from(["P", "Q"]), children, children).map(
                lambda a: ["attrs", a[0], {"a": a[1], "b": a[2]}]),
            st.tuples(st.sampled_from(["Plain", "Plain2"]), children, children).map(
                lambda a: ["obj", a[0], {"a": a[1], "b": a[2]}]),
            st.tuples(children, children).map(lambda a: ["slice", a[0], a[1], ["none"]]),
        )

    return st.recursive(st.one_of(*leaves), extend, max_leaves=max_leaves)


def _uniq_keys(items):
    seen, out = set(), []
    for k, v in items:
        kk = json.dumps(norm(k), sort_keys=True)
        if kk not in seen:
            seen.add(kk)
            out.append([k, v])
    return out


# ----------------------------------------------------------------------- mutation
def paths(spec, path=()):
    """all sub-spec positions"""
    yield path
    t = spec[0]
    if t in ("list", "tuple", "set", "frozenset"):
        for i, s in enumerate(spec[1]):
            yield from paths(s, path + (1, i))
    elif t == "dict":
        for i, (k, v) in enumerate(spec[1]):
            yield from paths(v, path + (1, i, 1))
    elif t in ("attrs", "obj"):
        for k, v in spec[2].items():
            yield from paths(v, path + (2, k))


def get_at(spec, path):
    for p in path:
        spec = spec[p]
    return spec


def set_at(spec, path, new):
    if not path:
        return new
    if isinstance(spec, dict):
        out = dict(spec)
    else:
        out = list(spec)
    out[path[0]] = set_at(spec[path[0]], path[1:], new)
    return out


def local_mutations(s):
    """candidate replacements for one sub-spec, each differing in one aspect (label, new)"""
    t = s[0]
    out = []
    if t == "int":
        i = int(s[1])
        out += [("content", ["int", str(i + 1)]), ("type", ["float", float(i).hex()] if abs(i) < 2**50 else ["str", s[1]]),
                ("type", ["str", s[1]])]
        if i in (0, 1):
            out.append(("type", ["bool", bool(i)]))
    elif t == "bool":
        out += [("content", ["bool", not s[1]]), ("type", ["int", str(int(s[1]))])]
    elif t == "float":
        f = build(s)
        if f == f and abs(f) != float("inf"):
            out.append(("content", ["float", (f + 1.0 if f + 1.0 != f else f * 2 or 1.0).hex()]))
            if f == int(f) and abs(f) < 2**50:
                out.append(("type", ["int", str(int(f))]))
            if f in (0.0, 1.0):
                out.append(("type", ["bool", bool(f)]))
    elif t == "str":
        out += [("content", ["str", s[1] + "x"]), ("type", ["bytes", s[1].encode().hex()]),
                ("nesting", ["list", [s]])]
    elif t == "bytes":
        out += [("content", ["bytes", s[1] + "00"])]
        try:
            out.append(("type", ["str", bytes.fromhex(s[1]).decode()]))
        except UnicodeDecodeError:
            pass
    elif t == "path":
        out += [("content", ["path", s[1] + "x"]), ("type", ["str", s[1]])]
    elif t == "none":
        out += [("type", ["bool", False]), ("type", ["str", "None"])]
    elif t == "range":
        out += [("content", ["range", s[1], s[2] + s[3], s[3]]),
                ("type", ["list", [["int", str(i)] for i in range(s[1], s[2], s[3])]])]
    elif t == "complex":
        out += [("content", ["complex", s[2], s[1]])] if s[1] != s[2] else []
    elif t == "type":
        other = sorted(n for n in TYPES if n != s[1])
        out += [("content", ["type", other[len(s[1]) % len(other)]])]
    elif t in ("list", "tuple"):
        other = "tuple" if t == "list" else "list"
        out += [("type", [other, s[1]]), ("content", [t, s[1] + [["int", "0"]]]),
                ("nesting", [t, [[t, s[1]]]])]
        if len(s[1]) >= 2:
            out.append(("nesting", [t, [[t, s[1][:1]], [t, s[1][1:]]]]))
            if norm(s[1][0]) != norm(s[1][-1]):
                out.append(("content", [t, s[1][::-1]]))
            out.append(("content", [t, s[1][:-1]]))
    elif t in ("set", "frozenset"):
        other = "frozenset" if t == "set" else "set"
        out += [("type", [other, s[1]])]
        if s[1]:
            out.append(("content", [t, s[1][:-1]]))
            if all(e[0] in ("int", "str", "bytes") for e in s[1]):
                out.append(("type", ["list", s[1]]))
    elif t == "dict":
        if s[1]:
            k, v = s[1][-1]
            out += [("content", [t, s[1][:-1]]),
                    ("content", [t, s[1][:-1] + [[k, ["tuple", [v]]]]])]
            if len(s[1]) >= 2 and norm(s[1][0][1]) != norm(s[1][1][1]):
                sw = [[s[1][0][0], s[1][1][1]], [s[1][1][0], s[1][0][1]]] + s[1][2:]
                out.append(("content", [t, sw]))
        else:
            out.append(("type", ["list", []]))
    elif t in ("attrs", "obj"):
        alt = {"P": "Q", "Q": "P", "Plain": "Plain2", "Plain2": "Plain"}[s[1]]
        out += [("type", [t, alt, s[2]])]
        if norm(s[2]["a"]) != norm(s[2]["b"]):
            out.append(("content", [t, s[1], {"a": s[2]["b"], "b": s[2]["a"]}]))
    elif t == "func":
        p = s[2]
        rel = {"closure": "k", "const": "k", "global": "g", "stmt": "k", "stmt1": "k", "mls": "k"}[s[1]]
        lab = {"closure": "func-closure", "const": "func-body", "global": "func-global",
               "stmt": "func-body-stmt", "stmt1": "func-body-first-stmt", "mls": "func-body"}[s[1]]
        out += [(lab, ["func", s[1], dict(p, **{rel: p.get(rel, 0) + 1})]),
                ("func-default", ["func", s[1], dict(p, d=p.get("d", 0) + 1)])]
    elif t == "ndarray":
        dtype, shape, vals, order = s[1:5]
        n = len(vals)
        if n:
            v2 = list(vals)
            v2[-1] = (not v2[-1]) if dtype == "bool" else (v2[-1] + 1)
            out.append(("content", ["ndarray", dtype, shape, v2, order]))
        if len(shape) == 1 and n >= 2 and n % 2 == 0:
            out.append(("shape", ["ndarray", dtype, [2, n // 2], vals, order]))
        if len(shape) == 2 and shape[0] != shape[1]:
            out.append(("shape", ["ndarray", dtype, [shape[1], shape[0]], vals, order]))
        if len(shape) >= 2:
            out.append(("shape", ["ndarray", dtype, [n], vals, order]))
        if len(shape) == 2 and n:
            # the transposed content stored in the other memory layout has the same raw bytes
            r, c = shape
            tv = [vals[j * c + i] for i in range(c) for j in range(r)]
            out.append(("layout", ["ndarray", dtype, [c, r], tv, "F" if order == "C" else "C"]))
        if n:
            dmap = {"int64": "float64", "float64": "int64", "int32": "float32", "float32": "int32",
                    "uint8": "bool", "bool": "uint8"}
            if dtype != "bool" and dtype != "uint8":
                out.append(("dtype", ["ndarray", dmap[dtype], shape, vals, order]))
            elif all(v in (0, 1, True, False) for v in vals):
                out.append(("dtype", ["ndarray", dmap[dtype], shape, [int(v) for v in vals] if dmap[dtype] == "uint8" else [bool(v) for v in vals], order]))
            if dtype == "int64":
                out.append(("dtype", ["ndarray", "int32", shape, vals, order]))
        out.append(("type", ["list", [["int", str(int(v))] for v in vals]]))
    elif t == "file":
        out.append(("content", ["file", s[1], s[2] + "41"]))
    return [(lab, new) for lab, new in out if norm(new) != norm(s)]


@st.composite
def mutation_of(draw, spec):
    """-> (label, mutated spec) differing from spec in exactly one aspect at one position, or None"""
    ps = list(paths(spec))
    order = draw(st.permutations(ps)) if len(ps) > 1 else ps
    for p in order[:6]:
        cands = local_mutations(get_at(spec, p))
        if cands:
            lab, new = draw(st.sampled_from(cands))
            out = set_at(spec, p, new)
            if norm(out) != norm(spec) and _still_valid(out):
                return lab, out
    return None


def _hashable_spec(spec):
    t = spec[0]
    if t in ("int", "str", "bytes", "bool", "none", "float", "complex", "path", "range", "type"):
        return True
    if t in ("frozenset", "tuple"):
        return all(_hashable_spec(e) for e in spec[1])
    return False


def _still_valid(spec):
    """sets/dict keys must stay homogeneous + hashable after a mutation"""
    t = spec[0]
    if t in ("set", "frozenset"):
        ks = {e[0] for e in spec[1]}
        if len(ks) > 1 or (ks and next(iter(ks)) not in ("int", "str", "bytes", "frozenset", "tuple")):
            return False
        if not all(_hashable_spec(e) for e in spec[1]):
            return False
        if len({json.dumps(norm(e)) for e in spec[1]}) != len(spec[1]):
            return False
        return all(_still_valid(e) for e in spec[1])
    if t == "dict":
        if not all(k[0] in ("int", "str", "bytes") for k, _ in spec[1]):
            return False
        return all(_still_valid(v) for _, v in spec[1])
    if t in ("list", "tuple"):
        return all(_still_valid(e) for e in spec[1])
    if t in ("attrs", "obj"):
        return all(_still_valid(v) for v in spec[2].values())
    if t == "slice":
        return all(_still_valid(e) for e in spec[1:4])
    return True
