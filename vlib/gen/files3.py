"""Generators for the file properties C09 (operation histories), C33 and C34 (nested file values).

C09 history case
  {"init": {path: content_id}, "links": [directory-entry symlink, ...], "ops": [op, ...]}
  links: which of R.DIRLINKS (a symbolic link below the directory pointing to a file outside it /
         to a sibling) exist; "links" missing = none (older replay files)
  op = ["write", file, content_id]            create or overwrite (same-size / different-size)
     | ["utime_seen", target, k]              set mtime_ns to the k-th mtime (mod n) at which this
                                              target was hashed earlier (else: any mtime seen so far)
     | ["utime_abs", target, j]               set mtime_ns to the j-th constant of ABS_MTIMES
     | ["replace", src_file, dst_file]        os.replace
     | ["copy2", src_file, dst_file]          shutil.copy2 (timestamps preserved)
     | ["hash", target, mode]                 mode in here | env | obj | child | task
  Ops whose source/target does not exist at replay time are skipped (and counted), so every list
  is a valid case (important for shrinking).

C33/C34 nested value spec
  ["file", dir_index, basename, content]      fileformats.generic.File over <scratch>/src<dir>/<name>
  ["dir", dir_index, basename, content]       Directory holding one file "inner.txt" with content
  ["int", n] ["str", s] ["none"] ["bool", b] ["float", hex]      non-file leaves
  ["set", [file leaf, ...]]                   (C34) ONE fileformats.generic.SetOf[File] made of the
                                              paths of its member file leaves (a multi-path file-set;
                                              the members may live in different directories)
  ["list", [specs]] ["tuple", [specs]] ["dict", [[key, spec], ...]]
  Two file leaves with the same (kind, dir_index, basename) denote the same source and are built
  as ONE object occurring several times.
"""
from __future__ import annotations

from hypothesis import strategies as st

from vlib.ref import files3 as R

HASH_MODES = ["here", "env", "obj", "child", "task"]


@st.composite
def histories(draw, max_steps=12):
    nfiles = len(R.FILES)
    init = {}
    for p in R.FILES:
        if draw(st.integers(0, 3)) > 0:
            init[p] = draw(st.integers(0, len(R.CONTENTS) - 1))
    if not init:
        init[R.FILES[0]] = 0
    exists = set(init)
    links = [ln for ln in R.DIRLINKS if draw(st.integers(0, 2)) > 0]
    focus = draw(st.sampled_from(R.TARGETS))
    if focus in R.DIRS:
        # everything the directory shows: the files below it and the files its links point to
        group = [p for p in R.FILES if p.startswith(focus + "/")]
        group += [R.DIRLINKS[ln][0] for ln in links
                  if ln.startswith(focus + "/") and R.DIRLINKS[ln][0] not in group]
    else:
        group = [R.LINKS.get(focus, focus)]
    n = draw(st.integers(4, max_steps))
    kinds = (["hash"] * 6 + ["write"] * 5 + ["utime_seen"] * 4 + ["utime_abs"] * 2
             + ["copy2"] * 2 + ["replace"])

    def focused():
        return draw(st.integers(0, 9)) < 7

    def a_file(must_exist):
        pool = [p for p in (group if focused() else R.FILES) if (p in exists or not must_exist)]
        if not pool:
            pool = [p for p in R.FILES if (p in exists or not must_exist)]
        return draw(st.sampled_from(sorted(pool))) if pool else None

    def a_target():
        if focused():
            return focus
        pool = [t for t in R.TARGETS if t in R.DIRS or R.LINKS.get(t, t) in exists]
        return draw(st.sampled_from(pool))

    ops = []
    for _ in range(n):
        k = draw(st.sampled_from(kinds))
        if k == "write":
            p = a_file(False)
            ops.append(["write", p, draw(st.integers(0, len(R.CONTENTS) - 1))])
            exists.add(p)
        elif k == "utime_seen":
            ops.append(["utime_seen", a_target(), draw(st.integers(0, 3))])
        elif k == "utime_abs":
            ops.append(["utime_abs", a_target(), draw(st.integers(0, len(R.ABS_MTIMES) - 1))])
        elif k in ("copy2", "replace"):
            src = a_file(True)
            dst = a_file(False)
            if src is None or dst is None or src == dst:
                continue
            ops.append([k, src, dst])
            exists.add(dst)
            if k == "replace":
                exists.discard(src)
        else:
            t = a_target()
            modes = HASH_MODES if t not in R.DIRS else HASH_MODES[:-1]
            ops.append(["hash", t, draw(st.sampled_from(modes))])
    # every history ends by hashing the focus (so that the last change is observed)
    ops.append(["hash", focus, draw(st.sampled_from(HASH_MODES[:4]))])
    assert nfiles
    return dict(init=init, links=links, ops=ops)


# ----------------------------------------------------------------------------- C33 / C34
BASENAMES = ["a.txt", "b.txt", "data.nii.gz", "x", "a (1).txt"]
DIRNAMES = ["sub", "a.txt", "out"]          # "a.txt" also as a directory name: file/dir name clash
KEYS = ["k0", "k1", "k2"]


def file_leaf(ndirs=3):
    return st.builds(lambda d, b: ["file", d, b, f"content of src{d}/{b}"],
                     st.integers(0, ndirs - 1), st.sampled_from(BASENAMES))


def dir_leaf(ndirs=3):
    return st.builds(lambda d, b: ["dir", d, b, f"inner of src{d}/{b}/"],
                     st.integers(0, ndirs - 1), st.sampled_from(DIRNAMES))


def plain_leaf():
    return st.one_of(
        st.builds(lambda n: ["int", n], st.integers(-3, 3)),
        st.builds(lambda s: ["str", s], st.sampled_from(["", "s", "a.txt", "/nonexistent/a.txt"])),
        st.just(["none"]),
        st.builds(lambda b: ["bool", b], st.booleans()),
        st.builds(lambda x: ["float", float(x).hex()], st.sampled_from([0.5, -1.0])),
    )


def _container(children, allow=("list", "tuple", "dict")):
    opts = []
    if "list" in allow:
        opts.append(st.builds(lambda xs: ["list", xs], st.lists(children, min_size=0, max_size=4)))
    if "tuple" in allow:
        opts.append(st.builds(lambda xs: ["tuple", xs], st.lists(children, min_size=0, max_size=4)))
    if "dict" in allow:
        opts.append(st.builds(
            lambda xs: ["dict", [[KEYS[i], x] for i, x in enumerate(xs)]],
            st.lists(children, min_size=0, max_size=3)))
    return st.one_of(opts)


_SIZES = [3, 2, 4, 1, 0]          # index 0 first: Hypothesis' early/minimal draws stay interesting


# multi-path file-sets (C34): member basenames x directory layout.  The menus hold the classes
# that matter for the collation setting: unique names and extensions | names that already share
# a stem | equal extensions (collation `adjacent` cannot be satisfied) | equal basenames in
# different directories (`siblings` cannot be satisfied) | multi-dot and extension-less names.
SET_NAMES = [("a.txt", "b.nii"), ("a.txt", "b.nii", "c.dat"), ("a.txt", "a.nii"),
             ("data.nii.gz", "data.json", "x"), ("a.txt", "b.txt"), ("a.txt", "a.txt")]
SET_DIRS = [(3, 4, 5), (3, 3, 4), (4, 4, 4)]      # spread | partly spread | one directory
                                                  # (3..5: never a directory of the File leaves)


def set_leaf(names_i, dirs_i):
    members = []
    for b, d in zip(SET_NAMES[names_i % len(SET_NAMES)], SET_DIRS[dirs_i % len(SET_DIRS)]):
        m = ["file", d, b, f"content of src{d}/{b}"]
        if m not in members:
            members.append(m)
    return ["set", members]


@st.composite
def nested_values(draw, k=1, with_dirs=True, with_plain=True, max_depth=2, files_only=False,
                  with_sets=False):
    """k nested values (depth <= max_depth) over ONE small pool of sources, so that different
    sources with the same basename and repeated objects are the rule, not the exception.
    All choices are ordered so that the all-zero draw is already a non-trivial case."""
    names = [BASENAMES[draw(st.integers(0, len(BASENAMES) - 1))]]
    if draw(st.integers(0, 2)) == 2:
        names.append(draw(st.sampled_from([b for b in BASENAMES if b != names[0]])))
    dirs = [[0, 1], [0, 1, 2], [1, 2], [0]][draw(st.integers(0, 3))]
    pool = [["file", d, b, f"content of src{d}/{b}"] for b in names for d in dirs]
    if with_dirs and draw(st.integers(0, 2)) == 1:
        dn = draw(st.sampled_from(DIRNAMES))
        pool += [["dir", d, dn, f"inner of dsrc{d}/{dn}/"] for d in dirs[:2]]

    sets = []
    if with_sets:
        # 1-2 multi-path file-sets; every second file leaf drawn below is one of them
        for _ in range([1, 2][draw(st.integers(0, 1))]):
            sets.append(set_leaf(draw(st.integers(0, len(SET_NAMES) - 1)),
                                 draw(st.integers(0, len(SET_DIRS) - 1))))

    def leaf():
        if with_plain and draw(st.integers(0, 5)) == 5:
            return draw(plain_leaf())
        if sets and draw(st.integers(0, 1)) == 0:
            return sets[draw(st.integers(0, len(sets) - 1))]
        return pool[draw(st.integers(0, len(pool) - 1))]

    def value(depth):
        kinds = ["list", "leaf", "dict", "tuple"] if depth > 0 else ["leaf"]
        kind = kinds[draw(st.integers(0, len(kinds) - 1))]
        if kind == "leaf":
            return leaf()
        n = _SIZES[draw(st.integers(0, len(_SIZES) - 1))]
        if kind == "dict":
            n = min(n, len(KEYS))
            return ["dict", [[KEYS[i], value(depth - 1)] for i in range(n)]]
        return [kind, [value(depth - 1) for _ in range(n)]]

    out = []
    for _ in range(k):
        if files_only:
            n = _SIZES[draw(st.integers(0, 3))]
            out.append(["list", [pool[draw(st.integers(0, len(pool) - 1))] for _ in range(n)]])
        else:
            out.append(value(max_depth))
    return out


# ----------------------------------------------------------------------------- builders
def source_key(leaf):
    if leaf[0] == "set":
        return "set:" + "+".join(sorted(f"{m[1]}:{m[2]}" for m in leaf[1]))
    return f"{leaf[0]}:{leaf[1]}:{leaf[2]}"


SETOF_FILE_NAME = "File___SetOf"          # type(SetOf[File](...)).__name__


def source_path(srcroot, leaf):
    """files live in <srcroot>/src<d>/<name>, directories in <srcroot>/dsrc<d>/<name>"""
    from pathlib import Path

    return Path(srcroot) / (("src" if leaf[0] == "file" else "dsrc") + str(leaf[1])) / leaf[2]


def source_content(leaf, nonce=""):
    """`nonce` makes the content unique per case: pydra keys its constructed-workflow cache and
    its task checksums on file CONTENT, so equal contents at different paths in one process would
    make a later case silently reuse the (deleted) files of an earlier one."""
    return leaf[3] + nonce


def read_source(path, kind):
    """content of a file / of the single inner file of a directory"""
    from pathlib import Path

    p = Path(path)
    return (p / "inner.txt").read_text() if kind == "dir" else p.read_text()


def inner(path, kind):
    from pathlib import Path

    return Path(path) / "inner.txt" if kind == "dir" else Path(path)


def build(spec, srcroot, objects=None, nonce=""):
    """spec -> python value; one File/Directory OBJECT per distinct source (shared by all its
    occurrences).  `objects` (key -> object) is filled in."""
    from fileformats.generic import Directory, File

    if objects is None:
        objects = {}
    t = spec[0]
    if t in ("file", "dir"):
        k = source_key(spec)
        if k not in objects:
            p = source_path(srcroot, spec)
            if t == "file":
                p.parent.mkdir(parents=True, exist_ok=True)
                p.write_text(source_content(spec, nonce))
                objects[k] = File(p)
            else:
                p.mkdir(parents=True, exist_ok=True)
                (p / "inner.txt").write_text(source_content(spec, nonce))
                objects[k] = Directory(p)
        return objects[k]
    if t == "set":
        from fileformats.generic import SetOf

        k = source_key(spec)
        if k not in objects:
            for m in spec[1]:
                build(m, srcroot, objects, nonce)          # writes the member files
            objects[k] = SetOf[File]([source_path(srcroot, m) for m in spec[1]])
        return objects[k]
    if t == "list":
        return [build(s, srcroot, objects, nonce) for s in spec[1]]
    if t == "tuple":
        return tuple(build(s, srcroot, objects, nonce) for s in spec[1])
    if t == "dict":
        return {k: build(s, srcroot, objects, nonce) for k, s in spec[1]}
    if t == "int":
        return int(spec[1])
    if t == "str":
        return spec[1]
    if t == "none":
        return None
    if t == "bool":
        return bool(spec[1])
    if t == "float":
        return float.fromhex(spec[1])
    raise ValueError(spec)


def type_of(spec):
    """the narrowest annotation under which pydra accepts build(spec) without changing it"""
    import typing as ty

    from fileformats.generic import Directory, File

    t = spec[0]
    simple = {"file": File, "dir": Directory, "int": int, "str": str, "none": type(None),
              "bool": bool, "float": float}
    if t in simple:
        return simple[t]
    if t == "set":
        from fileformats.generic import SetOf

        return SetOf[File]

    def union(specs):
        ts = []
        for s in specs:
            x = type_of(s)
            if x not in ts:
                ts.append(x)
        if not ts:
            return File
        return ts[0] if len(ts) == 1 else ty.Union[tuple(ts)]

    if t == "list":
        return list[union(spec[1])]
    if t == "tuple":
        if not spec[1]:
            return tuple[File, ...]
        return tuple[tuple(type_of(s) for s in spec[1])]
    if t == "dict":
        return dict[str, union([s for _, s in spec[1]])]
    raise ValueError(spec)


def describe(v):
    """python value -> JSON-able description (what a task body reports about its input)"""
    from fileformats.core import FileSet

    if isinstance(v, FileSet):
        return ["fs", type(v).__name__, sorted(str(p) for p in v.fspaths)]
    if isinstance(v, list):
        return ["list", [describe(x) for x in v]]
    if isinstance(v, tuple):
        return ["tuple", [describe(x) for x in v]]
    if isinstance(v, dict):
        return ["dict", [[k, describe(x)] for k, x in v.items()]]
    if isinstance(v, float):
        return ["float", v.hex()]
    if v is None:
        return ["none"]
    return [type(v).__name__, v if isinstance(v, (int, str, bool)) else repr(v)]


def describe_spec(spec, srcroot):
    """the description `describe(build(spec))` would give, computed from the spec alone"""
    t = spec[0]
    if t in ("file", "dir"):
        return ["fs", "File" if t == "file" else "Directory", [str(source_path(srcroot, spec))]]
    if t == "set":
        return ["fs", SETOF_FILE_NAME, sorted(str(source_path(srcroot, m)) for m in spec[1])]
    if t in ("list", "tuple"):
        return [t, [describe_spec(s, srcroot) for s in spec[1]]]
    if t == "dict":
        return ["dict", [[k, describe_spec(s, srcroot)] for k, s in spec[1]]]
    if t == "none":
        return ["none"]
    if t == "bool":
        return ["bool", bool(spec[1])]
    return [t, spec[1]]


def match(spec, desc, path=()):
    """Walk a value spec and an observed description in parallel.
    -> (problems, pairs) where problems = [(kind, position, detail)] for shape / plain-leaf
    deviations and pairs = [(position, file leaf spec, observed class name, observed paths)]."""
    problems, pairs = [], []
    t = spec[0]
    if t in ("file", "dir", "set"):
        if desc[0] != "fs":
            problems.append(("file-leaf-replaced", path, desc))
        else:
            pairs.append((path, spec, desc[1], desc[2]))
    elif t in ("list", "tuple"):
        if desc[0] != t:
            problems.append(("container-type-changed", path, [t, desc[0]]))
        elif len(desc[1]) != len(spec[1]):
            problems.append(("container-length-changed", path, [len(spec[1]), len(desc[1])]))
        else:
            for i, (s, d) in enumerate(zip(spec[1], desc[1])):
                p2, q2 = match(s, d, path + (i,))
                problems += p2
                pairs += q2
    elif t == "dict":
        if desc[0] != "dict":
            problems.append(("container-type-changed", path, ["dict", desc[0]]))
        elif [k for k, _ in desc[1]] != [k for k, _ in spec[1]]:
            problems.append(("dict-keys-changed", path, [[k for k, _ in spec[1]], [k for k, _ in desc[1]]]))
        else:
            for (k, s), (_, d) in zip(spec[1], desc[1]):
                p2, q2 = match(s, d, path + (k,))
                problems += p2
                pairs += q2
    else:
        exp = describe_spec(spec, "")
        if desc != exp:
            problems.append(("plain-leaf-changed", path, [exp, desc]))
    return problems, pairs
