"""Generators for C30 (construction-cache histories) and C29 (serialization cases)."""
from __future__ import annotations

from hypothesis import strategies as st

from vlib.gen import values as V
from vlib.gen import workflows as G

# ------------------------------------------------------------------------------------ C30
# small pools so that equal values (exact hits) and equal non-lazy subsets (superset hits) recur
XS = ["x0", "x1", "x2"]
YS = ["y0", "y1", "y2"]
LISTS = [["a0"], ["a0", "a1"], ["a1", "a0"], ["a2", "a0", "a1"]]
TOKENS = XS + YS + ["a0", "a1", "a2"]
INPUTS = {
    "CChain": dict(x=XS, y=YS, n=[0, 1, 2, 3]),
    "CBranch": dict(x=XS, y=YS, flag=[False, True]),
    "CSplit": dict(xs=LISTS, y=YS, comb=[False, True], n=[0, 1, 2]),
    "CNested": dict(x=XS, y=YS, n=[0, 1, 2], inner_y=[False, True]),
    "CFan": dict(x=XS, y=YS, k=[1, 2, 3], inner=[False, True]),
}
PASSED = {"CChain": ["x", "y"], "CBranch": ["x", "y"], "CSplit": ["xs", "y"],
          "CNested": ["x", "y"], "CFan": ["x", "y"]}
# scalar inputs over which a whole-workflow split is generated
SPLITTABLE = {"CChain": ["x", "y"], "CBranch": ["x"], "CNested": ["x"], "CFan": ["x"], "CSplit": ["y"]}


def tokens_of(obj):
    """pool tokens occurring in a JSON value"""
    import json

    s = json.dumps(obj)
    return {t for t in TOKENS if t in s}


@st.composite
def histories(draw, max_ops=6):
    names = sorted(INPUTS)
    # one or two definitions per history (CNested brings CChain along: shared cache entries)
    first = draw(st.sampled_from(names))
    pool = [first]
    if first == "CNested":
        pool.append("CChain")
    elif draw(st.booleans()):
        pool.append(draw(st.sampled_from(names)))
    n_ops = draw(st.integers(2, max_ops))
    ops = []
    prev_values = {}
    for _ in range(n_ops):
        wf = draw(st.sampled_from(pool))
        kind = draw(st.sampled_from(["construct"] * 5 + ["run"] * 4 + ["clear"]))
        # values: mostly a small change of the previous values of this definition
        if wf in prev_values and draw(st.integers(0, 3)) > 0:
            values = dict(prev_values[wf])
            for k in draw(st.lists(st.sampled_from(sorted(INPUTS[wf])), max_size=2, unique=True)):
                values[k] = draw(st.sampled_from(INPUTS[wf][k]))
        else:
            values = {k: draw(st.sampled_from(v)) for k, v in INPUTS[wf].items()}
        if kind == "clear":
            whole = draw(st.booleans())
            ops.append(dict(op="clear", wf=None if whole else wf, values={} if whole else values))
            continue
        prev_values[wf] = values
        instance = draw(st.sampled_from(["new", "new", "new", "reuse", "mutate"]))
        if kind == "construct":
            lazy = draw(st.lists(st.sampled_from(PASSED[wf]), max_size=2, unique=True).map(sorted))
            via = "task" if (not lazy and draw(st.booleans())) else "class"
            ops.append(dict(op="construct", wf=wf, values=values, lazy=lazy, via=via, instance=instance))
        else:
            split = None
            if draw(st.integers(0, 5)) == 0:
                inp = draw(st.sampled_from(SPLITTABLE[wf]))
                vals = draw(st.lists(st.sampled_from(INPUTS[wf][inp]), min_size=1, max_size=2))
                split = dict(input=inp, values=vals, combine=draw(st.booleans()))
                values = {k: v for k, v in values.items() if k != inp}
                instance = "new"
            ops.append(dict(op="run", wf=wf, values=values, split=split, instance=instance))
    return ops


# ------------------------------------------------------------------------------------ C29
def canon_spec(spec):
    """value spec -> canonical comparable form shared with canon_val (type and content)"""
    t = spec[0]
    if t == "func":
        tpl, p = spec[1], spec[2]
        add = p.get("g", 0) if tpl == "global" else p.get("k", 0)
        return ["func", 1 + add, p.get("d", 0)]
    if t in ("list", "tuple"):
        return [t, [canon_spec(s) for s in spec[1]]]
    if t == "dict":
        items = {}
        for k, v in spec[1]:
            items[_js(canon_spec(k))] = canon_spec(v)
        return [t, sorted(items.items())]
    if t in ("set", "frozenset"):
        return [t, sorted({_js(canon_spec(s)) for s in spec[1]})]
    if t in ("attrs", "obj"):
        return [t, spec[1], sorted((k, canon_spec(v)) for k, v in spec[2].items())]
    if t == "slice":
        return [t] + [canon_spec(s) for s in spec[1:4]]
    if t == "ndarray":
        return [t, spec[1], list(spec[2]), [_num(x) for x in spec[3]]]
    if t == "float":
        return [t, _num(V.build(spec))]
    if t == "complex":
        c = V.build(spec)
        return [t, _num(c.real), _num(c.imag)]
    return list(spec)


def _js(x):
    import json

    return json.dumps(x, sort_keys=True)


def _num(x):
    if isinstance(x, bool):
        return ["b", x]
    if isinstance(x, int):
        return ["i", str(x)]
    if isinstance(x, float):
        return ["f", x.hex() if x == x and abs(x) != float("inf") else repr(x)]
    if isinstance(x, complex):
        return ["c", _num(x.real), _num(x.imag)]
    return ["?", repr(x)]


def canon_val(v):
    """live object -> the canonical form canon_spec gives for the spec it was built from"""
    from pathlib import PurePath

    import attrs

    if v is None:
        return ["none"]
    if isinstance(v, bool):
        return ["bool", v]
    if type(v) is int:
        return ["int", str(v)]
    if type(v) is float:
        return ["float", _num(v)]
    if type(v) is complex:
        return ["complex", _num(v.real), _num(v.imag)]
    if type(v) is str:
        return ["str", v]
    if type(v) is bytes:
        return ["bytes", v.hex()]
    if isinstance(v, PurePath):
        return ["path", str(v)]
    if type(v) is range:
        return ["range", v.start, v.stop, v.step]
    if type(v) is slice:
        return ["slice", canon_val(v.start), canon_val(v.stop), canon_val(v.step)]
    if type(v) in (list, tuple):
        return [type(v).__name__, [canon_val(e) for e in v]]
    if type(v) is dict:
        return ["dict", sorted((_js(canon_val(k)), canon_val(w)) for k, w in v.items())]
    if type(v) in (set, frozenset):
        return [type(v).__name__, sorted({_js(canon_val(e)) for e in v})]
    if isinstance(v, type) or type(v).__module__ in ("typing", "types"):
        for name, tp in V.TYPES.items():
            if tp is v or tp == v:
                return ["type", name]
        return ["type?", repr(v)]
    if callable(v) and hasattr(v, "__code__"):
        return ["func", v(1), (v.__defaults__ or (None,))[0]]
    cls = type(v).__name__
    if cls in ("P", "Q") and attrs.has(type(v)):
        return ["attrs", cls, sorted((k, canon_val(w)) for k, w in attrs.asdict(v, recurse=False).items())]
    if cls in ("Plain", "Plain2"):
        return ["obj", cls, sorted((k, canon_val(w)) for k, w in v.__dict__.items())]
    if cls == "ndarray":
        return ["ndarray", str(v.dtype), list(v.shape), [_num(x) for x in v.flatten().tolist()]]
    return ["unknown", cls, repr(v)[:100]]


WORDS = ["alpha", "be ta", "", "it's", "x" * 40, "ünï", "-n", "$HOME", "a;b"]


@st.composite
def configs(draw, kind="wf"):
    # the async path of the child (workflow job under cf) gets half of the workflow cases
    worker = draw(st.sampled_from(["debug", "cf"] if kind == "wf" else ["debug", "debug", "cf"]))
    cfg = dict(
        worker=worker,
        n_procs=draw(st.integers(1, 3)) if worker == "cf" else None,
        # size of the process pool relative to the CPUs available to this process (resolved by
        # props/c29.py:resolve_n_procs; replaces n_procs when set): below / at / above the number
        # of CPUs and "default" = n_procs not given.  Only where the pool never gets work: a
        # ProcessPoolExecutor forks ALL its processes at the first submission, so workflow jobs
        # (the only ones that go through the pool) keep the small absolute sizes.
        n_procs_rel=(draw(st.sampled_from([None, "default", "cpus-1", "cpus", "cpus+1", "2*cpus",
                                           "8*cpus+1"]))
                     if worker == "cf" and kind != "wf" else None),
        worker_as_object=draw(st.booleans()),
        n_readonly=draw(st.integers(0, 2)),
        ro_has_result=draw(st.booleans()),
        max_concurrent=draw(st.sampled_from([None, None, 1, 2, 3])),
        propagate_rerun=draw(st.booleans()),
        rerun=draw(st.integers(0, 3)) == 0,
        audit=draw(st.sampled_from(["NONE", "NONE", "PROV", "RESOURCE", "ALL"])),
        messenger=draw(st.sampled_from([None, "file", "print"])),
        clean_stale_locks=draw(st.sampled_from([None, True, False])),
        environment=draw(st.sampled_from([None, "native"])),
        touch_checksum=draw(st.booleans()),
        hook=draw(st.booleans()),
        name=draw(st.sampled_from(["main", "job", "n0", "Jöb_1"])),
        prerun_same_instance=draw(st.booleans()),
        # True: the parent stamps Submitter.run_start_time the way Submitter.__call__ does before
        # any job is shipped (the flow of every worker back-end); False: a bare Job(...) is shipped
        mimic_call=draw(st.sampled_from([True, True, True, False])),
        # a lock file left behind by an interrupted earlier run for the first node's job (only
        # placed when the configuration cleans stale locks and the node's identity is computable)
        stale_node_lock=draw(st.integers(0, 3)) == 0,
    )
    return cfg


@st.composite
def ser_cases(draw, hang_prone=True):
    """hang_prone=False never produces workflow x cf x resource-audit (known finding F-C29-1: the
    child then fails or, depending on max_concurrent, spins until the watchdog fires)"""
    kind = draw(st.sampled_from(["wf", "wf", "wf", "py_prov", "py_ident", "py_ident", "shell"]))
    if kind == "wf":
        task = dict(kind="wf", prog=draw(G.programs(max_nodes=4, allow_wf_split=False)))
    elif kind == "py_prov":
        name = draw(st.sampled_from(["WT1", "WT2", "WL"]))
        atoms = st.one_of(st.sampled_from(WORDS), st.integers(-3, 10**20),
                          st.lists(st.sampled_from(WORDS), max_size=3))
        inputs = {"a": draw(atoms)}
        if name == "WT2":
            inputs["b"] = draw(atoms)
        task = dict(kind="py_prov", name=name, inputs=inputs)
    elif kind == "py_ident":
        task = dict(kind="py_ident", spec=draw(V.values(max_leaves=8, with_files=False)))
    else:
        task = dict(kind="shell", text=draw(st.sampled_from(
            [w for w in WORDS if w and not w.startswith("-") and "'" not in w] + ["plain", "two words"])),
            n=draw(st.integers(0, 3)), flag=draw(st.booleans()))
    cfg = draw(configs(kind))
    if kind == "wf" and cfg["worker"] == "cf" and cfg["audit"] in ("RESOURCE", "ALL"):
        if not hang_prone or draw(st.integers(0, 7)) > 0:
            cfg["audit"] = "PROV"
    return dict(task=task, cfg=cfg)
