"""C18 generators: workflow programs with BACK-EDGES and with worker-level failures.

A back-edge is a connection made after the nodes exist, through the node-inputs API:

    n0 = workflow.add(WT1(a=...), name="n0")
    n2 = workflow.add(WT1(a=n0.out), name="n2")
    n0.inputs.a = n2.out            # <- late connection: n0 now consumes n2 (a cycle here)

`render_backedges` extends the source produced by vlib.gen.workflows.render with such assignments
(inserted after the last node, before the `return`).  With `typed=True` the T1/T2 nodes use the
`str`-typed tasks ST1/ST2 (vlib/tasks_conc.py), otherwise the `ty.Any`-typed WT1/WT2.

Back-edge spec: [target_node, target_field, source_node]  (source is the target itself or a later
node).  `graph_after(prog, edges)` gives the connection graph the workflow then has, `has_cycle`
decides - independently of pydra - whether the connections form a cycle.
"""
from __future__ import annotations

from pathlib import Path

from hypothesis import assume
from hypothesis import strategies as st

from vlib.gen import workflows as G
from vlib.ref import workflow as RW

TYPED_IMPORT = "from vlib.tasks_conc import ST1 as WT1, ST2 as WT2"


def render_backedges(prog, edges, typed=False):
    src, clsname = G.render(prog)
    lines = src.rstrip("\n").split("\n")
    ret = max(i for i, ln in enumerate(lines) if ln.startswith("    return "))
    extra = [f"    {t}.inputs.{f} = {s}.out" for t, f, s in edges]
    lines[ret:ret] = extra
    if typed:
        imp = max(i for i, ln in enumerate(lines) if ln.startswith("from vlib.tasks import"))
        lines.insert(imp + 1, TYPED_IMPORT)
    return "\n".join(lines) + "\n", clsname


_counter = [0]


def build(prog, edges, typed, scratch):
    """-> instantiated pydra workflow task (construction itself happens at submission)"""
    src, clsname = render_backedges(prog, edges, typed)
    _counter[0] += 1
    Path(scratch).mkdir(parents=True, exist_ok=True)
    path = Path(scratch) / f"wfb_{_counter[0]}.py"
    path.write_text(src)
    ns = {"__name__": f"verif_dyn_wfb_{_counter[0]}"}
    exec(compile(src, str(path), "exec"), ns)
    W = ns[clsname]
    ws = prog.get("wf_split")
    if ws:
        kw = {k: v for k, v in prog["inputs"].items() if k != ws["input"]}
        t = W(**kw).split(**{ws["input"]: ws["values"]})
        if ws.get("combine"):
            t = t.combine(ws["input"])
        return t
    return W(**prog["inputs"])


def graph_after(prog, edges):
    """{node: set(nodes it consumes)} after the late assignments replaced the target fields"""
    src = {nd["name"]: {f: list(s) for f, s in nd["in"].items()} for nd in prog["nodes"]}
    for t, f, s in edges:
        src[t][f] = ["node", s]
    return {n: {s[1] for s in fs.values() if s[0] in ("node", "splitnode")} for n, fs in src.items()}


def has_cycle(graph):
    """Kahn's algorithm on {node: predecessors}"""
    preds = {n: set(p) for n, p in graph.items()}
    while True:
        free = [n for n, p in preds.items() if not p]
        if not free:
            return bool(preds)
        for n in free:
            del preds[n]
        for p in preds.values():
            p.difference_update(free)


def cycle_nodes(graph):
    preds = {n: set(p) for n, p in graph.items()}
    while True:
        free = [n for n, p in preds.items() if not p]
        if not free:
            return sorted(preds)
        for n in free:
            del preds[n]
        for p in preds.values():
            p.difference_update(free)


@st.composite
def backedge_cases(draw):
    _not_the_simplest(draw)
    prog = draw(G.programs(max_nodes=4, allow_wf_split=False))
    names = [nd["name"] for nd in prog["nodes"]]
    kinds = {nd["name"]: nd["kind"] for nd in prog["nodes"]}
    edges = []
    idx = range(len(names))
    for _ in range(draw(st.sampled_from([1, 1, 1, 2]))):
        graph = graph_after(prog, edges)
        down = [(i, j) for i in idx for j in idx if j > i and _reaches(graph, names[j], names[i])]
        later = [(i, j) for i in idx for j in idx if j > i]
        how = draw(st.sampled_from(["down", "down", "down", "down", "self", "later"]))
        if how == "down" and down:
            ti, si = draw(st.sampled_from(down))      # closes a cycle through >= 2 nodes
        elif how != "self" and later:
            ti, si = draw(st.sampled_from(later))     # any later node: a cycle or just a late connection
        else:
            ti = si = draw(st.sampled_from(list(idx)))  # self-loop
        f = draw(st.sampled_from(RW.FIELDS[kinds[names[ti]]]))
        e = [names[ti], f, names[si]]
        if e not in edges:
            edges.append(e)
    return dict(kind="backedge", prog=prog, edges=edges, typed=draw(st.sampled_from([False, True])),
                worker=draw(st.sampled_from(["debug", "debug", "cf"])))


def _not_the_simplest(draw):
    """Hypothesis always starts with the all-minimal example; with a handful of examples per shard
    that would make every shard run the same trivial case.  Discard it."""
    assume(draw(st.integers(0, 255)) != 0)


def _reaches(graph, frm, to):
    """does `frm` (transitively) consume `to`?"""
    seen, todo = set(), [frm]
    while todo:
        n = todo.pop()
        for p in graph.get(n, ()):
            if p == to:
                return True
            if p not in seen:
                seen.add(p)
                todo.append(p)
    return False


@st.composite
def workerfail_cases(draw):
    _not_the_simplest(draw)
    prog = draw(G.programs(max_nodes=4, allow_nested=False, allow_wf_split=False))
    try:
        njobs = max(1, sum(RW.job_count(prog).values()))
    except Exception:  # noqa: BLE001 - RW.Undefined and programs the reference cannot evaluate
        njobs = 3
    ords = {draw(st.integers(1, min(njobs, 6)))}
    if draw(st.integers(0, 3)) == 0:
        ords.add(draw(st.integers(1, min(njobs, 6))))
    fails = [[n, draw(st.sampled_from(["raise", "raise", "lost"]))] for n in sorted(ords)]
    return dict(kind="workerfail", prog=prog, worker="sched", worker_failures=fails,
                choices=draw(st.lists(st.integers(0, 7), max_size=12)))


@st.composite
def ordinary_cases(draw):
    _not_the_simplest(draw)
    prog = draw(G.programs(max_nodes=4, allow_wf_split=False))
    worker = draw(st.sampled_from(["debug", "cf", "sched"]))
    case = dict(kind="ordinary", prog=prog, worker=worker, typed=draw(st.booleans()))
    if worker == "sched":
        case["choices"] = draw(st.lists(st.integers(0, 7), max_size=12))
    return case
