"""Greedy minimiser for workflow programs: keeps a failure's *core signature* while removing
nodes, outputs, combiners, splits and list elements.  Used to bucket failures by root cause
(quick tier has no Hypothesis shrinking) and to produce small replay files."""
from __future__ import annotations

import copy

from vlib.ref import splitter as S
from vlib.ref import workflow as RW


def _refs(prog, name):
    for nd in prog["nodes"]:
        if nd["name"] == name:
            continue
        for s in nd["in"].values():
            if s[0] in ("node", "splitnode") and s[1] == name:
                return True
        for c in nd.get("combine") or []:
            if c.startswith(name + "."):
                return True
    return False


def _prune_inputs(prog):
    used = set()
    for nd in prog["nodes"]:
        for s in nd["in"].values():
            if s[0] in ("wfin", "split"):
                used.add(s[1])
    if prog.get("wf_split"):
        used.add(prog["wf_split"]["input"])
    prog["inputs"] = {k: v for k, v in prog["inputs"].items() if k in used}
    return prog


def candidates(prog):
    """yield simpler programs, most aggressive first"""
    # single output
    if len(prog["outs"]) > 1:
        for o in prog["outs"]:
            p = copy.deepcopy(prog)
            p["outs"] = [o]
            yield p
    # re-target the output to an earlier node
    names = [m["name"] for m in prog["nodes"]]
    first_out = min(names.index(o) for o in prog["outs"])
    for nd in prog["nodes"][:first_out]:  # strictly earlier, so that this step cannot cycle
        if nd["name"] not in prog["outs"]:
            p = copy.deepcopy(prog)
            p["outs"] = [nd["name"]]
            yield p
    # remove a node altogether, replacing every reference to it by a constant
    for nd in reversed(prog["nodes"]):
        if nd["name"] in prog["outs"] or not _refs(prog, nd["name"]):
            continue
        p = copy.deepcopy(prog)
        p["nodes"] = [m for m in p["nodes"] if m["name"] != nd["name"]]
        for m in p["nodes"]:
            for f, s in list(m["in"].items()):
                if s[0] in ("node", "splitnode") and s[1] == nd["name"]:
                    if s[0] == "splitnode":
                        m["split"] = None
                        m["combine"] = [c for c in (m.get("combine") or []) if c != f] or None
                    m["in"][f] = ["const", f"k{f}"]
            if m.get("combine"):
                m["combine"] = [c for c in m["combine"] if not c.startswith(nd["name"] + ".")] or None
        yield _prune_inputs(p)
    # remove unreferenced non-output nodes
    for nd in reversed(prog["nodes"]):
        if nd["name"] not in prog["outs"] and not _refs(prog, nd["name"]):
            p = copy.deepcopy(prog)
            p["nodes"] = [m for m in p["nodes"] if m["name"] != nd["name"]]
            yield _prune_inputs(p)
    if prog.get("wf_split"):
        p = copy.deepcopy(prog)
        p["wf_split"] = None
        yield p
    for i, nd in enumerate(prog["nodes"]):
        if nd.get("combine"):
            p = copy.deepcopy(prog)
            p["nodes"][i]["combine"] = None
            yield p
            if len(nd["combine"]) > 1:
                for j in range(len(nd["combine"])):
                    p = copy.deepcopy(prog)
                    p["nodes"][i]["combine"] = nd["combine"][:j] + nd["combine"][j + 1:]
                    yield p
        for f, s in nd["in"].items():
            if s[0] in ("node", "wfin"):
                p = copy.deepcopy(prog)
                p["nodes"][i]["in"][f] = ["const", f"k{f}"]
                yield _prune_inputs(p)
            if s[0] == "split":
                p = copy.deepcopy(prog)
                q = p["nodes"][i]
                q["in"][f] = ["const", f"k{f}"]
                rest = [g for g in S.fields_of(q["split"]) if g != f]
                q["split"] = rest[0] if rest else None
                q["combine"] = [c for c in (q.get("combine") or []) if c != f] or None
                yield _prune_inputs(p)
            if s[0] == "splitnode":
                p = copy.deepcopy(prog)
                q = p["nodes"][i]
                q["in"][f] = ["node", s[1]]
                q["split"] = None
                q["combine"] = [c for c in (q.get("combine") or []) if c != f] or None
                yield p
        if nd["kind"] in ("Sub1", "Sub2"):
            p = copy.deepcopy(prog)
            p["nodes"][i]["kind"] = {"Sub1": "T1", "Sub2": "T2"}[nd["kind"]]
            yield p
        if nd["kind"] == "T2":
            for f in ("a", "b"):
                if nd["in"][f][0] == "const":
                    other = "b" if f == "a" else "a"
                    if nd["in"][other][0] != "const":
                        continue
        if isinstance(nd.get("split"), list) and nd["split"][0] == "I":
            p = copy.deepcopy(prog)
            p["nodes"][i]["split"] = ["O", nd["split"][1]]
            yield p
    for k, v in prog["inputs"].items():
        if isinstance(v, list) and len(v) > 1:
            inner_partner = False
            for nd in prog["nodes"]:
                if isinstance(nd.get("split"), list) and nd["split"][0] == "I":
                    if any(nd["in"][f][1] == k for f in S.fields_of(nd["split"])):
                        inner_partner = True
            if inner_partner:
                continue
            p = copy.deepcopy(prog)
            p["inputs"][k] = v[:-1]
            yield p


def minimize(prog, still_fails, max_steps=200):
    """still_fails(prog) -> bool (same core signature).  Greedy to a local minimum."""
    steps = 0
    changed = True
    while changed and steps < max_steps:
        changed = False
        for cand in candidates(prog):
            steps += 1
            if steps > max_steps:
                break
            try:
                RW.evaluate_program(cand)
            except RW.Undefined:
                continue
            except Exception:
                continue
            if still_fails(cand):
                prog = cand
                changed = True
                break
    return prog


ESSENTIAL = ["fan_in_shared_origin", "fan_in_independent", "same_upstream_twice",
             "combine_upstream_axis", "combine", "inner_split", "own_split_below_split",
             "nested_workflow", "workflow_level_split", "propagated_state"]


def essential_shape(prog):
    ls = set(RW.labels(prog))
    return "+".join(lb for lb in ESSENTIAL if lb in ls) or "plain"
