"""Generators for C38: mount tables (as `mount` prints them on Linux / macOS) and probe paths."""
from __future__ import annotations

from hypothesis import strategies as st

COMPONENTS = ["data", "data2", "dat", "database", "a", "ab", "scratch", "scratch.tmp", "tmp", "mnt",
              "x", "home", "Volumes", "my disk", "share"]
SUFFIXES = ["2", "x", ".bak", "_old", "-1", " 2"]
FSTYPES = ["cifs", "cifs", "cifs", "ext4", "ext4", "nfs", "tmpfs", "smbfs", "hfs", "overlay",
           "fuse.sshfs"]
DEVICES = ["//10.0.75.1/C", "/dev/sda1", "/dev/disk2", "tmpfs", "host:/export/data", "overlay",
           "//user@srv/share", "map -hosts", "sysfs"]
LINUX_OPTS = ["rw,relatime", "rw,nosuid,nodev,noexec,relatime",
              "rw,relatime,vers=3.02,sec=ntlmsspi,cache=strict,username=filo,domain=MSI,uid=0",
              "ro"]
MACOS_OPTS = ["", "local, journaled", "nodev, nosuid, mounted by user", "local, nodev, read-only"]
NOISE = ["", "   ", "garbage line without the keyword", "none", "# comment"]


def join(parts):
    return "/" + "/".join(parts)


@st.composite
def mount_points(draw, max_mounts=6):
    """unique mount points with deliberately many string-prefix siblings and nestings"""
    pts: list[str] = []
    n = draw(st.integers(1, max_mounts))
    if draw(st.integers(0, 5)) == 0:
        pts.append("/")
    for _ in range(3 * n):
        if len(pts) >= n:
            break
        how = draw(st.sampled_from(["fresh", "fresh", "sibling", "sibling", "nested", "nested"]))
        base = [p for p in pts if p != "/"]
        if how == "fresh" or not base:
            depth = draw(st.integers(1, 3))
            mp = join([draw(st.sampled_from(COMPONENTS)) for _ in range(depth)])
        elif how == "sibling":
            mp = draw(st.sampled_from(base)) + draw(st.sampled_from(SUFFIXES))
            if draw(st.booleans()):
                mp += "/" + draw(st.sampled_from(COMPONENTS))
        else:
            mp = draw(st.sampled_from(base)) + "/" + draw(st.sampled_from(COMPONENTS))
        if mp not in pts:
            pts.append(mp)
    return pts or ["/data"]


@st.composite
def probe_path(draw, pts):
    m = draw(st.sampled_from(pts))
    tail = [draw(st.sampled_from(COMPONENTS + ["f.txt", "sub"])) for _ in range(draw(st.integers(0, 2)))]
    how = draw(st.sampled_from(["under", "under", "exact", "sibling", "sibling", "sibling", "parent",
                                "truncated", "random"]))
    if how == "under":
        p = m.rstrip("/") + join(tail or ["f.txt"])
    elif how == "exact":
        p = m
    elif how == "sibling":
        if m == "/":
            p = join(tail or ["x"])
        else:
            p = m + draw(st.sampled_from(SUFFIXES + ["base", "s"]))
            if tail:
                p += join(tail)
    elif how == "parent":
        parts = [c for c in m.split("/") if c][:-1]
        p = join(parts + tail) if parts or tail else "/"
    elif how == "truncated":
        k = draw(st.integers(1, max(1, len(m) - 1)))
        p = m[: k + 1].rstrip("/") or "/"
        if tail:
            p = p.rstrip("/") + join(tail)
    else:
        p = join([draw(st.sampled_from(COMPONENTS)) for _ in range(draw(st.integers(1, 3)))])
    form = draw(st.sampled_from(["str", "str", "path", "trailing"]))
    if form == "trailing" and p != "/":
        p += "/"
        form = "str"
    elif form == "trailing":
        form = "str"
    return [p, form]


@st.composite
def cases(draw):
    pts = draw(mount_points())
    style = draw(st.sampled_from(["linux", "linux", "macos"]))
    mounts = []
    for k, mp in enumerate(pts):
        # the first point is the base most siblings/nestings derive from: mostly a cifs share
        fs = draw(st.sampled_from(["cifs", "cifs", "cifs", "ext4"] if k == 0 else FSTYPES))
        dev = draw(st.sampled_from(DEVICES))
        opts = draw(st.sampled_from(LINUX_OPTS if style == "linux" else MACOS_OPTS))
        mounts.append([dev, mp, fs, opts])
    order = draw(st.permutations(list(range(len(mounts)))))
    mounts = [mounts[i] for i in order]
    noise = [[draw(st.integers(0, len(mounts))), draw(st.sampled_from(NOISE))]
             for _ in range(draw(st.integers(0, 2)))]
    paths = [draw(probe_path(pts)) for _ in range(draw(st.integers(2, 5)))]
    npairs = draw(st.integers(1, 3))
    pairs = [[draw(st.integers(0, len(paths) - 1)), draw(st.integers(0, len(paths) - 1))]
             for _ in range(npairs)]
    return dict(style=style, mounts=mounts, noise=noise, paths=paths, pairs=pairs)
