"""Fresh-construction oracle for C30: a long-lived interpreter that executes ONE operation per
request with the workflow construction cache cleared immediately before and a new task instance
(no memo), i.e. the same code as the process under observation with the cache state removed.

Request  {"op": <operation, see vlib/ref/wfcache.py>}
Reply    {"obs": <observation>, "cache_entries_before": n} | {"error": "Type: text", "where": sig}
"""
from __future__ import annotations

import json
import os
import sys
import tempfile


def cache_entries():
    from pydra.engine.workflow import Workflow

    return sum(len(v) for per_type in Workflow._constructed_cache.values() for v in per_type.values())


def main():
    os.environ.setdefault("NO_ET", "true")
    from vlib import scratchdir

    base = os.environ.get("VERIF_WFCACHE_SCRATCH")
    if base:
        scratchdir.init(tempfile.mkdtemp(prefix="srv-", dir=base))
    from pydra.engine.workflow import Workflow

    from vlib.harness import exception_signature, short
    from vlib.ref.wfcache import Interp

    for line in sys.stdin:
        line = line.strip()
        if not line:
            continue
        req = json.loads(line)
        try:
            Workflow.clear_cache()
            n = cache_entries()
            op = dict(req["op"])
            op["reuse"] = False
            op.pop("instance", None)
            out = dict(obs=Interp().do(op), cache_entries_before=n)
        except Exception as e:  # the parent decides what an exception means
            out = dict(error=short(e), where=exception_signature(e, "exc"))
        sys.stdout.write(json.dumps(out) + "\n")
        sys.stdout.flush()
    scratchdir.cleanup()


if __name__ == "__main__":
    main()
