"""Long-lived interpreter answering hash/checksum requests (one JSON object per line).

Started by props/c07.py with different PYTHONHASHSEED values so that one value spec can be
hashed "in several sessions".  Requests:
  {"op": "checksum", "spec": <value spec>, "scratch": dir, "pickle": bool}
       -> {"checksum": Tag(a=value)._checksum, "hash": hash_function(value)}
  {"op": "hash", "spec": ..., "scratch": dir} -> {"hash": ...}
  {"op": "xor"} -> hashes of a task class / instance that declares two xor groups
  {"op": "seed"} -> the interpreter's PYTHONHASHSEED and a probe of str hashing
"""
from __future__ import annotations

import json
import os
import sys
import traceback


def main():
    os.environ.setdefault("NO_ET", "true")
    from pydra.utils.hash import hash_function

    from vlib.gen import values as V
    from vlib.tasks import Tag, XorTask

    for line in sys.stdin:
        line = line.strip()
        if not line:
            continue
        req = json.loads(line)
        try:
            op = req["op"]
            if op == "seed":
                out = dict(seed=os.environ.get("PYTHONHASHSEED"), probe=hash("probe") % 1000)
            elif op == "hash":
                out = dict(hash=hash_function(V.build(req["spec"], req["scratch"])))
            elif op == "checksum":
                val = V.build(req["spec"], req["scratch"])
                task = Tag(a=val)
                if req.get("pickle"):
                    import cloudpickle as cp

                    task = cp.loads(cp.dumps(task))
                out = dict(checksum=task._checksum, hash=hash_function(val))
            elif op == "xor":
                t = XorTask(p=1, r="x")
                out = dict(cls=hash_function(XorTask), inst=t._checksum,
                           split=XorTask(r="x").split(p=[1, 2])._checksum)
            else:
                out = dict(error=f"unknown op {op}")
        except Exception as e:  # reported to the parent, which decides what it means
            out = dict(error=f"{type(e).__name__}: {e}", tb=traceback.format_exc()[-1500:])
        sys.stdout.write(json.dumps(out) + "\n")
        sys.stdout.flush()


if __name__ == "__main__":
    main()
