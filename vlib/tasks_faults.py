"""Task definitions for the fault-injection checks C12, C35 and C36 (importable by name in any
process, so they also work under worker="cf").

Every body appends ONE line `<tag>` to the file named by its `log` input with O_APPEND before doing
anything else: the number of lines per tag is the number of real body executions.
Hooks append `<hook-name> <job-name>` to `<log>.hooks`.
"""
from __future__ import annotations

import os
import typing as ty

from pydra.compose import python, shell, workflow
from pydra.engine.hooks import TaskHooks


def _append(path: str, text: str) -> None:
    fd = os.open(path, os.O_WRONLY | os.O_APPEND | os.O_CREAT, 0o644)
    try:
        os.write(fd, (text + "\n").encode())
    finally:
        os.close(fd)


def read_lines(path) -> list[str]:
    if not os.path.exists(path):
        return []
    with open(path) as f:
        return [ln.strip() for ln in f if ln.strip()]


# ----------------------------------------------------------------------------- python bodies
@python.define
def FInc(x: int, log: str, tag: str = "P") -> int:
    """x + 1, one log line per execution"""
    import os as _os

    fd = _os.open(log, _os.O_WRONLY | _os.O_APPEND | _os.O_CREAT, 0o644)
    try:
        _os.write(fd, (tag + "\n").encode())
    finally:
        _os.close(fd)
    return x + 1


class BodyError(ValueError):
    pass


@python.define
def FBoom(x: int, log: str, tag: str = "P") -> int:
    """logs, then fails"""
    import os as _os

    fd = _os.open(log, _os.O_WRONLY | _os.O_APPEND | _os.O_CREAT, 0o644)
    try:
        _os.write(fd, (tag + "\n").encode())
    finally:
        _os.close(fd)
    raise BodyError(f"boom {x}")


# ----------------------------------------------------------------------------- file inputs
# A set of files that has to be staged into the job directory before the body can run.  Whether the
# staging can succeed is decided by the VALUE (see vlib/gen/faults.py: stage_files): two files
# with one name cannot become siblings; a file on another device cannot be hard-linked.
def _fstage(files, x: int, log: str, tag: str = "P") -> int:
    import os as _os

    fd = _os.open(log, _os.O_WRONLY | _os.O_APPEND | _os.O_CREAT, 0o644)
    try:
        _os.write(fd, (tag + "\n").encode())
    finally:
        _os.close(fd)
    return x + len(files.fspaths)


def _fstage_siblings(files, x: int, log: str, tag: str = "P") -> int:
    return _fstage(files, x, log, tag)


def _fstage_hardlink(files, x: int, log: str, tag: str = "P") -> int:
    return _fstage(files, x, log, tag)


def _define_fstage():
    from fileformats.generic import File, SetOf

    a = python.define(
        _fstage_siblings,
        inputs={"files": python.arg(type=SetOf[File], copy_mode=File.CopyMode.copy,
                                    copy_collation=File.CopyCollation.siblings)},
        outputs={"out": python.out(type=int)}, name="FStageSiblings")
    b = python.define(
        _fstage_hardlink,
        inputs={"files": python.arg(type=SetOf[File], copy_mode=File.CopyMode.hardlink)},
        outputs={"out": python.out(type=int)}, name="FStageHardlink")
    return a, b


FStageSiblings, FStageHardlink = _define_fstage()


# ----------------------------------------------------------------------------- shell body
# sh <script> <log> <tag> <x>; the script (written by the check, see SH_OK / SH_FAIL) appends the tag
# to the log and prints "out-<x+1>" (or exits 3).  No argument contains blanks.
ShBody = shell.define(
    "sh",
    inputs={
        "script": shell.arg(type=str, argstr="", position=1),
        "log": shell.arg(type=str, argstr="", position=2),
        "tag": shell.arg(type=str, argstr="", position=3),
        "x": shell.arg(type=int, argstr="", position=4),
    },
    name="ShBody",
)

SH_OK = '#!/bin/sh\necho "$2" >> "$1"\necho "out-$(($3 + 1))"\n'
SH_FAIL = '#!/bin/sh\necho "$2" >> "$1"\necho "about to fail" >&2\nexit 3\n'


# ----------------------------------------------------------------------------- hooks
def _hook_log(job) -> str:
    return str(job.task.log) + ".hooks"


def hk_pre_run(job):
    _append(_hook_log(job), f"pre_run {job.name}")


def hk_pre_run_task(job):
    _append(_hook_log(job), f"pre_run_task {job.name}")


def hk_post_run_task(job, result):
    _append(_hook_log(job), f"post_run_task {job.name}")


def hk_post_run(job, result):
    _append(_hook_log(job), f"post_run {job.name}")


class HookError(RuntimeError):
    pass


def _raising(name):
    def hook(job, *args):
        _append(_hook_log(job), f"{name} {job.name}")
        raise HookError(f"hook {name} raises")

    hook.__name__ = hook.__qualname__ = f"hk_raise_{name}"
    return hook


hk_raise_pre_run = _raising("pre_run")
hk_raise_pre_run_task = _raising("pre_run_task")
hk_raise_post_run_task = _raising("post_run_task")
hk_raise_post_run = _raising("post_run")

HOOK_NAMES = ("pre_run", "pre_run_task", "post_run_task", "post_run")


def make_hooks(raising: str | None = None) -> TaskHooks:
    """counting hooks; `raising` names the one hook that raises HookError after logging"""
    g = globals()
    return TaskHooks(
        **{n: g[("hk_raise_" if n == raising else "hk_") + n] for n in HOOK_NAMES}
    )


# ----------------------------------------------------------------------------- workflows
@workflow.define
def FWf(x: int, log: str, hooked: bool = False, raising: str = "") -> int:
    """A: x+1 -> B: +1.  Everything arrives as input values (no closure)."""
    kw_a, kw_b = {}, {}
    if hooked:
        kw_a = dict(hooks=make_hooks(raising or None))
        kw_b = dict(hooks=make_hooks(None))
    a = workflow.add(FInc(x=x, log=log, tag="A"), name="A", **kw_a)
    b = workflow.add(FInc(x=a.out, log=log, tag="B"), name="B", **kw_b)
    return b.out


@workflow.define
def FWfFail(x: int, log: str) -> int:
    """A succeeds, B fails."""
    a = workflow.add(FInc(x=x, log=log, tag="A"), name="A")
    b = workflow.add(FBoom(x=a.out, log=log, tag="B"), name="B")
    return b.out


@workflow.define
def FWfFailFirst(x: int, log: str) -> int:
    """A fails, B can never run."""
    a = workflow.add(FBoom(x=x, log=log, tag="A"), name="A")
    b = workflow.add(FInc(x=a.out, log=log, tag="B"), name="B")
    return b.out
