"""Independent reference for C20/C21 (DESIGN 3.4): does a live Python value conform to a type spec?

No pydra import.  Type specs are the JSON forms of vlib/gen/types.py:

  ["int"] ["float"] ["bool"] ["str"] ["bytes"] ["Path"] ["File"] ["Any"] ["None"]
  ["Optional", T, sp]  ["Union", [T...], sp]           sp = "ty" | "pipe" (spelling only)
  ["list", T] ["tuplevar", T] ["tuple", [T1, ...]] ["dict", K, V] ["set", T] ["frozenset", T]
  ["Sequence", T] ["Mapping", K, V] ["Multi", T]

Reading of "conforms" (exact element typing, Python's own subclass relations):
  int <- int incl. bool (bool is a subclass of int); float <- float only; str/bytes/bool exact
  classes or subclasses; Path <- pathlib.Path; File <- fileformats.generic.File; None <- None;
  list/tuple/dict/set/frozenset <- instances of that class with conforming elements;
  Sequence[T] <- any collections.abc.Sequence whose items conform (so b"" and "ab" are
  Sequence[int]/Sequence[str] values, as in Python); Mapping <- collections.abc.Mapping;
  Multi[T] (MultiInputObj) <- a list whose items conform to T (pydra's documented meaning: "a
  list of T, a single T is wrapped"; the list need not be a MultiInputObj instance).
"""
from __future__ import annotations

import collections.abc as cabc
import json
import os
from pathlib import Path, PurePath

SCALAR_KINDS = ("int", "float", "bool", "str", "bytes", "Path", "File", "Any", "None")
COLLECTIONS = (list, tuple, set, frozenset, dict)


def _is_file(v):
    from fileformats.generic import File

    return isinstance(v, File)


def conforms(v, T) -> bool:
    k = T[0]
    if k == "Any":
        return True
    if k == "None":
        return v is None
    if k == "int":
        return isinstance(v, int)
    if k == "float":
        return isinstance(v, float)
    if k == "bool":
        return isinstance(v, bool)
    if k == "str":
        return isinstance(v, str)
    if k == "bytes":
        return isinstance(v, bytes)
    if k == "Path":
        return isinstance(v, Path)
    if k == "File":
        return _is_file(v)
    if k == "Optional":
        return v is None or conforms(v, T[1])
    if k == "Union":
        return any(conforms(v, m) for m in T[1])
    if k == "list":
        return isinstance(v, list) and all(conforms(e, T[1]) for e in v)
    if k == "Multi":
        return isinstance(v, list) and all(conforms(e, T[1]) for e in v)
    if k == "tuplevar":
        return isinstance(v, tuple) and all(conforms(e, T[1]) for e in v)
    if k == "tuple":
        return (isinstance(v, tuple) and len(v) == len(T[1])
                and all(conforms(e, m) for e, m in zip(v, T[1])))
    if k == "set":
        return isinstance(v, set) and all(conforms(e, T[1]) for e in v)
    if k == "frozenset":
        return isinstance(v, frozenset) and all(conforms(e, T[1]) for e in v)
    if k == "Sequence":
        return isinstance(v, cabc.Sequence) and all(conforms(e, T[1]) for e in v)
    if k in ("dict", "Mapping"):
        base = dict if k == "dict" else cabc.Mapping
        return isinstance(v, base) and all(
            conforms(a, T[1]) and conforms(b, T[2]) for a, b in v.items())
    raise ValueError(f"unknown type spec {T!r}")


def why_not(v, T, path="$"):
    """first non-conforming position, for violation records: (path, value repr, expected spec)"""
    k = T[0]
    if conforms(v, T):
        return None
    if k in ("list", "Multi", "tuplevar", "set", "frozenset", "Sequence"):
        want = {"list": list, "Multi": list, "tuplevar": tuple, "set": set,
                "frozenset": frozenset, "Sequence": cabc.Sequence}[k]
        if isinstance(v, want):
            for i, e in enumerate(v):
                r = why_not(e, T[1], f"{path}[{i}]")
                if r:
                    return r
    if k == "tuple" and isinstance(v, tuple) and len(v) == len(T[1]):
        for i, (e, m) in enumerate(zip(v, T[1])):
            r = why_not(e, m, f"{path}[{i}]")
            if r:
                return r
    if k in ("dict", "Mapping") and isinstance(v, cabc.Mapping):
        for a, b in v.items():
            r = why_not(a, T[1], f"{path}.key({a!r})") or why_not(b, T[2], f"{path}[{a!r}]")
            if r:
                return r
    return (path, f"{type(v).__name__}:{v!r:.80}", T)


# --------------------------------------------------------------------------- equal content
def describe(v):
    """live object -> JSON value spec (type-sensitive: 1 / 1.0 / True and list / tuple differ)"""
    if v is None:
        return ["none"]
    if isinstance(v, bool):
        return ["bool", v]
    if type(v) is int:
        return ["int", str(v)]
    if type(v) is float:
        return ["float", v.hex() if v == v and abs(v) != float("inf") else repr(v)]
    if type(v) is str:
        return ["str", v]
    if type(v) is bytes:
        return ["bytes", v.hex()]
    if _is_file(v):
        return ["fileobj", type(v).__name__, sorted(str(p) for p in v.fspaths)]
    if isinstance(v, Path):
        return ["path", str(v)]
    if isinstance(v, PurePath):
        return ["purepath", str(v)]
    if type(v) in (list, tuple):
        return [type(v).__name__, [describe(e) for e in v]]
    if type(v) in (set, frozenset):
        return [type(v).__name__, sorted((describe(e) for e in v), key=_ck)]
    if type(v) is dict:
        return ["dict", sorted(([describe(a), describe(b)] for a, b in v.items()), key=_ck)]
    if isinstance(v, (list, tuple)):
        return ["obj", type(v).__name__, [describe(e) for e in v]]
    return ["obj", type(v).__qualname__, repr(v)[:120]]


def _ck(spec):
    return json.dumps(spec, sort_keys=True)


def same(a, b) -> bool:
    return _ck(describe(a)) == _ck(describe(b))


# --------------------------------------------------------------------------- str <-> sequence law
def _chars_match(s, c):
    """collection c consists of exactly the characters of s (each possibly converted further)"""
    def piece(e):
        if isinstance(e, str):
            return e
        if isinstance(e, os.PathLike) and not _is_file(e):
            return os.fspath(e)
        if isinstance(e, (int, float)) and not isinstance(e, bool):
            return str(e)
        return None

    if isinstance(c, (list, tuple)):
        return [piece(e) for e in c] == list(s)
    if isinstance(c, (set, frozenset)):
        return {piece(e) for e in c} == set(s)
    return False


def _join_candidates(c):
    out = {str(c), repr(c)}
    if not isinstance(c, dict):
        try:
            parts = [e if isinstance(e, str) else str(e) for e in c]
            for sep in ("", " ", ",", ", "):
                out.add(sep.join(parts))
        except Exception:
            pass
    return out


def confusions(v, r, path="$", aligned=True):
    """Walks the supplied value v and the stored value r in parallel and returns records
    (kind, path, in, out) where a str was split into its characters ("split:<out type>"), a
    non-str collection became a str ("joined:<in type>"), or a str came back as a different str
    ("changed"; nothing in the statement lets the text of a string change).  `aligned` is True while the correspondence of v and r is
    certain (top level, equal-length ordered sequences, dicts in order); below unordered
    containers a pair is reported only with a positive witness (characters / join text match).
    bytes is treated as a scalar."""
    out = []
    if isinstance(v, str):
        if isinstance(r, str):
            if r != v and aligned:
                out.append(("changed", path, v, r))
        elif isinstance(r, COLLECTIONS):
            if len(v) >= 2 and _chars_match(v, r):
                out.append((f"split:{type(r).__name__}", path, v, r))
            elif not isinstance(r, dict) and len(r) == 1:
                out += confusions(v, next(iter(r)), path + "<wrap>", aligned)
        return out
    if isinstance(v, COLLECTIONS):
        if isinstance(r, str):
            sole = next(iter(v)) if (len(v) == 1 and not isinstance(v, dict)) else None
            if isinstance(sole, str) and sole == r:
                return out  # unwrapping a single element is not a join
            if aligned or r in _join_candidates(v):
                out.append((f"joined:{type(v).__name__}", path, v, r))
            return out
        if not isinstance(r, COLLECTIONS):
            return out
        if isinstance(v, dict) and isinstance(r, dict):
            if len(v) == len(r):
                for (ka, va), (kb, vb) in zip(v.items(), r.items()):
                    out += confusions(ka, kb, f"{path}.key", aligned)
                    out += confusions(va, vb, f"{path}[{ka!r:.20}]", aligned)
            return out
        if isinstance(v, dict) or isinstance(r, dict):
            return out
        ordered = isinstance(v, (list, tuple)) and isinstance(r, (list, tuple))
        if ordered and len(v) == len(r):
            for i, (a, b) in enumerate(zip(v, r)):
                out += confusions(a, b, f"{path}[{i}]", aligned)
            return out
        if len(r) == 1 and len(v) != 1:
            sole = next(iter(r))
            if isinstance(sole, COLLECTIONS):
                out += confusions(v, sole, path + "<wrap>", aligned)
                return out
        # unordered / different lengths: report only with a positive witness
        for a in v:
            for b in r:
                if isinstance(a, str) and isinstance(b, COLLECTIONS) and len(a) >= 2 \
                        and _chars_match(a, b):
                    out.append((f"split:{type(b).__name__}", path + "{}", a, b))
                elif isinstance(a, COLLECTIONS) and isinstance(b, str) \
                        and b in _join_candidates(a) and b not in [x for x in v if isinstance(x, str)]:
                    out.append((f"joined:{type(a).__name__}", path + "{}", a, b))
                elif isinstance(a, str) and isinstance(b, str) and b != a and len(a) >= 1 \
                        and b == str(list(a)) and b not in [x for x in v if isinstance(x, str)]:
                    out.append(("changed", path + "{}", a, b))
    return out


# --------------------------------------------------------------------------- C21 arity rule
def arity_excuse(v, T) -> bool:
    """True when the value could be refused by T merely because a fixed-length tuple position
    of T meets a collection of a different length (the exception the C21 statement sets aside).
    Lenient: under a Union any member may provide the excuse."""
    k = T[0]
    if k in ("Optional",):
        return arity_excuse(v, T[1])
    if k == "Union":
        return any(arity_excuse(v, m) for m in T[1])
    sized = isinstance(v, (list, tuple, set, frozenset, bytes))
    if k == "tuple":
        if not sized:
            return False
        if len(v) != len(T[1]):
            return True
        return any(arity_excuse(e, m) for e in v for m in T[1])
    if k in ("list", "tuplevar", "set", "frozenset", "Sequence"):
        return sized and any(arity_excuse(e, T[1]) for e in v)
    if k == "Multi":
        return arity_excuse(v, T[1]) or (sized and any(arity_excuse(e, T[1]) for e in v))
    if k in ("dict", "Mapping"):
        return isinstance(v, cabc.Mapping) and any(
            arity_excuse(a, T[1]) or arity_excuse(b, T[2]) for a, b in v.items())
    return False
