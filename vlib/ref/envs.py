"""Reference models for the environment properties, written from the statements of C27 / C39.

C27  expected container command =
        <runtime> <subcommand> <xargs...> {<mount-flag> host:target:mode}* <wd-flag> <root><cache dir>
        <image>:<tag> <native argv with every host path p replaced by <root>p>
     one bind per parent directory of a host path (rw if the directory holds a copied input or an
     output, ro otherwise), the cache root bound rw; option order is not prescribed.
C39  expected child environment = exec of the python program lmod printed over a copy of the
     caller's environment.
"""
from __future__ import annotations

import re
import types
from pathlib import Path

RUNTIME = {
    "docker": dict(prefix=["docker", "run"], mount={"-v", "--volume"}, wd={"-w", "--workdir"}),
    "singularity": dict(prefix=["singularity", "exec"], mount={"-B", "--bind"}, wd={"--pwd"}),
}


# ----------------------------------------------------------------------------- paths
def norm(p: str) -> str:
    """Textual path identity: repeated slashes collapse, a trailing slash is dropped."""
    p = re.sub(r"/{2,}", "/", str(p))
    return p if p == "/" else p.rstrip("/")


def squeeze(text: str) -> str:
    """Collapse repeated slashes anywhere in an argument ('--in=//d/f' == '--in=/d/f')."""
    return re.sub(r"/{2,}", "/", text)


def in_container(root: str, p) -> str:
    return norm(f"{root}{p}")


_BOUNDARY = r"(?![A-Za-z0-9._\-])"


def substitute(text: str, paths, root: str) -> str:
    """Replace every occurrence of a host path in `text` (longest paths first) by <root>path."""
    ps = sorted({str(p) for p in paths}, key=len, reverse=True)
    if not ps:
        return text
    rx = re.compile("|".join(re.escape(p) + _BOUNDARY for p in ps))
    return rx.sub(lambda m: in_container(root, m.group(0)), text)


def expected_tail(native_argv, paths, root):
    return [substitute(t, paths, root) for t in native_argv]


# ----------------------------------------------------------------------------- mounts
def required_mounts(path_infos, cache_root, root):
    """path_infos: [(host path, needs_rw, source)], source in input|output|append.
    -> {host dir: dict(target, mode, conflict, sources)}"""
    req: dict[str, dict] = {}
    for p, rw, source in path_infos:
        d = str(Path(p).parent)
        e = req.setdefault(d, dict(target=in_container(root, d), rw=False, ro=False, sources=set()))
        e["rw" if rw else "ro"] = True
        e["sources"].add(source)
    d = str(cache_root)
    e = req.setdefault(d, dict(target=in_container(root, d), rw=False, ro=False, sources=set()))
    e["rw"] = True
    e["sources"].add("cache_root")
    for e in req.values():
        e["mode"] = "rw" if e["rw"] else "ro"
        e["conflict"] = e["rw"] and e["ro"]
    return req


def _parse_spec(spec: str):
    parts = spec.split(":")
    if len(parts) != 3 or parts[2] not in ("rw", "ro") or not parts[0].startswith("/"):
        return None
    return parts[0], parts[1], parts[2]


def split_command(kind, argv, image_ref, xargs):
    """-> (problem | None, option tokens, tail)"""
    rt = RUNTIME[kind]
    n = len(rt["prefix"])
    if argv[:n] != rt["prefix"]:
        return "runtime-prefix-wrong", [], []
    if argv[n:n + len(xargs)] != list(xargs):
        return "xargs-not-after-runtime", [], []
    start = n + len(xargs)
    try:
        idx = argv.index(image_ref, start)
    except ValueError:
        return "image-reference-missing", [], []
    return None, argv[start:idx], argv[idx + 1:]


def parse_options(kind, options):
    """Token-level parse of the option region. -> (mounts, workdirs) or None if malformed."""
    rt = RUNTIME[kind]
    mounts, wds = [], []
    i = 0
    while i < len(options):
        tok = options[i]
        if i + 1 >= len(options):
            return None
        if tok in rt["mount"]:
            m = _parse_spec(options[i + 1])
            if m is None:
                return None
            mounts.append(m)
        elif tok in rt["wd"]:
            wds.append(options[i + 1])
        else:
            return None
        i += 2
    return mounts, wds


def parse_options_joined(kind, options):
    """Parse of the option region after joining the tokens with single spaces: recovers what
    the options would have been had their values not been split on whitespace."""
    rt = RUNTIME[kind]
    flags = rt["mount"] | rt["wd"]
    groups: list[list[str]] = []
    for tok in options:
        if tok in flags:
            groups.append([tok])
        elif not groups:
            return None
        else:
            groups[-1].append(tok)
    mounts, wds = [], []
    for g in groups:
        if len(g) < 2:
            return None
        val = " ".join(g[1:])
        if g[0] in rt["mount"]:
            m = _parse_spec(val)
            if m is None:
                return None
            mounts.append(m)
        else:
            wds.append(val)
    return mounts, wds


# ----------------------------------------------------------------------------- lmod
def lua_quote(s: str) -> str:
    """Lmod prints values as double-quoted strings with \\, \" and newline escaped."""
    return '"' + s.replace("\\", "\\\\").replace('"', '\\"').replace("\n", "\\n") + '"'


def emit_assign(key: str, value: str, style: str) -> str:
    if style == "lmod":
        return f"os.environ[{lua_quote(key)}] = {lua_quote(value)};\n"
    if style == "repr":
        return f"os.environ[{key!r}] = {value!r}\n"
    raise ValueError(style)


def emit_module(effects, caller_env: dict, style: str) -> tuple[str, dict]:
    """Program text for one module given the environment lmod runs in; returns the program and
    the environment after it (so that the next module sees this one's effects)."""
    env = dict(caller_env)
    out = []
    for eff in effects:
        op, key = eff[0], eff[1]
        if op == "set":
            env[key] = eff[2]
            out.append(emit_assign(key, eff[2], style))
        elif op in ("prepend", "append"):
            old = env.get(key, "")
            parts = [eff[2], old] if op == "prepend" else [old, eff[2]]
            env[key] = eff[3].join(p for p in parts if p)
            out.append(emit_assign(key, env[key], style))
        elif op == "unset":
            env.pop(key, None)
            out.append(emit_assign(key, "", style))
            out.append(f"del os.environ[{lua_quote(key) if style == 'lmod' else repr(key)}]"
                       + (";\n" if style == "lmod" else "\n"))
        else:
            raise ValueError(op)
    return "".join(out), env


def apply_program(program: str, env: dict) -> dict:
    """The meaning of lmod's python output: execute it over a copy of the environment."""
    env = dict(env)
    exec(program, {"os": types.SimpleNamespace(environ=env), "__builtins__": {}})
    return env


LMOD_REGEX = r"""os\.environ\[['"](.*?)['"]\]\s*=\s*['"](.*?)['"]"""


def regex_model(program: str) -> dict:
    """Defect model: assignments as recognised by a non-greedy quote-to-quote pattern (values end
    at the first quote character, escape sequences are not decoded, deletions are ignored)."""
    return {k: v for k, v in re.findall(LMOD_REGEX, program)}
