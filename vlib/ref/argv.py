"""Reference argument vector of a shell task, written from the statement of C22 (DESIGN 3.5):

  The argument vector of a shell task is the executable, then the arguments of each set field
  ordered by position (non-negative ascending, then unpositioned fields in definition order,
  then negative ascending), then the appended free arguments.  Unset/None fields, False flags
  and empty multi-inputs contribute nothing, True flags contribute their flag, and list values
  expand per their argstr (repeated with '...', otherwise joined with the field separator).

Reads the JSON specs of vlib/gen/shellspec.py; does not import pydra.

Readings fixed here (each is also listed in the ASSUMPTIONS of the checks):
 * argstr None: the field is not part of the command (field documentation).
 * a templated argstr ("--a={a}", "--a {a}") is split at its own blanks into argument
   templates; the value is substituted verbatim into each of them ("--a {a}" -> ["--a", v]).
 * a plain argstr contributes [flag, value], the empty argstr [value].
 * numbers are rendered with str().
 * MultiInputObj fields repeat their argstr per element with or without '...' (tutorial:
   "for options, this signifies that the flag itself is printed multiple times"); the literal
   reading of the statement (no '...' -> joined with the separator) is accepted as well, see
   acceptable(); a single non-list value counts as a one-element multi-input.
 * joined with a blank separator = the elements are consecutive arguments; inside a template
   that is left open by the statement -> Undefined.

The second half of the file holds *defect models*: alternative renderings that reproduce known
wrong behaviours exactly, used only to attribute deviations to a root cause (never to accept):
GAPFILL, SEPREP, FALSY (C22), RETOK (C23: built strings are tokenised again), TPLSTRIP (C23: a
string formatted from a template is str.strip()ped, which also eats non-POSIX whitespace at its
ends), CLASSALPHA (C22: class-form definitions take their fields in alphabetical order).
"""
from __future__ import annotations

import itertools
import re
import shlex


class Undefined(Exception):
    """the statement does not decide this case"""


# ---------------------------------------------------------------------------- reference
def ordered(fields: list[dict]) -> list[dict]:
    nonneg = sorted((f for f in fields if f.get("position") is not None and f["position"] >= 0),
                    key=lambda f: f["position"])
    unpos = [f for f in fields if f.get("position") is None]
    neg = sorted((f for f in fields if f.get("position") is not None and f["position"] < 0),
                 key=lambda f: f["position"])
    return nonneg + unpos + neg


def to_str(v) -> str:
    return v if isinstance(v, str) else str(v)


def _base_argstr(f):
    a = f["argstr"]
    rep = a.endswith("...")
    return (a[:-3] if rep else a), rep


def _one(f, s: str, a: str) -> list[str]:
    """arguments for one value string under argstr `a` (without '...')"""
    ph = "{" + f["name"] + "}"
    if ph in a:
        return [piece.replace(ph, s) for piece in a.split()]
    if "{" in a:
        raise Undefined("template referring to other fields")
    return ([a] if a else []) + [s]


def elements(f, v) -> list[str] | None:
    """the list elements of a list-valued field, None for scalars"""
    if f["type"] == "multi[str]":
        return [to_str(e) for e in (v if isinstance(v, list) else [v])]
    if f["type"].startswith("list["):
        return [to_str(e) for e in v]
    return None


def render(f: dict, v, multi_joined=False, one=None) -> list[str]:
    """arguments of one field; `multi_joined` selects the literal reading of the statement for a
    MultiInputObj field without '...' (joined with the separator like a plain list);
    `one` (defect models only) replaces _one, the rendering of one value string"""
    one = one or _one
    if f.get("argstr") is None or v is None:
        return []
    a, rep = _base_argstr(f)
    if f["type"] == "bool":
        if "{" in a or a == "" or rep:
            raise Undefined("flag without a plain flag string")
        return [a] if v is True else []
    els = elements(f, v)
    if els is None:
        return one(f, to_str(v), a)
    if (f["type"] == "multi[str]" and not multi_joined) or rep:
        out = []
        for e in els:
            out += one(f, e, a)
        return out
    if not els:
        raise Undefined("empty plain list")
    sep = f.get("sep")
    sep = " " if sep is None else sep
    if sep.strip() == "":
        if "{" in a:
            raise Undefined("blank-joined list inside a template")
        return ([a] if a else []) + els
    return one(f, sep.join(els), a)


def executable(spec) -> list[str]:
    exe = spec["executable"]
    return list(exe) if isinstance(exe, (list, tuple)) else [exe]


def argv(spec: dict, rv: dict, append_args=None) -> list[str]:
    out = executable(spec)
    for f in ordered(spec["fields"]):
        out += render(f, rv[f["name"]])
    return out + list(append_args or [])


def two_readings(f, v) -> bool:
    """MultiInputObj with several elements and no '...': the statement says 'joined', the tutorial
    'the flag itself is printed multiple times' -> both renderings are accepted"""
    return (f["type"] == "multi[str]" and f.get("argstr") is not None
            and not f["argstr"].endswith("...") and isinstance(v, list) and len(v) > 1)


def acceptable(spec: dict, rv: dict, append_args=None) -> list[list[str]]:
    """all argument vectors the statement and the documentation allow; the first one is argv()"""
    open_fields = [f["name"] for f in spec["fields"] if two_readings(f, rv[f["name"]])]
    out = []
    for choice in itertools.product((False, True), repeat=len(open_fields)):
        joined = {n for n, c in zip(open_fields, choice) if c}
        vec = executable(spec)
        try:
            for f in ordered(spec["fields"]):
                vec += render(f, rv[f["name"]], multi_joined=f["name"] in joined)
        except Undefined:
            if not joined:
                raise
            continue
        out.append(vec + list(append_args or []))
    return out


def value_args(spec: dict, rv: dict, multi_joined=False) -> list[tuple[str, str, list[str]]]:
    """(field name, reference argument, acceptable spellings) for every reference argument that
    carries a str/path element of a field: what C23 requires to be present in the executed argv.
    The acceptable spellings add the element followed by the separator for '...' lists (C22's
    separator defect leaves the value verbatim inside the argument)."""
    out = []
    for f in spec["fields"]:
        v = rv[f["name"]]
        if f["type"] not in ("str", "file", "list[str]", "multi[str]"):
            continue
        joined_reading = multi_joined and two_readings(f, v)
        try:
            args = render(f, v, multi_joined=joined_reading)
        except Undefined:
            continue
        if not args:
            continue
        a, rep = _base_argstr(f)
        flag_pieces = set()
        if "{" in a:
            flag_pieces = {p for p in a.split() if "{" not in p}
        elif a:
            flag_pieces = {a}
        sep = f.get("sep") or " "
        els = elements(f, v)
        carries = els if els is not None else [to_str(v)]
        if joined_reading:
            carries, els = [sep.join(els)], None
        for arg in args:
            if arg in flag_pieces and arg not in carries:
                continue
            ok = [arg]
            if rep and els is not None and f["type"] != "multi[str]" and sep.strip():
                ok.append(arg + sep)
            out.append((f["name"], arg, ok))
    return out


# ---------------------------------------------------------------------------- defect models
GAPFILL, SEPREP, FALSY, RETOK, TPLSTRIP = "gapfill", "seprepeat", "falsy", "retok", "tplstrip"
ALL_DEFECTS = (GAPFILL, SEPREP, FALSY, RETOK, TPLSTRIP)
POSIX_BLANKS = " \t\r\n"
CLASSALPHA = "classalpha"  # only for definitions in the class form; not part of ALL_DEFECTS


class Raises:
    """model outcome: the command cannot be built, `kind` names the exception type"""

    def __init__(self, kind, where=""):
        self.kind, self.where = kind, where

    def __eq__(self, other):
        return isinstance(other, Raises) and other.kind == self.kind

    def __repr__(self):
        return f"Raises({self.kind})"


def ordered_gapfill(fields):
    """Defect model GAPFILL: every unpositioned field is given the lowest free slot of
    0..len(fields) (slot 0 = executable, a negative position p blocks slot len(fields)+1+p) and
    is then sorted together with the explicitly positioned fields; explicit positions above a free
    slot therefore end up *after* unpositioned fields."""
    n = len(fields) + 1
    taken = {0}
    for f in fields:
        p = f.get("position")
        if p is not None:
            taken.add(p if p >= 0 else n + p)
    free = [i for i in range(0, n) if i not in taken]
    keyed = []
    for f in fields:
        p = f.get("position")
        if p is None:
            p = free.pop(0)
        keyed.append((p, f))
    nonneg = sorted((k for k in keyed if k[0] >= 0), key=lambda k: k[0])
    neg = sorted((k for k in keyed if k[0] < 0), key=lambda k: k[0])
    return [f for _, f in nonneg + neg]


def split_cmd_model(s: str):
    """Defect model RETOK: the string built for a field is tokenised again with POSIX shell
    rules, then one level of enclosing quotes is stripped."""
    try:
        toks = shlex.split(s, posix=True)
    except ValueError:
        return Raises("ValueError", "shlex")
    out = []
    for t in toks:
        m = re.match("(['\"])(.*)\\1$", t)
        out.append(m.group(2) if m else t)
    return out


def _strip_ends(pieces: list[str]) -> list[str]:
    """Defect model TPLSTRIP on reference arguments: the string formatted from a template is
    stripped with str.strip(), which also removes the whitespace characters that are not POSIX
    blanks (NO-BREAK SPACE, IDEOGRAPHIC SPACE, FF, VT, ...) from its two ends"""
    pieces = list(pieces)
    while pieces and not pieces[-1].strip():
        pieces.pop()
    while pieces and not pieces[0].strip():
        pieces.pop(0)
    if pieces:
        pieces[-1] = pieces[-1].rstrip()
        pieces[0] = pieces[0].lstrip()
    return pieces


def _one_stripped(f, s: str, a: str) -> list[str]:
    return _strip_ends(_one(f, s, a))


def _strings(f, v, defects) -> list:
    """per-field chunks as the RETOK model sees them: list[str] = verbatim arguments,
    str = a built string that is tokenised again.  A string formatted from a template loses the
    POSIX blanks at its ends (which the tokeniser would drop anyway; it matters for a backslash
    in front of a trailing blank) and, with TPLSTRIP, all other str.strip() whitespace too."""
    if f.get("argstr") is None or v is None:
        return []
    a, rep = _base_argstr(f)
    ph = "{" + f["name"] + "}"
    if f["type"] == "bool":
        return [[a]] if v is True else []
    strip = (lambda x: x.strip()) if TPLSTRIP in defects else (lambda x: x.strip(POSIX_BLANKS))

    def one(s, falsy):  # string built for one value
        if ph in a:
            return strip(a.replace(ph, s))
        if falsy and FALSY in defects:
            return ""
        return f"{a} {s}"

    els = elements(f, v)
    if els is None:
        return [one(to_str(v), v == 0 or v == "")]
    if f["type"] == "multi[str]":
        return [one(e, e == "") for e in els]
    sep = f.get("sep")
    sep = " " if sep is None else sep
    if rep:
        if ph in a:
            parts = [" " + strip(a.replace(ph, e)) for e in els]
        else:
            parts = [f" {a} {e}" for e in els]
        return [(sep if SEPREP in defects else " ").join(parts)]
    joined = sep.join(els)
    return [one(joined, joined == "")]


def model(spec, rv, append_args, defects) -> list[str] | Raises:
    """argv predicted when exactly the given defects are present.  Without RETOK the strings are
    split at blanks only where the reference splits them (so values stay intact)."""
    defects = frozenset(defects)
    fields = spec["fields"]
    if CLASSALPHA in defects:
        # Defect model CLASSALPHA: the fields of a definition written as a class are collected
        # with dir(klass), i.e. sorted by name, and that order takes the place of the definition
        # order (for unpositioned fields and for the gap filling above)
        if spec.get("style") != "class":
            raise Undefined("not a class-form definition")
        fields = sorted(fields, key=lambda f: f["name"])
    order = ordered_gapfill(fields) if GAPFILL in defects else ordered(fields)
    out = executable(spec)
    for f in order:
        v = rv[f["name"]]
        if RETOK in defects:
            for chunk in _strings(f, v, defects):
                if isinstance(chunk, list):
                    out += chunk
                    continue
                toks = split_cmd_model(chunk)
                if isinstance(toks, Raises):
                    return toks
                out += toks
        else:
            out += _render_with(f, v, defects)
    return out + list(append_args or [])


def _render_with(f, v, defects):
    """reference rendering with the content defects SEPREP / FALSY / TPLSTRIP switched on"""
    if f.get("argstr") is None or v is None:
        return []
    a, rep = _base_argstr(f)
    ph = "{" + f["name"] + "}"
    els = elements(f, v)
    one = _one_stripped if (TPLSTRIP in defects and ph in a) else _one
    if FALSY in defects and ph not in a and f["type"] != "bool":
        if els is None and (v == 0 or v == ""):
            return []
        if f["type"] == "multi[str]":
            els = [e for e in els if e != ""]
            out = []
            for e in els:
                out += one(f, e, a)
            return out
    if SEPREP in defects and rep and els is not None and f["type"] != "multi[str]":
        sep = f.get("sep")
        sep = " " if sep is None else sep
        if sep.strip():
            out = []
            for i, e in enumerate(els):
                piece = one(f, e, a)
                if i < len(els) - 1:
                    piece = piece[:-1] + [piece[-1] + sep]
                out += piece
            return out
    return render(f, v, one=one)


def explain(spec, rv, append_args, observed, candidates=ALL_DEFECTS):
    """smallest set of defects whose model equals `observed` (a list or a Raises), or None"""
    for k in range(0, len(candidates) + 1):
        for s in itertools.combinations(candidates, k):
            try:
                if model(spec, rv, append_args, s) == observed:
                    return s
            except Undefined:
                continue
    return None


# ---------------------------------------------------------------------------- cmdline
def naive_cmdline(args: list[str]) -> str:
    """Defect model for C24: arguments are quoted with '...' only when they contain a space and
    nothing inside them is escaped."""
    s = args[0]
    for a in args[1:]:
        s += (" '" + a + "'") if " " in a else (" " + a)
    return s
