"""Reference model for C37: a dict/set model of pydra.engine.graph.DiGraph under the protocol the
repository's tests use.

State
  nodes   names still in the graph ("remaining")
  wip     names marked removed by remove_nodes whose connections have not been removed yet
  edges   set of (u, v) names; edges of a wip node stay until its connections are removed
  sorted_once  whether the graph has ever been sorted (removal is only used on a sorted graph)

Operations (JSON specs)
  ["add_nodes", [names]]                names neither remaining nor wip
  ["add_edges", [[u, v], ...]]          u, v remaining, not yet connected, keeps the graph acyclic;
                                        only while no node is marked removed (the edges setter
                                        re-validates every stored edge against the remaining nodes
                                        and rejects the pending edges of a wip node - the tests
                                        add edges only after remove_nodes_connections)
  ["sort", "method" | "property"]       graph.sorting()  /  reading graph.sorted_nodes
  ["remove", [names]]                   remove_nodes: remaining nodes without any predecessor
                                        (a wip predecessor counts: "has to wait"), graph sorted
  ["disconnect", [names]]               remove_nodes_connections: wip nodes
  ["remove_successors", name]           remove_successors_nodes: a wip node; drops it, everything
                                        reachable from it and every edge touching those
"""
from __future__ import annotations

NAMES = ["a", "b", "c", "d", "e", "f"]


class GraphModel:
    def __init__(self, nodes=(), edges=()):
        self.nodes: set[str] = set(nodes)
        self.edges: set[tuple[str, str]] = {tuple(e) for e in edges}
        self.wip: set[str] = set()
        self.sorted_once = False

    # ------------------------------------------------------------ queries
    def preds(self, n):
        return {u for u, v in self.edges if v == n}

    def succs(self, n):
        return {v for u, v in self.edges if u == n}

    def descendants(self, n):
        seen, todo = set(), [n]
        while todo:
            for s in self.succs(todo.pop()):
                if s not in seen:
                    seen.add(s)
                    todo.append(s)
        return seen

    def addable_nodes(self):
        return [n for n in NAMES if n not in self.nodes and n not in self.wip]

    def addable_edges(self):
        out = []
        for u in sorted(self.nodes):
            for v in sorted(self.nodes):
                if u != v and (u, v) not in self.edges and u not in self.descendants(v):
                    out.append((u, v))
        return out

    def removable(self):
        return [n for n in sorted(self.nodes) if not self.preds(n)]

    def op_allowed(self, op) -> bool:
        kind = op[0]
        if kind == "add_nodes":
            return len(set(op[1])) == len(op[1]) and all(n in self.addable_nodes() for n in op[1])
        if kind == "add_edges":
            if self.wip:
                return False
            m = self.clone()
            for u, v in op[1]:
                if (u, v) not in m.addable_edges():
                    return False
                m.edges.add((u, v))
            return True
        if kind == "sort":
            return True
        if kind == "remove":
            return (self.sorted_once and len(set(op[1])) == len(op[1]) and bool(op[1])
                    and all(n in self.removable() for n in op[1]))
        if kind == "disconnect":
            return bool(op[1]) and len(set(op[1])) == len(op[1]) and all(n in self.wip for n in op[1])
        if kind == "remove_successors":
            return op[1] in self.wip
        return False

    def clone(self):
        m = GraphModel(self.nodes, self.edges)
        m.wip = set(self.wip)
        m.sorted_once = self.sorted_once
        return m

    # ------------------------------------------------------------ transitions
    def apply(self, op):
        kind = op[0]
        if kind == "add_nodes":
            self.nodes |= set(op[1])
        elif kind == "add_edges":
            self.edges |= {tuple(e) for e in op[1]}
        elif kind == "sort":
            self.sorted_once = True
        elif kind == "remove":
            self.nodes -= set(op[1])
            self.wip |= set(op[1])
        elif kind == "disconnect":
            for n in op[1]:
                self.edges = {(u, v) for u, v in self.edges if u != n}
                self.wip.discard(n)
        elif kind == "remove_successors":
            n = op[1]
            gone = self.descendants(n) | {n}
            self.edges = {(u, v) for u, v in self.edges if u not in gone and v not in gone}
            self.nodes -= gone
            self.wip.discard(n)
        else:
            raise ValueError(op)

    # ------------------------------------------------------------ the invariant
    def order_problems(self, sorted_names):
        """[] when `sorted_names` lists each remaining node exactly once, every node after all
        of its remaining predecessors"""
        probs = []
        if sorted(sorted_names) != sorted(self.nodes):
            dup = sorted({n for n in sorted_names if sorted_names.count(n) > 1})
            missing = sorted(self.nodes - set(sorted_names))
            extra = sorted(set(sorted_names) - self.nodes)
            kind = "duplicate" if dup else ("missing" if missing else "stale")
            probs.append((f"sorted-nodes-not-the-remaining-nodes:{kind}",
                          dict(duplicate=dup, missing=missing, not_in_graph=extra)))
            return probs
        pos = {n: i for i, n in enumerate(sorted_names)}
        bad = sorted((u, v) for u, v in self.edges
                     if u in self.nodes and v in self.nodes and pos[u] > pos[v])
        if bad:
            probs.append(("node-sorted-before-its-predecessor", dict(edges=[list(e) for e in bad])))
        return probs
