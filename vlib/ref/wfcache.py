"""C30 operation interpreter and graph signature, shared by the process under observation (one
long history, construction cache kept) and the fresh helper interpreter (cache cleared before
every operation) - the differential oracle is "same code, cache state removed".

An operation is a JSON dict
  {"op": "construct", "wf": name, "values": {...}, "lazy": [input names], "via": "class" | "task",
   "instance": "new" | "reuse" | "mutate"}
       via=class: Workflow.construct(task, lazy=[...]);  via=task: task.construct() (lazy empty)
  {"op": "run", "wf": name, "values": {...}, "instance": ...,
   "split": null | {"input": n, "values": [...], "combine": bool}}
       task(cache_root=<fresh dir>, worker="debug"); a split op leaves the split input out of values
  {"op": "clear", "wf": null | name, "values": {...}}      Workflow.clear_cache([task])
instance: new = a new task object; reuse = the earlier object of this history that holds the same
values (if any); mutate = the most recent object of the definition, updated by attribute assignment.
and its observation a JSON value: the graph signature / the outputs / null.
"""
from __future__ import annotations

import attrs

from vlib import scratchdir


def plain(x):
    """JSON-able, type-preserving enough rendering of node input values / outputs"""
    from pydra.engine.lazy import LazyInField, LazyOutField
    from pydra.utils.typing import StateArray

    if isinstance(x, LazyOutField):
        return {"$out": [x._node.name, x._field]}
    if isinstance(x, LazyInField):
        return {"$in": x._field}
    if isinstance(x, StateArray):  # a split-over list given eagerly; same content as the list
        return [plain(i) for i in x]
    if isinstance(x, (list, tuple)):
        return [plain(i) for i in x]
    if x is attrs.NOTHING:
        return {"$nothing": True}
    if isinstance(x, (str, int, float, bool)) or x is None:
        return x
    if isinstance(x, dict):
        return {"$dict": sorted((str(k), plain(v)) for k, v in x.items())}
    return {"$repr": repr(x)[:200]}


def resolve_in(v, wf, depth=0):
    """resolve workflow-input lazy fields through `wf.inputs` (a still-lazy input stays lazy)"""
    from pydra.engine.lazy import LazyInField

    if isinstance(v, LazyInField) and depth < 3:
        w = getattr(wf.inputs, v._field)
        if isinstance(w, LazyInField):
            return w if w._field == v._field else resolve_in(w, wf, depth + 1)
        return w
    return v


def signature(wf):
    """node names, task types, edges, splitters/combiners and node input values of a constructed
    workflow, without calling anything that mutates it"""
    from pydra.engine.lazy import LazyInField, LazyOutField
    from pydra.utils.general import attrs_values

    nodes = []
    edges = []
    for node in wf.nodes:
        vals = {}
        for k, v in attrs_values(node._task).items():
            if k in ("function", "constructor"):
                continue
            if isinstance(v, LazyOutField):
                edges.append([v._node.name, v._field, node.name, k])
                # the upstream node object must be the one registered in THIS workflow
                if wf._nodes.get(v._node.name) is not v._node:
                    vals[k] = {"$foreign-node": v._node.name}
                    continue
            if isinstance(v, LazyInField) and v._workflow is not wf:
                vals[k] = {"$foreign-workflow-input": v._field}
                continue
            vals[k] = plain(resolve_in(v, wf))
        st = node.state
        nodes.append(dict(
            name=node.name,
            type=type(node._task).__name__,
            inputs=vals,
            splitter=plain(st.splitter) if st else None,
            combiner=sorted(plain(st.combiner)) if st else None,
            task_splitter=plain(node._task._splitter),
            task_combiner=sorted(plain(node._task._combiner or [])),
        ))
    outs = {k: plain(v) for k, v in attrs_values(wf.outputs).items()}
    wf_inputs = {k: plain(v) for k, v in attrs_values(wf.inputs).items() if k != "constructor"}
    return dict(name=wf.name, nodes=nodes, edges=sorted(edges), outputs=outs, inputs=wf_inputs)


def outputs_json(wfname, outs):
    from vlib.tasks_wfcache import OUTS

    if isinstance(outs, (list, tuple)):  # uncombined outer split: list of Outputs objects
        return [[plain(getattr(o, f)) for o in outs] for f in OUTS[wfname]]
    return [plain(getattr(outs, f)) for f in OUTS[wfname]]


class Interp:
    """executes operations; keeps the task instances of the history so that an operation can
    take a new instance, `reuse` an earlier instance holding the same values, or `mutate` the most
    recent instance of the definition by attribute assignment (both exercise the per-instance memo
    of WorkflowTask.construct)"""

    def __init__(self):
        self.instances = {}   # (wf, values) -> instance
        self.last = {}        # wf -> most recent instance
        self.memo_values = {}  # id(instance) -> values the instance held when its memo was set
        self.keep = []
        self.seen_ids = {}    # id(Workflow) -> the object (kept alive so ids stay unique)
        self.info = {}

    @staticmethod
    def key(op):
        return repr((op["wf"], sorted(op["values"].items(), key=repr)))

    def task(self, op):
        from vlib.tasks_wfcache import DEFS

        mode = op.get("instance") or ("reuse" if op.get("reuse") else "new")
        t = None
        if mode == "reuse" and self.key(op) in self.instances:
            t = self.instances[self.key(op)]
            self.info["instance"] = "reused"
        elif mode == "mutate" and op["wf"] in self.last and not op.get("split"):
            t = self.last[op["wf"]]
            for k, v in op["values"].items():
                setattr(t, k, v)
            self.info["instance"] = "mutated"
        if t is None:
            t = DEFS[op["wf"]](**op["values"])
            self.keep.append(t)
            self.info["instance"] = "new"
        else:
            self.info["memo_before"] = getattr(t, "_constructed", None) is not None
            if id(t) in self.memo_values:
                self.info["memo_values"] = self.memo_values[id(t)]
        # an instance is filed under the values it holds NOW
        self.instances = {k: v for k, v in self.instances.items() if v is not t}
        self.instances[self.key(op)] = t
        self.last[op["wf"]] = t
        return t

    def do(self, op):
        """-> observation; self.info tells which cache path was taken"""
        from pydra.engine.workflow import Workflow
        from vlib import tasks_wfcache as TW

        self.info = {}
        kind = op["op"]
        if kind == "clear":
            if op.get("wf"):
                Workflow.clear_cache(TW.DEFS[op["wf"]](**op["values"]))
            else:
                Workflow.clear_cache()
            return None
        before = dict(TW.CALLS)
        t = self.task(op)
        wf = None
        try:
            if kind == "construct":
                if op.get("via") == "task":  # WorkflowTask.construct: the path the engine uses
                    assert not op.get("lazy")
                    wf = t.construct()
                else:
                    wf = Workflow.construct(t, lazy=list(op.get("lazy") or []))
                obs = signature(wf)
            elif kind == "run":
                d = scratchdir.new("c30run")
                try:
                    tt = t
                    sp = op.get("split")
                    if sp:  # `values` of a split op leaves the split input out
                        tt = t.split(**{sp["input"]: sp["values"]})
                        if sp.get("combine"):
                            tt = tt.combine(sp["input"])
                    outs = tt(cache_root=d, worker="debug")
                    obs = outputs_json(op["wf"], outs)
                    wf = getattr(t, "_constructed", None) if not sp else None
                finally:
                    scratchdir.rm(d)
            else:
                raise ValueError(kind)
        finally:
            self.info["calls"] = {k: v - before.get(k, 0) for k, v in TW.CALLS.items()
                                  if v != before.get(k, 0)}
            if getattr(t, "_constructed", None) is not None and id(t) not in self.memo_values:
                self.memo_values[id(t)] = dict(op["values"])
        if wf is not None:
            self.info["identity_seen"] = id(wf) in self.seen_ids
            self.seen_ids[id(wf)] = wf
        return obs
