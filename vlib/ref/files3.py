"""Reference models for the file properties (no pydra import).

C09: an in-memory content model of a few files + one directory, and a *defect model* of a hash
     cache keyed by (kind, path, mtime_ns) - used only to CLASSIFY a deviation, never to decide it.
C33/C34: structural helpers on nested value specs (see vlib/gen/files3.py for the grammar).
"""
from __future__ import annotations

# ----------------------------------------------------------------------------- C09
FILES = ["f.txt", "g.txt", "d/f.txt", "d/g.txt"]     # colliding basenames in two directories
DIRS = ["d"]
LINKS = {"l.txt": "f.txt"}                           # symbolic link -> file it points to
TARGETS = FILES + DIRS + list(LINKS)
# symbolic links that are ENTRIES of a directory (never hash targets themselves): link path ->
# (file it points to, link text).  One points out of the directory, one to a sibling.  Which of
# them exist is part of a case ("links"); they are created up front and never removed or replaced.
DIRLINKS = {"d/lk.txt": ("g.txt", "../g.txt"), "d/li.txt": ("d/f.txt", "f.txt")}
CONTENTS = ["AAAA", "BBBB", "CCCC", "DD", "EEEEEEEE", ""]   # 0..2 same size, 3..5 other sizes
ABS_MTIMES = [1_600_000_000_000_000_000, 1_600_000_000_000_001_000, 1_700_000_123_456_789_012]


class FsModel:
    """path -> content for the regular files; a directory's content is the set of (name, content)
    of the files below it (which is what a content hash of a directory may depend on).  A symbolic
    link below a directory counts as an entry with the content of the file it points to (None while
    it dangles)."""

    def __init__(self, init: dict, links=()):
        self.files = dict(init)
        self.links = {ln: DIRLINKS[ln][0] for ln in links}

    def exists(self, t):
        if t in DIRS:
            return True  # the directory itself is created up front and never removed
        if t in LINKS:       # created up front too; dangling while its target is missing
            return LINKS[t] in self.files
        return t in self.files

    def content(self, t):
        if t in DIRS:
            pre = t + "/"
            ents = [(p[len(pre):], c) for p, c in self.files.items() if p.startswith(pre)]
            ents += [(ln[len(pre):], self.files.get(tgt)) for ln, tgt in self.links.items()
                     if ln.startswith(pre)]
            return tuple(sorted(ents, key=lambda e: e[0]))
        return self.files[LINKS.get(t, t)]

    def write(self, p, c):
        self.files[p] = c

    def replace(self, src, dst):
        self.files[dst] = self.files.pop(src)

    def copy(self, src, dst):
        self.files[dst] = self.files[src]

    def affected(self, p):
        """targets whose content can change when file p changes"""
        return ([p] + [d for d in DIRS if p.startswith(d + "/")]
                + [ln for ln, tgt in LINKS.items() if tgt == p]
                + self.via_link(p))

    def via_link(self, p):
        """directories that see file p ONLY through a symbolic link below them"""
        return [d for d in DIRS if not p.startswith(d + "/")
                and any(tgt == p and ln.startswith(d + "/") for ln, tgt in self.links.items())]


class KeyCacheModel:
    """Defect model 'a hash is stored once under (kind, path, mtime_ns) and served from there
    for ever, whatever the content is by then'."""

    def __init__(self):
        self.store = {}

    def predict(self, key, fresh):
        return self.store.setdefault(key, fresh)


# ----------------------------------------------------------------------------- C33 / C34
def leaves(spec, path=()):
    """(position, leaf spec) of a nested value spec in traversal order"""
    t = spec[0]
    if t in ("list", "tuple"):
        for i, s in enumerate(spec[1]):
            yield from leaves(s, path + (i,))
    elif t == "dict":
        for k, s in spec[1]:
            yield from leaves(s, path + (k,))
    else:
        yield path, spec


def file_leaves(spec):
    return [(p, s) for p, s in leaves(spec) if s[0] in ("file", "dir")]


def set_leaves(spec):
    """(position, leaf spec) of the multi-path file-set leaves ["set", [file leaf, ...]]"""
    return [(p, s) for p, s in leaves(spec) if s[0] == "set"]


def set_scattered(leaf):
    """the member paths of a file-set leaf do not all lie in one directory"""
    return len({m[1] for m in leaf[1]}) > 1


def _dups(xs):
    return len(set(xs)) != len(xs)


def collation_unsatisfiable(leaf, collation, allowed_bits, leave_bit=1):
    """Reason why fileformats' documentation lets FileSet.copy REFUSE this file-set leaf with this
    collation (else None): `siblings` "requires that the file/dir name in fspaths are unique",
    `adjacent` additionally "that the file-set only includes files/dirs with unique suffixes"
    (suffix = after the first '.' according to CopyCollation, after the last one according to the
    default extension decomposition of FileSet.copy: either reading excuses a refusal), and paths
    spread over directories cannot be collated by a mode that only allows leaving them in place."""
    if collation not in ("siblings", "adjacent") or len(leaf[1]) < 2:
        return None
    names = [m[2] for m in leaf[1]]
    if _dups(names):
        return "duplicate_names"
    if collation == "adjacent":
        first = [n[n.index("."):] if "." in n else "" for n in names]
        last = [n[n.rindex("."):] if "." in n else "" for n in names]
        if _dups(first) or _dups(last):
            return "duplicate_extensions"
    if set_scattered(leaf) and not (allowed_bits & ~leave_bit):
        return "scattered_but_mode_only_leaves"
    return None


def share_a_stem(names):
    """the names consist of ONE stem followed by nothing or by '.<extension>' - under some split
    of the first name into stem and extension (fileformats documents both first-dot and last-dot
    extensions)"""
    names = list(names)
    n0 = names[0]
    for i in range(1, len(n0) + 1):
        if i < len(n0) and n0[i] != ".":
            continue
        s = n0[:i]
        if all(n == s or (n.startswith(s) and n[len(s)] == ".") for n in names):
            return True
    return False


def depth(spec):
    t = spec[0]
    if t in ("list", "tuple"):
        return 1 + max([depth(s) for s in spec[1]] or [0])
    if t == "dict":
        return 1 + max([depth(s) for _, s in spec[1]] or [0])
    return 0
