"""Reference model for C38: which mount does a path sit on.

Independent of pydra: works on path *components* (absolute POSIX paths).  A mount table is a
collection of (mount_point, fstype) pairs; the mount of a path is the entry whose mount point is
the longest component-wise prefix of the path, and ("/", "ext4") when no entry qualifies (that is
the documented fall-back of MountIndentifier.get_mount: the table only lists CIFS mounts and what
is mounted below them).

`string_prefix_lookup` is the *defect model* for the behaviour observed on the pinned tree
(str.startswith instead of a component comparison); it is order-independent on purpose (longest
string prefix), so a change of the table order is never explained by it.
"""
from __future__ import annotations

DEFAULT = ("/", "ext4")


def comps(path) -> list[str]:
    return [c for c in str(path).split("/") if c]


def norm(path) -> str:
    return "/" + "/".join(comps(path))


def is_component_prefix(mount, path) -> bool:
    cm, cp = comps(mount), comps(path)
    return cp[: len(cm)] == cm


def lookup(table, path):
    """(mount_point, fstype) of the longest component-prefix mount, DEFAULT if none"""
    best = None
    for mp, fs in table:
        if is_component_prefix(mp, path):
            if best is None or len(comps(mp)) > len(comps(best[0])):
                best = (norm(mp), fs)
    return best if best is not None else DEFAULT


def candidates(table, path):
    return [(mp, fs) for mp, fs in table if is_component_prefix(mp, path)]


def string_prefix_lookup(table, path):
    """defect model: longest entry that is a *string* prefix of the path"""
    best = None
    for mp, fs in table:
        if str(path).startswith(mp):
            if best is None or len(mp) > len(best[0]):
                best = (mp, fs)
    return (norm(best[0]), best[1]) if best is not None else DEFAULT


def string_prefix_confusable(table, path) -> bool:
    """some entry is a string prefix but not a component prefix of the path"""
    return any(str(path).startswith(mp) and not is_component_prefix(mp, path) for mp, _ in table)


def cifs_table(mounts):
    """what a table restricted to CIFS mounts and the mounts below them must contain"""
    cifs = [mp for mp, fs in mounts if fs == "cifs"]
    return [(mp, fs) for mp, fs in mounts if any(is_component_prefix(c, mp) for c in cifs)]


def cifs_table_string_prefix(mounts):
    """defect model of the table filter (string prefix)"""
    cifs = [mp for mp, fs in mounts if fs.lower() == "cifs"]
    return [(mp, fs) for mp, fs in mounts if any(mp.startswith(c) for c in cifs)]
