"""Reference models for the cache-history properties (C11, C13), written from the property
statements only; nothing here imports pydra.

C11  CacheModel: which cache locations hold a complete result for which identity, and how often
     every identity must have been executed after a submission.
C13  FailModel: per identity, whether a successful result is stored.
"""
from __future__ import annotations

import copy

# --------------------------------------------------------------------------------------- C11
# pool of submittable things: name -> ("task", ident) | ("wf", wf_ident, [node idents in order]);
# a node ident that names a "wf" entry of the pool is a NESTED workflow (a workflow as a node)
POOL = {
    "A": ("task", "A"),          # Cnt(x=1)
    "B": ("task", "B"),          # Cnt(x=2)
    "C": ("task", "C"),          # Dbl(x=1)
    "W": ("wf", "W", ["A", "B"]),  # Chain(x=1): a = Cnt(1) -> b = Cnt(a.out = 2)
    "S": ("wf", "S", ["A", "E"]),  # Cnt.split(x=[1, 7]) (implicit workflow); E = Cnt(x=7)
    "N": ("wf", "N", ["W", "C"]),  # Outer(x=1): w = Chain(x=1) (a workflow as a node), c = Dbl(x=1)
}
IDENTS = ["A", "B", "C", "E", "W", "S", "N"]
EXPECTED_OUT = {"A": 2, "B": 3, "C": 2, "E": 8, "W": 3, "S": [2, 8], "N": 3}


def is_wf(ident):
    return ident in POOL and POOL[ident][0] == "wf"


def all_idents(name):
    """the identity of a pool entry and of everything inside it (any depth)"""
    entry = POOL[name]
    out = [entry[1]]
    if entry[0] == "wf":
        for n in entry[2]:
            out += all_idents(n) if is_wf(n) else [n]
    return out
COUNTED = ["A", "B", "C", "E"]  # identities whose body appends to the log


class CacheModel:
    """`shadow=False`: the statement ("a complete result present in any listed cache is reused").
    `shadow=True`: defect model - the lookup stops at the first listed location that merely has
    a directory for the identity, complete or not."""

    def __init__(self, shadow=False):
        self.shadow = shadow
        self.holds = {i: set() for i in IDENTS}       # ident -> roots with a complete result
        self.incomplete = {}                          # (ident, root) -> kind of leftover dir
        self.counts = {i: 0 for i in COUNTED}

    def clone(self, shadow=None):
        m = copy.deepcopy(self)
        if shadow is not None:
            m.shadow = shadow
        return m

    # -- lookups
    def has_dir(self, ident, root):
        return root in self.holds[ident] or (ident, root) in self.incomplete

    def found(self, ident, caches):
        """root index serving the identity, or None"""
        for r in caches:
            if r in self.holds[ident]:
                return r
            if self.shadow and (ident, r) in self.incomplete:
                return None
        return None

    # -- operations
    def plant(self, ident, root, kind):
        if self.has_dir(ident, root):
            return False
        self.incomplete[(ident, root)] = kind
        return True

    def _execute(self, ident, root, events):
        if ident in self.counts:
            self.counts[ident] += 1
        self.holds[ident].add(root)
        self.incomplete.pop((ident, root), None)
        events.append(("exec", ident))

    def submit(self, name, root, ro, rerun, prop):
        """returns the list of events: ("exec", ident) | ("hit", ident, root_served_from)"""
        caches = [root] + list(ro)
        events = []
        self._submit(POOL[name][1], is_wf(name), root, caches, rerun, prop, events)
        return events

    def _submit(self, ident, wf, root, caches, rerun, prop, events):
        """one job (task or workflow, at any nesting depth): served from a cache unless `rerun`;
        the jobs inside a workflow see `rerun and prop` ("every task inside a workflow")"""
        src = None if rerun else self.found(ident, caches)
        if src is not None:
            events.append(("hit", ident, src))
            return
        if wf:
            for n in POOL[ident][2]:
                self._submit(n, is_wf(n), root, caches, rerun and prop, prop, events)
        self._execute(ident, root, events)


# --------------------------------------------------------------------------------------- C13
class FailModel:
    """One cache root.  state[kind] in {"none", "failed", "ok"}: what the statement allows the
    cache to hold for the identity.  A failure is never served: only "ok" stops execution."""

    def __init__(self, kinds):
        self.state = {k: "none" for k in kinds}
        self.flag = {k: "fail" for k in kinds}
        self.runs = {k: 0 for k in kinds}

    def flip(self, kind, value):
        self.flag[kind] = value

    def submit(self, kind, rerun):
        """-> ("cached-ok" | "ok" | "fail", state before the submission)"""
        before = self.state[kind]
        if before == "ok" and not rerun:
            return "cached-ok", before
        self.runs[kind] += 1
        if self.flag[kind] == "fail":
            self.state[kind] = "failed"
            return "fail", before
        self.state[kind] = "ok"
        return "ok", before
