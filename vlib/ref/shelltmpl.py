"""Reference models for C25 (command-line templates) and C26 (output path templates).

Nothing in here calls pydra's template parser or its path-template code: the expected field table,
the expected argument vector and the expected output file names are written down from the
documentation (docs/source/tutorial/5-shell.ipynb, shell.define docstring, shell.outarg
docstring, _element_formatting docstring) over JSON token specs.

C25 token spec (one per template field, in template order)
  {"kind": "arg"|"flag"|"out"|"modify", "name": str, "opt": None|"--opt"|"-o",
   "type": None|"int"|"float"|"str"|<file type>|"int,str"|"int,...",
   "mod": None|"?"|"+"|"*"|"="|"$", "default": json, "default_src": str, "tmpl": str}
value spec (per field name; absent = not supplied)
  scalars as JSON; {"file": basename} / {"dir": basename} for file-system inputs (created by the
  check under <case dir>/src); lists for tuples and for multi (+/*) fields; out fields: true or
  {"path": basename} (explicit path under <case dir>/explicit).
"""
from __future__ import annotations

import keyword
import string
from pathlib import Path, PurePosixPath

# --------------------------------------------------------------------------- type table
SCALARS = {"int": int, "float": float, "str": str}

# typestr -> (module, class name, extension literal or None, is_directory)
FILE_TYPES = {
    "file": ("fileformats.generic", "File", None, False),
    "generic/file": ("fileformats.generic", "File", None, False),
    "directory": ("fileformats.generic", "Directory", None, True),
    "generic/directory": ("fileformats.generic", "Directory", None, True),
    "fs-object": ("fileformats.generic", "FsObject", None, False),
    "generic/fs-object": ("fileformats.generic", "FsObject", None, False),
    "text/csv": ("fileformats.text", "Csv", ".csv", False),
    "text/tsv": ("fileformats.text", "Tsv", ".tsv", False),
    "application/json": ("fileformats.application", "Json", ".json", False),
    "image/png": ("fileformats.image", "Png", ".png", False),
    "application/gzip": ("fileformats.application", "Gzip", ".gz", False),
}
MAGIC = {".png": b"\x89PNG\r\n\x1a\n", ".gz": b"\x1f\x8b\x08\x00", ".json": b"{}", ".csv": b"a,b\n1,2\n",
         ".tsv": b"a\tb\n1\t2\n"}

RESERVED = {"executable", "append_args", "cmdline", "split", "combine", "inputs", "Outputs",
            "stdout", "stderr", "return_code"}


def valid_field_name(n: str) -> bool:
    return (n.isidentifier() and not keyword.iskeyword(n) and not n.startswith("_")
            and n not in RESERVED and all(c in string.ascii_letters + string.digits + "_" for c in n))


def is_file_type(t):
    return t is None or t in FILE_TYPES


def is_tuple_type(t):
    return t is not None and "," in t


def type_ext(t):
    return FILE_TYPES[t][2] if t in FILE_TYPES else None


def type_is_dir(t):
    return t in FILE_TYPES and FILE_TYPES[t][3]


def _cls(t):
    import importlib

    mod, name, _, _ = FILE_TYPES[t]
    return getattr(importlib.import_module(mod), name)


def base_type(tok):
    """python type written by `name[:type]` (before ?,+,*)"""
    t = tok.get("type")
    if t is None:
        if tok["kind"] == "flag":
            return bool
        if tok.get("opt") and tok["kind"] != "out":
            return str
        from fileformats.generic import FsObject

        return FsObject
    if t in SCALARS:
        return SCALARS[t]
    if t in FILE_TYPES:
        return _cls(t)
    parts = t.split(",")
    if len(parts) == 2 and parts[1] == "...":
        return tuple[SCALARS[parts[0]], ...]
    return tuple[tuple(SCALARS[p] for p in parts)]


def type_class(tok):
    t = tok.get("type")
    if tok["kind"] == "flag":
        return "bool"
    if t is None:
        return "untyped"
    if t in SCALARS:
        return "scalar"
    if t in FILE_TYPES:
        return "fs"
    return "vartuple" if t.endswith("...") else "tuple"


def form(tok):
    """short name of the documented form a token instantiates (used in signatures/labels)"""
    k = tok["kind"]
    if k == "arg" and tok.get("opt"):
        k = "optarg"
    if k == "out" and tok.get("opt"):
        k = "optout"
    return f"{k}:{type_class(tok)}{tok.get('mod') or ''}"


# --------------------------------------------------------------------------- template text
def token_words(tok) -> list[str]:
    inner = tok["name"]
    if tok["kind"] == "out":
        inner = "out|" + inner
    elif tok["kind"] == "modify":
        inner = "modify|" + inner
    if tok.get("type"):
        inner += ":" + tok["type"]
    mod = tok.get("mod")
    if mod in ("?", "+", "*"):
        inner += mod
    elif mod == "=":
        inner += "=" + tok["default_src"]
    elif mod == "$":
        inner += "$" + tok["tmpl"]
    if tok["kind"] == "flag":
        return [f"{tok['opt']}<{inner}>"]
    return ([tok["opt"]] if tok.get("opt") else []) + [f"<{inner}>"]


def template_text(case) -> str:
    words = list(case["exe"])
    for tok in case["tokens"]:
        words += token_words(tok)
    return " ".join(words)


# --------------------------------------------------------------------------- expected fields
MANDATORY = "<mandatory>"


def to_py(v, tok):
    """JSON default/value -> python (lists become tuples for tuple types)"""
    if is_tuple_type(tok.get("type")) and isinstance(v, list):
        return tuple(v)
    return v


def expected_fields(case) -> dict:
    """name -> dict(kind in/outarg, type, default (MANDATORY, value or 'EMPTYLIST'), argstr,
    path_template, passthrough_output)"""
    from pydra.utils.typing import MultiInputObj  # a plain typing alias, not template code

    table = {}
    for tok in case["tokens"]:
        tp = base_type(tok)
        mod = tok.get("mod")
        e = dict(name=tok["name"], outarg=tok["kind"] == "out", argstr=tok.get("opt") or "",
                 default=MANDATORY, path_template=None, passthrough=tok["kind"] == "modify",
                 form=form(tok))
        if tok["kind"] == "flag":
            e["default"] = tok.get("default", False)
        if mod in ("+", "*"):
            tp = MultiInputObj[tp]
            if mod == "*":
                e["default"] = "EMPTYLIST"
        elif mod == "?":
            tp = tp | None
            e["default"] = None
        elif mod == "=" and tok["kind"] != "flag":
            e["default"] = to_py(tok["default"], tok)
        if tok["kind"] == "out":
            if mod == "$":
                e["path_template"] = tok["tmpl"]
            else:
                e["path_template"] = tok["name"] + (type_ext(tok.get("type")) or "")
        e["type"] = tp
        table[tok["name"]] = e
    return table


def expected_executable(case):
    return case["exe"][0] if len(case["exe"]) == 1 else list(case["exe"])


# --------------------------------------------------------------------------- expected argv
def _words(v, tok, src: Path, cwd: Path):
    """argv words of ONE value of the token's base type"""
    if isinstance(v, dict):
        name = v.get("file") or v.get("dir")
        if tok["kind"] == "modify":
            return [str(cwd / name)]  # modified in place => works on a copy in the job directory
        return [str(src / name)]
    if isinstance(v, list):
        return [str(x) for x in v]
    return [str(v)]


def out_name(tok, values):
    """file name an output path template stands for (C25 sub-language: literal text plus
    {ref} to int/str fields)"""
    t = tok["tmpl"] if tok.get("mod") == "$" else tok["name"] + (type_ext(tok.get("type")) or "")
    return t.format(**{k: v for k, v in values.items() if isinstance(v, (int, str))})


def effective_values(case) -> dict:
    """supplied values completed with the template's defaults"""
    vals = dict(case.get("values") or {})
    for tok in case["tokens"]:
        n = tok["name"]
        if n in vals:
            continue
        if tok["kind"] == "flag":
            vals[n] = tok.get("default", False)
        elif tok.get("mod") == "=":
            vals[n] = tok["default"]
        elif tok.get("mod") == "*":
            vals[n] = []
        elif tok.get("mod") == "?":
            vals[n] = None
        elif tok["kind"] == "out":
            vals[n] = True
    return vals


def expected_segments(case, src: Path, cwd: Path, explicit: Path) -> list:
    """[(token, [argv words])] in template order (executable excluded)"""
    vals = effective_values(case)
    segs = []
    for tok in case["tokens"]:
        v = vals.get(tok["name"])
        opt = [tok["opt"]] if tok.get("opt") else []
        if tok["kind"] == "flag":
            seg = [tok["opt"]] if v is True else []
        elif v is None:
            seg = []
        elif tok["kind"] == "out":
            if v is True:
                seg = opt + [str(cwd / out_name(tok, vals))]
            else:
                seg = opt + [str(explicit / v["path"])]
        elif tok.get("mod") in ("+", "*"):
            seg = []
            for el in v:
                seg += opt + _words(el, tok, src, cwd)  # the flag is printed once per element
        else:
            seg = opt + _words(v, tok, src, cwd)
        segs.append((tok, seg))
    return segs


def blame(segs, observed_tail):
    """first token whose words are not found where template order puts them; None if equal"""
    pos = 0
    for tok, seg in segs:
        if observed_tail[pos:pos + len(seg)] != seg:
            return tok
        pos += len(seg)
    if pos != len(observed_tail):
        return "extra"
    return None


# =========================================================================== C26
def split_first_dot(basename: str):
    """(stem, ext) where ext is everything from the first dot ('' when there is none)"""
    i = basename.find(".", 1) if basename.startswith(".") else basename.find(".")
    return (basename, "") if i < 0 else (basename[:i], basename[i:])


def fmt_plain(v):
    return v


def c26_expected_names(template: str, refs: dict, file_ref: str | None, file_base: str | None,
                       keep: bool) -> tuple[set, str]:
    """Acceptable output file names for one (scalar-valued) template instance, and the rule used.

    refs: name -> python value for every non-file reference. Rule (independent of pydra):
      * without a file reference the name is the formatted template;
      * the file reference stands for the input's base name without directory and extension;
      * keep_extension=False: nothing of the input's extension appears;
      * keep_extension=True and the template has no extension of its own: the input's extension
        ends the name;
      * keep_extension=True and the template ends in its own extension: the template's extension
        is the extension (input extension replaced) - or kept in place, both readings of "keep"
        are accepted.
    """
    if file_ref is None:
        return {template.format(**refs)}, "no-file"
    stem, ext = split_first_dot(file_base)
    plain = template.format(**{**refs, file_ref: stem})
    if not keep or not ext:
        return {plain}, "drop" if not keep else "no-ext"
    if "." not in _literal_text(template):
        return {plain + ext}, "keep-append"
    return {plain, template.format(**{**refs, file_ref: stem + ext})}, "keep-template-ext"


def _literal_text(template: str) -> str:
    out = []
    for lit, _field, _spec, _conv in string.Formatter().parse(template):
        out.append(lit)
    return "".join(out)


def c26_prefix_drop_model(template: str, file_ref: str) -> str:
    """defect model: everything written before the file reference is lost"""
    i = template.index("{" + file_ref)
    return template[i:]


def inside(path, cache_dir) -> bool:
    """path is a direct child of cache_dir, textually and after resolving '..'"""
    p = PurePosixPath(str(path))
    if ".." in p.parts or p.name in ("", ".", ".."):
        return False
    return str(p.parent) == str(PurePosixPath(str(cache_dir)))
