"""Reference interpreter for generated workflow programs (DESIGN 3.2), written from the statement
of C03: a node fed by split upstream nodes runs once per element of the merged upstream state -
the outer product of independent upstream states, aligned (not multiplied) when two inputs carry
the same originating split - combined with its own splitter; each job receives the upstream
outputs whose state coordinates match its own; combiners group exactly as for single tasks.
No pydra import.

Program spec (JSON):
  {"inputs": {name: value},                      workflow inputs (lists of str, or str)
   "nodes": [{"name": "n0", "kind": "T1"|"T2"|"T3"|"L"|"Sub1"|"Sub2",
              "in": {field: ["const", v] | ["wfin", name] | ["node", name]
                            | ["split", name]      (field is split over the workflow-input list)
                            | ["splitnode", name]  (field is split over the list each upstream job returned)},
              "split": null | splitter tree over the node's split fields (vlib.ref.splitter form),
              "combine": null | [names]  (own field "a" or upstream "n0.a")}],
   "outs": [node names],
   "wf_split": null | {"input": name, "values": [v, ...], "combine": bool}}
Values are provenance strings built by `fmt` (the same function is used by the pydra tasks).
"""
from __future__ import annotations

from collections import OrderedDict

from vlib.ref import splitter as S


class Undefined(Exception):
    """the statement does not fix the meaning of this program"""


FIELDS = {"T1": ["a"], "T2": ["a", "b"], "T3": ["a", "b", "c"], "L": ["a"], "LE": ["a"], "Sub1": ["a"],
          "Sub2": ["a", "b"]}


def fmt(v):
    if isinstance(v, (list, tuple)):
        return "[" + ",".join(fmt(i) for i in v) + "]"
    return str(v)


def apply_kind(kind, vals):
    if kind == "T1":
        return f"f({fmt(vals['a'])})"
    if kind == "T2":
        return f"g({fmt(vals['a'])},{fmt(vals['b'])})"
    if kind == "T3":
        return f"h({fmt(vals['a'])},{fmt(vals['b'])},{fmt(vals['c'])})"
    if kind == "LE":  # a list output that is empty at run time
        return []
    if kind == "L":
        return [f"{fmt(vals['a'])}.0", f"{fmt(vals['a'])}.1"]
    if kind == "Sub1":  # nested workflow: T1 -> T1
        return f"f(f({fmt(vals['a'])}))"
    if kind == "Sub2":  # nested workflow: T2(T1(a), b)
        return f"g(f({fmt(vals['a'])}),{fmt(vals['b'])})"
    raise ValueError(kind)


def evaluate(prog, inputs=None):
    """-> (list of workflow outputs, per-node results {name: {"axes": [...], "rows": [(coords, value)]}})"""
    inputs = prog["inputs"] if inputs is None else inputs
    res = {}
    inner_dep = {}  # inner-split axis -> the axes of the upstream state whose lists it iterates over
    for nd in prog["nodes"]:
        fields = FIELDS[nd["kind"]]
        # ---- merged upstream state, in first-connection order
        # (inputs received whole first, in field order; the upstream state of an input that is
        # split over (inner split) comes after them, directly above the inner axis it feeds)
        ups = []
        for want in ("node", "splitnode"):
            for f in fields:
                s = nd["in"][f]
                if s[0] == want and res[s[1]]["axes"] and s[1] not in ups:
                    ups.append(s[1])
        axes, rows = [], [dict()]
        for u in ups:
            U = res[u]
            new_axes = [ax for ax in U["axes"] if ax not in axes]
            shared = [ax for ax in U["axes"] if ax in axes]
            ucoords, seen = [], set()
            for c, _ in U["rows"]:
                key = tuple(sorted(c.items()))
                if key not in seen:
                    seen.add(key)
                    ucoords.append(c)
            rows = [dict(p, **c) for p in rows for c in ucoords if all(p[ax] == c[ax] for ax in shared)]
            axes = axes + new_axes
        # ---- own splitter
        parent_rows, parent_axes = list(rows), list(axes)  # the merged upstream state
        fld_axis = {}
        sn = [f for f in fields if nd["in"][f][0] == "splitnode"]
        if sn:
            if len(sn) > 1 or nd.get("split") not in (None, sn[0]):
                raise Undefined("more than one inner split field")
            f = sn[0]
            ax = f"{nd['name']}.{f}"
            U = res[nd["in"][f][1]]
            new_rows = []
            for p in rows:
                lst = _lookup(U, p)
                if not isinstance(lst, list):
                    raise Undefined("inner split over a non-list")
                for i in range(len(lst)):
                    new_rows.append(dict(p, **{ax: i}))
            rows, axes = new_rows, axes + [ax]
            fld_axis[f] = ax
            inner_dep[ax] = set(U["axes"])
        elif nd.get("split") is not None:
            tree = nd["split"]
            sfields = S.fields_of(tree)
            lens = {}
            for f in sfields:
                src = nd["in"][f]
                if src[0] != "split":
                    raise Undefined("split field without a list source")
                lens[f] = len(inputs[src[1]])
            try:
                own_axes, own_rows, _ = S.ev(tree, lens)
            except (S.Reject, S.Undefined) as e:
                raise Undefined(f"own splitter invalid: {type(e).__name__}")
            names = []
            for axset in own_axes:
                nm = f"{nd['name']}." + "+".join(sorted(axset))
                names.append(nm)
                for f in axset:
                    fld_axis[f] = nm
            own = [{fld_axis[f]: i for f, i in r.items()} for r in own_rows]
            rows = [dict(p, **o) for p in rows for o in own]
            axes = axes + names
        # ---- job values
        out_rows = []
        jobs = []
        for c in rows:
            vals = {}
            deps = []
            for f in fields:
                s = nd["in"][f]
                if s[0] == "const":
                    vals[f] = s[1]
                elif s[0] == "wfin":
                    vals[f] = inputs[s[1]]
                elif s[0] == "split":
                    vals[f] = inputs[s[1]][c[fld_axis[f]]]
                elif s[0] == "node":
                    vals[f] = _lookup(res[s[1]], c)
                    if res[s[1]]["combined"]:
                        deps.extend(fmt(v) for v in vals[f])
                    else:
                        deps.append(fmt(vals[f]))
                else:  # splitnode
                    whole = _lookup(res[s[1]], c)
                    vals[f] = whole[c[fld_axis[f]]]
                    deps.append(fmt(whole))
            out = apply_kind(nd["kind"], vals)
            out_rows.append((c, out))
            token = f"e({fmt(vals['a'])})" if nd["kind"] == "LE" else fmt(out)
            jobs.append(dict(node=nd["name"], token=token, deps=sorted(set(deps))))
        # ---- combiner
        if nd.get("combine"):
            caxes = []
            for name in nd["combine"]:
                if "." in name:
                    node, f = name.split(".", 1)
                else:
                    node, f = nd["name"], name
                hit = [ax for ax in axes if ax.split(".", 1)[0] == node and f in ax.split(".", 1)[1].split("+")]
                if not hit:
                    raise Undefined(f"combiner {name} names no axis of this node")
                caxes.extend(h for h in hit if h not in caxes)
            rem = [ax for ax in axes if ax not in caxes]
            for ax in rem:
                if inner_dep.get(ax, set()) & set(caxes):
                    # the range of the remaining inner loop depends on the loop being combined: the
                    # loops cannot be interchanged, a nested-loop evaluation does not define groups
                    raise Undefined("combiner removes an axis that a remaining inner-split axis iterates under")
            groups = OrderedDict()
            if all(ax in parent_axes for ax in rem):
                # nested-loop reading: every element of the surrounding (upstream) loops yields a
                # group, an empty one when the combined inner loops had nothing to iterate over
                for p in parent_rows:
                    groups.setdefault(tuple(p[ax] for ax in rem), [])
            for c, v in out_rows:
                groups.setdefault(tuple(c[ax] for ax in rem), []).append(v)
            out_rows = [(dict(zip(rem, k)), vs) for k, vs in groups.items()]
            axes = rem
        res[nd["name"]] = dict(axes=axes, rows=out_rows, jobs=jobs, combined=bool(nd.get("combine")))

    def final(name):
        R = res[name]
        if not R["axes"]:
            return R["rows"][0][1] if R["rows"] else []
        return [v for _, v in R["rows"]]

    return [final(o) for o in prog["outs"]], res


def _lookup(U, coords):
    if not U["axes"]:
        return U["rows"][0][1] if U["rows"] else []  # everything combined, no jobs: empty list
    m = [v for cc, v in U["rows"] if all(coords[ax] == cc[ax] for ax in U["axes"])]
    if len(m) != 1:
        raise Undefined(f"{len(m)} upstream results match")
    return m[0]


def evaluate_program(prog):
    """handles the workflow-level split; -> list of workflow outputs"""
    ws = prog.get("wf_split")
    if not ws:
        return evaluate(prog)[0]
    per = []
    for v in ws["values"]:
        inp = dict(prog["inputs"], **{ws["input"]: v})
        per.append(evaluate(prog, inp)[0])
    # one list per output, in split order
    return [[p[i] for p in per] for i in range(len(prog["outs"]))]


def jobs_of(prog):
    """every job of the program: [{node, token, deps: [tokens of the upstream jobs it consumes]}]
    (token = formatted output, unique per distinct computation)"""
    _, res = evaluate(prog)
    out = []
    for nd in prog["nodes"]:
        out.extend(res[nd["name"]]["jobs"])
    return out


def job_count(prog):
    """number of jobs per node (for schedules)"""
    _, res = evaluate(prog)
    return {n: len(r["rows"]) for n, r in res.items()}


# ---------------------------------------------------------------------- shape labels
def labels(prog):
    out = set()
    nodes = {n["name"]: n for n in prog["nodes"]}
    stateful = {}
    origin = {}  # node -> set of originating split axes (node.field) reachable

    for nd in prog["nodes"]:
        srcs = [s for s in nd["in"].values()]
        ups = [s[1] for s in srcs if s[0] in ("node", "splitnode")]
        o = set()
        for u in ups:
            o |= origin[u]
        own = set()
        if nd.get("split") is not None:
            own = {f"{nd['name']}.{f}" for f in S.fields_of(nd["split"])}
        if any(s[0] == "splitnode" for s in srcs):
            own |= {f"{nd['name']}.inner"}
            out.add("inner_split")
        st_ups = [u for u in dict.fromkeys(ups) if origin[u]]
        if len(st_ups) >= 2:
            sets = [origin[u] for u in st_ups]
            if any(sets[i] & sets[j] for i in range(len(sets)) for j in range(i + 1, len(sets))):
                out.add("fan_in_shared_origin")
            else:
                out.add("fan_in_independent")
        direct_twice = [u for u in set(ups) if ups.count(u) >= 2 and origin[u]]
        if direct_twice:
            out.add("same_upstream_twice")
        if own and o:
            out.add("own_split_below_split")
        stateless_ups = [u for u in dict.fromkeys(ups) if not origin[u]]
        if (own or o) and len(stateless_ups) >= 2:
            out.add("stateful_node_with_two_stateless_inputs")
        if nd.get("combine"):
            out.add("combine")
            if any("." in c for c in nd["combine"]):
                out.add("combine_upstream_axis")
            removed = set()
            for c in nd["combine"]:
                key = c if "." in c else f"{nd['name']}.{c}"
                removed |= {a for a in (o | own) if a == key}
            # inner-linked fields go together; approximate by field name match only
            origin[nd["name"]] = (o | own) - removed
        else:
            origin[nd["name"]] = o | own
        if nd["kind"].startswith("Sub"):
            out.add("nested_workflow")
        if nd["kind"] in ("L", "LE"):
            out.add("list_output")
        if nd["kind"] == "LE":
            out.add("empty_list_output")
        if ups and not own and o:
            out.add("propagated_state")
        stateful[nd["name"]] = bool(origin[nd["name"]])
    consumers = {}
    for nd in prog["nodes"]:
        for s in nd["in"].values():
            if s[0] in ("node", "splitnode"):
                consumers.setdefault(s[1], set()).add(nd["name"])
    if any(len(v) >= 2 for v in consumers.values()):
        out.add("fan_out")
    if prog.get("wf_split"):
        out.add("workflow_level_split")
    if len(prog["outs"]) > 1:
        out.add("multi_output")
    if not out:
        out.add("chain_or_flat")
    return sorted(out)


def nontrivial(prog):
    ls = set(labels(prog))
    return bool(ls & {"fan_in_shared_origin", "fan_in_independent", "same_upstream_twice", "combine",
                      "inner_split", "nested_workflow", "own_split_below_split", "workflow_level_split"})
