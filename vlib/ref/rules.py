"""Reference predicate for C31 (requires / xor / mandatory rules), written from the property
statement, independent of pydra.

Definition spec (JSON):
  {"fields": [{"name": "f0", "kind": KIND, "requires": [[[target, allowed|null], ...], ...]}, ...],
   "xor": [[name, ..., null?], ...]}
  KIND  bool     `bool`, default False          values False, True
        optbool  `bool | None`, default None    values None, False, True
        optstr   `str | None`, default None     values None, "a", "b"
        str      `str`, mandatory               values UNSET, "a", "b"
        mbool    `bool`, mandatory              values UNSET, False, True
  requires = alternatives (OR) of requirement sets (AND) of [target field, allowed values or null]
Assignment: {name: value}, the string UNSET meaning "not passed".

A field is *set* when it was passed and is neither None nor False.  The statement does not say
whether an explicit False of an Optional[bool] field (as opposed to None) is "set"; `reading`
selects: "unset" (False never counts), "set" (False of an optbool field counts everywhere), and the
defect model "mixed" = what the pinned tree does (counts as set only where it is the *target* of a
requirement, not as a trigger of its own requirements and not in an xor group).
"""
from __future__ import annotations

import itertools

UNSET = "<UNSET>"
KINDS = ("bool", "optbool", "optstr", "str", "mbool")
DOMAIN = {
    "bool": [False, True],
    "optbool": [None, False, True],
    "optstr": [None, "a", "b"],
    "str": [UNSET, "a", "b"],
    "mbool": [UNSET, False, True],
}
MANDATORY = ("str", "mbool")


def kinds(spec):
    return {f["name"]: f["kind"] for f in spec["fields"]}


def assignments(spec):
    names = [f["name"] for f in spec["fields"]]
    for combo in itertools.product(*[DOMAIN[f["kind"]] for f in spec["fields"]]):
        yield dict(zip(names, combo))


def is_set(kind, value, false_counts: bool) -> bool:
    if isinstance(value, str) and value == UNSET:
        return False
    if value is None:
        return False
    if value is False:
        return bool(false_counts and kind == "optbool")
    return True


def violated(spec, asg, reading="unset") -> list[str]:
    """labels of the rules the assignment violates ([] = the task may be executed)"""
    k = kinds(spec)
    as_target = reading in ("set", "mixed")
    elsewhere = reading == "set"
    out = []
    for f in spec["fields"]:
        if f["kind"] in MANDATORY and asg[f["name"]] == UNSET:
            out.append(f"mandatory:{f['name']}")
    for f in spec["fields"]:
        if not f.get("requires") or not is_set(f["kind"], asg[f["name"]], elsewhere):
            continue

        def ok(req):
            target, allowed = req
            v = asg[target]
            if not is_set(k[target], v, as_target):
                return False
            return allowed is None or v in allowed

        if not any(all(ok(r) for r in rs) for rs in f["requires"]):
            out.append(f"requires:{f['name']}")
    for i, grp in enumerate(spec.get("xor", [])):
        members = [g for g in grp if g is not None]
        nset = sum(1 for g in members if is_set(k[g], asg[g], elsewhere))
        if nset > 1:
            out.append(f"xor-several:{i}")
        elif nset == 0 and None not in grp:
            out.append(f"xor-none:{i}")
    return out


def construction_model(spec, asg, lazy) -> list[str]:
    """defect model for the check made while a workflow is *constructed* on the pinned tree: the
    node's fields named in `lazy` are still unresolved lazy values there.  A lazy field does not
    trigger its own requirements (correct: deferred), but it counts as set in an xor group and,
    as the target of a requirement, as set yet never as one of the allowed values.  Known values
    follow the "mixed" reading."""
    k = kinds(spec)
    out = []
    for f in spec["fields"]:
        nm = f["name"]
        if nm in lazy or not f.get("requires") or not is_set(f["kind"], asg[nm], False):
            continue

        def ok(req):
            target, allowed = req
            if target in lazy:
                return allowed is None
            v = asg[target]
            return is_set(k[target], v, True) and (allowed is None or v in allowed)

        if not any(all(ok(r) for r in rs) for rs in f["requires"]):
            out.append(f"requires:{nm}")
    for i, grp in enumerate(spec.get("xor", [])):
        members = [g for g in grp if g is not None]
        nset = sum(1 for g in members if g in lazy or is_set(k[g], asg[g], False))
        if nset > 1:
            out.append(f"xor-several:{i}")
        elif nset == 0 and None not in grp:
            out.append(f"xor-none:{i}")
    return out


def ambiguous(spec, asg) -> bool:
    """the two admissible readings of an explicit False disagree on the verdict"""
    return bool(violated(spec, asg, "unset")) != bool(violated(spec, asg, "set"))


def has_rules(spec) -> bool:
    return bool(spec.get("xor")) or any(f.get("requires") for f in spec["fields"])


def rule_kinds(labels) -> str:
    return "+".join(sorted({lb.split(":")[0] for lb in labels})) or "none"
