"""Reference for C28: what the statement allows for a scripted scheduler scenario.

The statement: a job is reported complete exactly when the scheduler reports successful
completion and its result exists; reported failed when the scheduler reports failure; requeued or
resubmitted (not failed) after cancellation, timeout, preemption or eviction; user-supplied
job-name/output/error options are honoured, not duplicated or broken.

Everything the statement leaves open is returned as more than one acceptable behaviour.
"""
from __future__ import annotations

REQUEUE = ("cancelled", "timeout", "preempted", "evicted")
FAILED = ("failed", "oom")
# scheduler verdicts the statement does not classify (a SLURM node failure is neither one of the
# four requeue causes by name nor plainly "failure"): both treatments are accepted
UNCLASSIFIED = {"slurm": ("node_fail",), "sge": ()}
ENDS = {"slurm": ("completed", "failed", "oom", "cancelled", "timeout", "preempted", "node_fail"),
        "sge": ("completed", "failed", "oom", "cancelled", "timeout", "preempted", "evicted")}
PAYLOADS = ("ok", "raise", "early_fail", "prologue_fail", "killed", "none")


class BadScenario(ValueError):
    pass


def validate(case):
    kind = case["worker"]
    atts = case["attempts"]
    if not atts:
        raise BadScenario("no attempts")
    for a in atts:
        if a["end"] not in ENDS[kind]:
            raise BadScenario(f"end {a['end']!r} not defined for {kind}")
        if a.get("payload", "ok") not in PAYLOADS:
            raise BadScenario(f"payload {a.get('payload')!r}")
        if a.get("payload") == "killed" and case.get("exec") != "sh":
            raise BadScenario("'killed' needs exec=sh")
    if atts[-1]["end"] in REQUEUE + UNCLASSIFIED[kind]:
        raise BadScenario("the last attempt must end in a final verdict (completed/failed)")


def acceptable(case, result_ok: bool):
    """-> set of (verdict, requeues); verdict in complete | failed | not_complete | any.

    `result_ok`: a non-errored result of the job exists when the submission ends (ground truth read
    from the cache directory).  `not_complete` = anything but a report of completion."""
    kind = case["worker"]
    atts = case["attempts"]
    no_requeue = kind == "slurm" and "--no-requeue" in case.get("args", [])
    acc = set()

    def walk(i, nreq):
        a = atts[i]
        if kind == "slurm" and "missing" in a.get("lag", ()):
            # the accounting record is (momentarily) absent: the statement does not say whether
            # the worker gives up or asks again
            acc.add(("failed", nreq))
        e = a["end"]
        if e in REQUEUE:
            if no_requeue:  # the user forbade requeueing: outside the statement
                acc.add(("any", nreq))
            else:
                walk(i + 1, nreq + 1)
        elif e == "completed":
            acc.add(("complete" if result_ok else "not_complete", nreq))
        elif e in FAILED:
            acc.add(("failed", nreq))
        elif e in UNCLASSIFIED[kind]:
            acc.add(("failed", nreq))
            walk(i + 1, nreq + 1)
        else:
            raise BadScenario(e)

    if case.get("submit_rc"):
        return {("failed", 0)}
    walk(0, 0)
    return acc


def matches(outcome: str, requeues: int, acc) -> bool:
    for verdict, n in acc:
        if n != requeues:
            continue
        if verdict == "any" or verdict == outcome or (verdict == "not_complete" and outcome == "failed"):
            return True
    return False


def undefined_labels(case):
    kind = case["worker"]
    out = []
    if kind == "slurm" and any("missing" in a.get("lag", ()) for a in case["attempts"]):
        out.append("undefined_by_statement:missing_accounting")
    if any(a["end"] in UNCLASSIFIED[kind] for a in case["attempts"]):
        out.append("undefined_by_statement:node_fail")
    if kind == "slurm" and "--no-requeue" in case.get("args", []) and any(
            a["end"] in REQUEUE for a in case["attempts"]):
        out.append("undefined_by_statement:no_requeue")
    return out


# --------------------------------------------------------------------------- options
def check_options(kind, user_tokens, submit_argvs, parse):
    """user_tokens: the option string split on whitespace, placeholders already substituted.
    submit_argvs: argv (without the command name) of every sbatch/qsub invocation.
    -> list of (problem, class, spelling) tuples."""
    problems = []
    user = parse(user_tokens)
    for argv in submit_argvs:
        body = argv[:-1]
        n = len(user_tokens)
        if n and not any(body[i:i + n] == user_tokens for i in range(len(body) - n + 1)):
            problems.append(("user-args-not-passed-unchanged", "all", ""))
        got = parse(body)
        for cls in ("name", "output", "error"):
            u = [(s, v) for c, s, v in user if c == cls]
            g = [(s, v) for c, s, v in got if c == cls]
            if u:
                if not any(x in g for x in u):
                    problems.append(("dropped-or-altered", cls, u[0][0]))
                elif len(g) > len(u):
                    problems.append(("duplicated", cls, u[0][0]))
            elif len(g) > 1:
                problems.append(("default-duplicated", cls, ""))
    # one record per (problem, class)
    seen, out = set(), []
    for p in problems:
        if p not in seen:
            seen.add(p)
            out.append(p)
    return out
