"""Reference semantics of the splitter/combiner algebra, written from the property
statements (C01, C02) and the documented zip / itertools.product analogy.
No pydra import.

Tree spec (JSON-able):  "a"  |  ["O", [t1, t2, ...]]  (outer, python list)
                             |  ["I", [t1, t2, ...]]  (inner, python tuple)
"""
from __future__ import annotations

import itertools
from collections import OrderedDict


class Reject(Exception):
    """The statement requires the request to be rejected before any job runs."""


class Undefined(Exception):
    """The statement does not fix the meaning (equal element counts, different shapes)."""


def is_leaf(t):
    return isinstance(t, str)


def fields_of(t):
    if is_leaf(t):
        return [t]
    out = []
    for k in t[1]:
        out.extend(fields_of(k))
    return out


def to_py(t):
    """Tree spec -> pydra splitter spelling."""
    if is_leaf(t):
        return t
    op, kids = t
    return [to_py(k) for k in kids] if op == "O" else tuple(to_py(k) for k in kids)


def from_py(s):
    if isinstance(s, str):
        return s
    if isinstance(s, list):
        return ["O", [from_py(k) for k in s]]
    return ["I", [from_py(k) for k in s]]


def ev(t, lens):
    """-> (axes: list[set[field]], rows: list[dict field->index], shape: tuple)"""
    if is_leaf(t):
        n = lens[t]
        return [{t}], [{t: i} for i in range(n)], (n,)
    op, kids = t
    res = ev(kids[0], lens)
    for k in kids[1:]:
        r = ev(k, lens)
        if op == "O":
            res = (
                res[0] + r[0],
                [dict(a, **b) for a in res[1] for b in r[1]],
                res[2] + r[2],
            )
        else:
            if len(res[1]) != len(r[1]):
                raise Reject()
            if res[2] != r[2]:
                raise Undefined()
            res = (
                [x | y for x, y in zip(res[0], r[0])],
                [dict(a, **b) for a, b in zip(res[1], r[1])],
                res[2],
            )
    return res


def verdict(t, lens):
    """('ok', rows) | ('reject', None) | ('undef', None)"""
    try:
        return "ok", ev(t, lens)[1]
    except Reject:
        return "reject", None
    except Undefined:
        return "undef", None


def groups(t, lens, comb):
    """Combiner partition: list of groups (lists of row indices), and whether any axis
    remains uncombined (False => one flat list)."""
    axes, rows, _ = ev(t, lens)
    cset = set(comb)
    remaining = [ax for ax in axes if not (ax & cset)]

    def key(row):
        return tuple(row[sorted(ax)[0]] for ax in remaining)

    g = OrderedDict()
    for i, row in enumerate(rows):
        g.setdefault(key(row), []).append(i)
    return list(g.values()), bool(remaining)


def trees(fields):
    """All trees whose leaves are `fields` in this left-to-right order (n-ary nodes)."""
    fields = tuple(fields)
    if len(fields) == 1:
        yield fields[0]
        return
    n = len(fields)
    for k in range(2, n + 1):
        for cuts in itertools.combinations(range(1, n), k - 1):
            parts = [fields[i:j] for i, j in zip((0,) + cuts, cuts + (n,))]
            for kids in itertools.product(*[list(trees(p)) for p in parts]):
                for op in "OI":
                    yield [op, list(kids)]


def all_trees(nfields, names="abcd"):
    """All trees over exactly the first `nfields` names, any leaf order."""
    fs = names[:nfields]
    perms = itertools.permutations(fs) if nfields > 1 else [tuple(fs)]
    for perm in perms:
        yield from trees(perm)


def has_nested(t):
    return (not is_leaf(t)) and any(not is_leaf(k) for k in t[1])


def has_inner(t):
    if is_leaf(t):
        return False
    return t[0] == "I" or any(has_inner(k) for k in t[1])


def nontrivial(t):
    return len(fields_of(t)) >= 2 and (has_nested(t) or has_inner(t))
