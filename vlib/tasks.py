"""Pydra task definitions shared by the checks (importable by name in any process)."""
from __future__ import annotations

import os
import typing as ty

from pydra.compose import python, workflow


@python.define
def Tag(a: ty.Any = "A", b: ty.Any = "B", c: ty.Any = "C", d: ty.Any = "D", log: str = "") -> ty.Any:
    """Returns everything it received; appends one line to `log` per execution."""
    import json as _json
    import os as _os

    rec = [a, b, c, d]
    if log:
        fd = _os.open(log, _os.O_WRONLY | _os.O_APPEND | _os.O_CREAT)
        try:
            _os.write(fd, (_json.dumps(rec, default=repr) + "\n").encode())
        finally:
            _os.close(fd)
    return rec


@python.define
def T1(a: ty.Any) -> ty.Any:
    return f"f({a})"


@python.define
def T2(a: ty.Any, b: ty.Any) -> ty.Any:
    return f"g({a},{b})"


@python.define
def Ident(a: ty.Any) -> ty.Any:
    return a


def read_log(path) -> list:
    import json

    if not os.path.exists(path):
        return []
    with open(path) as f:
        return [json.loads(line) for line in f if line.strip()]


@workflow.define
def CombineWF(spl: ty.Any, comb: ty.Any, consts: ty.Any, lists: ty.Any) -> ty.Any:
    """Split+combined Tag node feeding an identity node; everything arrives as input *values*
    (no closure), so the workflow-construction cache keys on them."""
    n = workflow.add(Tag(**consts).split(spl, **lists).combine(comb), name="N")
    i = workflow.add(Ident(a=n.out), name="I")
    return i.out


@python.define(xor=[["p", "q", None], ["r", "s", None]])
def XorTask(p: int | None = None, q: int | None = None, r: str | None = None,
            s: str | None = None) -> ty.Any:
    """Two exclusive groups: the class carries a frozenset of frozensets (C07)."""
    return [p, q, r, s]


# ---------------------------------------------------------------- workflow program tasks (C03...)
from vlib.ref.workflow import fmt as _fmt  # noqa: E402


def _gate(token: str):
    """Schedule control (vlib/inject/sched.py): when VERIF_GATE names a gate directory the body
    announces itself, waits for its release and logs start/end; optionally fails on request."""
    import hashlib
    import os
    import time

    gate = os.environ.get("VERIF_GATE")
    if not gate:
        return None
    h = hashlib.sha1(token.encode()).hexdigest()[:16]

    def log(line):
        fd = os.open(os.path.join(gate, "log"), os.O_WRONLY | os.O_APPEND | os.O_CREAT)
        try:
            os.write(fd, (line + "\n").encode())
        finally:
            os.close(fd)

    log(f"S\t{token}")
    open(os.path.join(gate, "entered", h), "w").close()
    go = os.path.join(gate, "go", h)
    free = os.path.join(gate, "free")  # when present nothing blocks (uncontrolled runs)
    while not (os.path.exists(go) or os.path.exists(free)):
        time.sleep(0.002)
    if os.path.exists(os.path.join(gate, "fail", h)):
        log(f"E\t{token}\tfail")
        raise RuntimeError(f"injected failure in {token}")
    log(f"E\t{token}\tok")
    return None


@python.define
def WT1(a: ty.Any) -> ty.Any:
    out = f"f({_fmt(a)})"
    _gate(out)
    return out


@python.define
def WT2(a: ty.Any, b: ty.Any) -> ty.Any:
    out = f"g({_fmt(a)},{_fmt(b)})"
    _gate(out)
    return out


@python.define
def WT3(a: ty.Any, b: ty.Any, c: ty.Any) -> ty.Any:
    out = f"h({_fmt(a)},{_fmt(b)},{_fmt(c)})"
    _gate(out)
    return out


@python.define
def WL(a: ty.Any) -> ty.Any:
    out = [f"{_fmt(a)}.0", f"{_fmt(a)}.1"]
    _gate(_fmt(out))
    return out


@python.define
def WLE(a: ty.Any) -> ty.Any:
    _gate(f"e({_fmt(a)})")
    return []


@workflow.define
def WSub1(a: ty.Any) -> ty.Any:
    p = workflow.add(WT1(a=a), name="p")
    q = workflow.add(WT1(a=p.out), name="q")
    return q.out


@workflow.define
def WSub2(a: ty.Any, b: ty.Any) -> ty.Any:
    p = workflow.add(WT1(a=a), name="p")
    q = workflow.add(WT2(a=p.out, b=b), name="q")
    return q.out
