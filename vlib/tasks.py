"""Pydra task definitions shared by the checks (importable by name in any process)."""
from __future__ import annotations

import os
import typing as ty

from pydra.compose import python, workflow


@python.define
def Tag(a: ty.Any = "A", b: ty.Any = "B", c: ty.Any = "C", d: ty.Any = "D", log: str = "") -> ty.Any:
    """Returns everything it received; appends one line to `log` per execution."""
    import json as _json
    import os as _os

    rec = [a, b, c, d]
    if log:
        fd = _os.open(log, _os.O_WRONLY | _os.O_APPEND | _os.O_CREAT)
        try:
            _os.write(fd, (_json.dumps(rec, default=repr) + "\n").encode())
        finally:
            _os.close(fd)
    return rec


@python.define
def T1(a: ty.Any) -> ty.Any:
    return f"f({a})"


@python.define
def T2(a: ty.Any, b: ty.Any) -> ty.Any:
    return f"g({a},{b})"


@python.define
def Ident(a: ty.Any) -> ty.Any:
    return a


def read_log(path) -> list:
    import json

    if not os.path.exists(path):
        return []
    with open(path) as f:
        return [json.loads(line) for line in f if line.strip()]


@workflow.define
def CombineWF(spl: ty.Any, comb: ty.Any, consts: ty.Any, lists: ty.Any) -> ty.Any:
    """Split+combined Tag node feeding an identity node; everything arrives as input *values*
    (no closure), so the workflow-construction cache keys on them."""
    n = workflow.add(Tag(**consts).split(spl, **lists).combine(comb), name="N")
    i = workflow.add(Ident(a=n.out), name="I")
    return i.out
