"""Workflow definitions for C30 (construction caching) - module level, importable in any process.

Every constructor bumps `CALLS[<definition name>]` so that a history interpreter can tell a real
construction from a construction-cache hit.  Structure depends only on the inputs listed in
`STRUCTURAL`; every other input is merely handed on to nodes and may therefore be made lazy
(`PASSED`).  Nothing is closed over: all per-case values arrive as workflow inputs.
"""
from __future__ import annotations

import typing as ty

from pydra.compose import workflow

from vlib.tasks import WL, WT1, WT2

CALLS: dict[str, int] = {}


def _bump(name):
    CALLS[name] = CALLS.get(name, 0) + 1


@workflow.define
def CChain(x: ty.Any, y: ty.Any, n: int = 1) -> ty.Any:
    """A = f(x); B_i = g(B_{i-1}, y) for i < n  (node count comes from the int input)"""
    _bump("CChain")
    prev = workflow.add(WT1(a=x), name="A")
    for i in range(n):
        prev = workflow.add(WT2(a=prev.out, b=y), name=f"B{i}")
    return prev.out


@workflow.define(outputs=["o0", "o1"])
def CBranch(x: ty.Any, y: ty.Any, flag: bool = False):
    """branch chosen by a bool input; two outputs"""
    _bump("CBranch")
    if flag:
        p = workflow.add(WT2(a=x, b=y), name="T")
    else:
        p = workflow.add(WT1(a=x), name="F")
    z = workflow.add(WT2(a=p.out, b=y), name="Z")
    return z.out, p.out


@workflow.define
def CSplit(xs: ty.Any, y: ty.Any, comb: bool = False, n: int = 0) -> ty.Any:
    """split over a list input, optional combiner, then a value-dependent tail"""
    _bump("CSplit")
    s = WT2(b=y).split(a=xs)
    if comb:
        s = s.combine("a")
    prev = workflow.add(s, name="S")
    for i in range(n):
        prev = workflow.add(WT1(a=prev.out), name=f"C{i}")
    return prev.out


@workflow.define
def CNested(x: ty.Any, y: ty.Any, n: int = 1, inner_y: bool = False) -> ty.Any:
    """holds a CChain node: running it constructs CChain with resolved inputs (shares the
    construction cache with direct CChain operations)"""
    _bump("CNested")
    a = workflow.add(WT1(a=x), name="Pre")
    sub = workflow.add(CChain(x=a.out, y=(y if inner_y else "k"), n=n), name="Sub")
    z = workflow.add(WT2(a=sub.out, b=y), name="Post")
    return z.out


@workflow.define(outputs=["o0", "o1"])
def CFan(x: ty.Any, y: ty.Any, k: int = 1, inner: bool = False):
    """k parallel nodes over x joined pairwise; optional inner split over a list output"""
    _bump("CFan")
    fans = [workflow.add(WT2(a=x, b=f"c{i}"), name=f"F{i}") for i in range(k)]
    j = workflow.add(WT2(a=fans[0].out, b=fans[-1].out), name="J")
    if inner:
        lst = workflow.add(WL(a=y), name="L")
        t = workflow.add(WT2(b=j.out).split(a=lst.out), name="I")
    else:
        t = workflow.add(WT1(a=y), name="I")
    return j.out, t.out


DEFS = {"CChain": CChain, "CBranch": CBranch, "CSplit": CSplit, "CNested": CNested, "CFan": CFan}
# inputs that decide the structure (never lazy) / inputs that are only passed on (may be lazy)
STRUCTURAL = {
    "CChain": ["n"], "CBranch": ["flag"], "CSplit": ["comb", "n"], "CNested": ["n", "inner_y"],
    "CFan": ["k", "inner"],
}
PASSED = {
    "CChain": ["x", "y"], "CBranch": ["x", "y"], "CSplit": ["xs", "y"], "CNested": ["x", "y"],
    "CFan": ["x", "y"],
}
# outputs per definition
OUTS = {"CChain": ["out"], "CBranch": ["o0", "o1"], "CSplit": ["out"], "CNested": ["out"],
        "CFan": ["o0", "o1"]}
