"""Per-process scratch directory (under /dev/shm when possible)."""
from __future__ import annotations

import itertools
import os
import shutil
import tempfile
from pathlib import Path

_root: Path | None = None
_counter = itertools.count()
_own = False


def init(path):
    global _root, _own
    _root = Path(path)
    _root.mkdir(parents=True, exist_ok=True)
    _own = False


def root() -> Path:
    global _root, _own
    if _root is None:
        base = "/dev/shm" if os.access("/dev/shm", os.W_OK) else tempfile.gettempdir()
        _root = Path(tempfile.mkdtemp(prefix=f"pydra-verif-{os.getpid()}-", dir=base))
        _own = True
    return _root


def new(prefix="d") -> Path:
    p = root() / f"{prefix}{next(_counter)}"
    p.mkdir(parents=True, exist_ok=True)
    return p


def rm(path):
    shutil.rmtree(path, ignore_errors=True)


def cleanup():
    global _root
    if _root is not None and _own:
        shutil.rmtree(_root, ignore_errors=True)
        _root = None
