"""Pydra task definitions of the file properties C09, C33, C34 (importable in any process)."""
from __future__ import annotations

import typing as ty

from fileformats.generic import Directory, File, FsObject
from pydra.compose import python, workflow


@python.define
def FileIn(f: File) -> str:
    """C09: only its checksum is used"""
    return str(f)


# ----------------------------------------------------------------------------- C33
@python.define(outputs=["out"])
def Ident33(a: ty.Any) -> ty.Any:
    return a


@python.define(outputs=["o1", "o2"])
def Ident33x2(a: ty.Any, b: ty.Any) -> tuple[ty.Any, ty.Any]:
    return a, b


@workflow.define(outputs=["out"])
def FilesWF1(x: ty.Any) -> ty.Any:
    n = workflow.add(Ident33(a=x), name="N")
    return n.out


@workflow.define(outputs=["o1", "o2"])
def FilesWF2(x: ty.Any, y: ty.Any) -> tuple[ty.Any, ty.Any]:
    n = workflow.add(Ident33x2(a=x, b=y), name="N")
    return n.o1, n.o2


@workflow.define(outputs=["o1", "o2"])
def FilesWF2n(x: ty.Any, y: ty.Any) -> tuple[ty.Any, ty.Any]:
    """the two outputs come from two different nodes"""
    n = workflow.add(Ident33(a=x), name="N")
    m = workflow.add(Ident33(a=y), name="M")
    return n.out, m.out


_ = (Directory, FsObject)
