"""Parent process: ./check <ID> --tier quick|thorough [--replay file]

Exit codes: 0 held (KNOWN-FINDING lines allowed), 1 VIOLATION, 2 harness error.
"""
from __future__ import annotations

import argparse
import importlib
import json
import os
import shutil
import subprocess
import sys
import tempfile
import time
from pathlib import Path

from vlib.harness import HOME, REPO, case_hash, load_known

EVIDENCE_SCHEMA = Path("/root/.vp/EVIDENCE.schema.json")

DEFAULT_WALL = {"quick": 150, "thorough": 1500}  # per-shard soft deadline (s); hitting it = inconclusive


def scratch_root() -> Path:
    base = "/dev/shm" if os.access("/dev/shm", os.W_OK) else tempfile.gettempdir()
    return Path(tempfile.mkdtemp(prefix=f"pydra-verif-{os.getpid()}-", dir=base))


def validate_evidence(ev: dict) -> list[str]:
    """Validate with jsonschema when available, else a hand check of the generic keys."""
    problems = []
    try:
        import jsonschema  # from /verif/.deps

        if EVIDENCE_SCHEMA.exists():
            schema = json.loads(EVIDENCE_SCHEMA.read_text())
            v = jsonschema.Draft202012Validator(schema)
            problems = [e.message[:200] for e in v.iter_errors(ev)]
            return problems
    except ImportError:
        pass
    for k in ("property_id", "tier", "seed", "level", "coverage", "wall_s"):
        if k not in ev:
            problems.append(f"missing {k}")
    cov = ev.get("coverage", {})
    if ev.get("level") in ("exploration", "fault_enumeration"):
        if cov.get("evaluations", 0) < 1:
            problems.append("evaluations < 1")
        if cov.get("distinct_nontrivial", 0) < 2:
            problems.append("distinct_nontrivial < 2")
        if not cov.get("samples"):
            problems.append("no samples")
        if not isinstance(cov.get("rule"), str):
            problems.append("no rule")
    return problems


def run_shards(mod, prop, tier, seed, scratch, nshards, wall):
    procs = []
    env = dict(os.environ)
    for i in range(nshards):
        out = scratch / f"shard{i}.json"
        sdir = scratch / f"s{i}"
        sdir.mkdir()
        env_i = dict(env)
        env_i["PYDRA_HASH_CACHE"] = str(sdir / "hashcache")
        env_i["TMPDIR"] = str(sdir / "tmp")
        (sdir / "tmp").mkdir()
        log = open(scratch / f"shard{i}.log", "w")
        p = subprocess.Popen(
            [sys.executable, "-m", "vlib.shard", prop, tier, str(seed), str(i), str(nshards),
             str(sdir), str(out), str(wall)],
            stdout=log, stderr=subprocess.STDOUT, env=env_i, cwd=str(HOME),
            start_new_session=True,
        )
        procs.append((i, p, out, log))
    hard = time.time() + wall * 2 + 120
    results, errors = [], []
    for i, p, out, log in procs:
        try:
            rc = p.wait(timeout=max(1, hard - time.time()))
        except subprocess.TimeoutExpired:
            try:
                os.killpg(p.pid, 9)
            except Exception:
                p.kill()
            rc = -9
            errors.append(f"shard {i}: hard timeout")
        log.close()
        if out.exists():
            try:
                results.append(json.loads(out.read_text()))
            except Exception as e:  # pragma: no cover
                errors.append(f"shard {i}: unreadable result {e}")
        if rc != 0:
            tail = (scratch / f"shard{i}.log").read_text()[-3000:]
            errors.append(f"shard {i}: exit {rc}\n{tail}")
        # make sure no stray children survive a shard
        try:
            os.killpg(p.pid, 9)
        except Exception:
            pass
    return results, errors


def merge(results):
    m = dict(evaluations=0, nontrivial=set(), samples=[], violations=[], known_hits={},
             known_examples={}, counters={}, notes=[], time_limited=False)
    for r in sorted(results, key=lambda r: r["index"]):
        m["evaluations"] += r["evaluations"]
        m["nontrivial"].update(r["nontrivial"])
        for s in r["samples"]:
            if len(m["samples"]) < 8:
                m["samples"].append(s)
        for v in r["violations"]:
            if v["signature"] not in {x["signature"] for x in m["violations"]}:
                m["violations"].append(v)
        for k, n in r["known_hits"].items():
            m["known_hits"][k] = m["known_hits"].get(k, 0) + n
        for k, ex in r.get("known_examples", {}).items():
            m["known_examples"].setdefault(k, ex)
        for k, n in r["counters"].items():
            m["counters"][k] = m["counters"].get(k, 0) + n
        for n in r["notes"]:
            if n not in m["notes"]:
                m["notes"].append(n)
        m["time_limited"] = m["time_limited"] or r.get("time_limited", False)
    return m


def write_replay(prop, rec, seed) -> Path:
    d = Path(os.environ.get("VERIF_FOUND_DIR") or HOME / "replays" / "found")
    d.mkdir(parents=True, exist_ok=True)
    name = f"{prop}-{case_hash([rec.get('signature'), rec.get('case')])}.json"
    p = d / name
    p.write_text(json.dumps(dict(property=prop, seed=seed, **rec), indent=1, default=repr))
    return p


def replay_file(mod, path):
    data = json.loads(Path(path).read_text())
    case = data["case"]
    from vlib import scratchdir

    scratchdir.init(scratch_root())
    try:
        recs = mod.check_case(case)
    finally:
        scratchdir.cleanup()
    return recs


def check_known_witnesses(mod, prop, scratch):
    """For each listed (status=known) finding: does its committed witness still reproduce?"""
    lines = []
    for e in load_known(prop):
        if e.get("status") != "known":
            continue
        w = HOME / e["witness"]
        out = scratch / f"known-{e['id']}.json"
        env = dict(os.environ)
        env["PYDRA_HASH_CACHE"] = str(scratch / "hashcache-known")
        try:
            p = subprocess.run(
                [sys.executable, "-m", "vlib.shard", "--replay", prop, str(w), str(out),
                 str(scratch / f"known-{e['id']}")],
                capture_output=True, text=True, timeout=300, env=env, cwd=str(HOME),
            )
            recs = json.loads(out.read_text()) if out.exists() else None
        except subprocess.TimeoutExpired:
            recs = None
        if recs is None:
            lines.append(("error", e, "witness replay did not complete"))
            continue
        sigs = {r["signature"] for r in recs}
        if e["signature"] in sigs:
            lines.append(("reproduces", e, None))
        else:
            lines.append(("gone", e, sorted(sigs)))
    return lines


def main(argv=None):
    ap = argparse.ArgumentParser()
    ap.add_argument("prop")
    ap.add_argument("--tier", default=os.environ.get("VERIF_TIER", "quick"),
                    choices=["quick", "thorough"])
    ap.add_argument("--replay")
    ap.add_argument("--shards", type=int)
    args = ap.parse_args(argv)
    prop = args.prop.upper()
    try:
        seed = int(os.environ.get("VERIF_SEED", "1"))
    except ValueError:
        seed = 1
    t0 = time.time()
    try:
        mod = importlib.import_module(f"props.{prop.lower()}")
    except Exception as e:
        print(f"HARNESS-ERROR property={prop} cannot import check module: {e!r}")
        return 2

    if args.replay:
        scratch = scratch_root()
        out = scratch / "replay.json"
        env = dict(os.environ)
        env["PYDRA_HASH_CACHE"] = str(scratch / "hashcache")
        p = subprocess.run(
            [sys.executable, "-m", "vlib.shard", "--replay", prop, args.replay, str(out),
             str(scratch / "r")], env=env, cwd=str(HOME))
        try:
            if p.returncode != 0 or not out.exists():
                print(f"HARNESS-ERROR property={prop} replay failed to run")
                return 2
            recs = json.loads(out.read_text())
        finally:
            shutil.rmtree(scratch, ignore_errors=True)
        known = {e["signature"]: e for e in load_known(prop) if e.get("status") == "known"}
        rc = 0
        for r in recs:
            if r["signature"] in known:
                e = known[r["signature"]]
                print(f"KNOWN-FINDING: property={prop} id={e['id']} {e['what']}")
            else:
                print(f"VIOLATION property={prop} replay={args.replay} signature={r['signature']}")
                print("  observed:", json.dumps(r.get("observed"), default=repr)[:600])
                print("  expected:", json.dumps(r.get("expected"), default=repr)[:600])
                rc = 1
        if not recs:
            print(f"OK property={prop} replay does not reproduce any violation")
        return rc

    tier = args.tier
    nshards = args.shards or getattr(mod, "SHARDS", {}).get(tier, 16)
    wall = getattr(mod, "WALL", {}).get(tier, DEFAULT_WALL[tier])
    scratch = scratch_root()
    try:
        results, errors = run_shards(mod, prop, tier, seed, scratch, nshards, wall)
        m = merge(results)
        known_lines = check_known_witnesses(mod, prop, scratch)
    finally:
        shutil.rmtree(scratch, ignore_errors=True)

    level = mod.LEVEL
    coverage = dict(
        evaluations=m["evaluations"],
        distinct_nontrivial=len(m["nontrivial"]),
        rule=mod.RULE,
        samples=m["samples"],
        exhaustive=bool(m["counters"].get("exhaustive_subspaces_completed", 0)) and
        getattr(mod, "EXHAUSTIVE_WHEN_COMPLETED", False) and not m["time_limited"],
        counters=dict(sorted(m["counters"].items())),
        known_finding_hits=m["known_hits"],
        shards=nshards,
        time_limited=m["time_limited"],
        notes=m["notes"],
    )
    if getattr(mod, "EXHAUSTIVE_NOTE", None):
        coverage["exhaustive_scope"] = mod.EXHAUSTIVE_NOTE
    ev = dict(
        property_id=prop, tier=tier, seed=seed, level=level, coverage=coverage,
        assumptions=list(getattr(mod, "ASSUMPTIONS", [])),
        wall_s=round(time.time() - t0, 2),
        violations=len(m["violations"]),
    )
    problems = validate_evidence(ev)
    evdir = Path(os.environ.get("VERIF_EVIDENCE_DIR") or HOME / "evidence")
    evdir.mkdir(parents=True, exist_ok=True)
    (evdir / f"{prop}.json").write_text(json.dumps(ev, indent=1, default=repr) + "\n")

    rc = 0
    for kind, e, extra in known_lines:
        if kind == "reproduces":
            print(f"KNOWN-FINDING: property={prop} id={e['id']} {e['what']} "
                  f"(hits this run: {m['known_hits'].get(e['id'], 0)})")
        elif kind == "gone":
            print(f"NOTE property={prop} listed finding {e['id']} no longer reproduces from its "
                  f"witness (observed signatures: {extra})")
        else:
            errors.append(f"known finding {e['id']}: {extra}")
    for v in m["violations"]:
        path = write_replay(prop, v, seed)
        print(f"VIOLATION property={prop} replay={path}")
        print(f"  signature: {v['signature']}")
        print("  case:     ", json.dumps(v.get("case"), default=repr)[:800])
        print("  observed: ", json.dumps(v.get("observed"), default=repr)[:600])
        print("  expected: ", json.dumps(v.get("expected"), default=repr)[:600])
        if v.get("detail"):
            print("  detail:   ", str(v["detail"])[:600])
        rc = 1
    if errors and rc == 0:
        for e in errors:
            print(f"HARNESS-ERROR property={prop} {e}")
        rc = 2
    if problems and rc == 0:
        print(f"HARNESS-ERROR property={prop} evidence does not validate: {problems}")
        rc = 2
    status = {0: "OK", 1: "VIOLATED", 2: "ERROR"}[rc]
    print(f"{status} property={prop} tier={tier} seed={seed} evaluations={m['evaluations']} "
          f"distinct_nontrivial={len(m['nontrivial'])} known_hits={sum(m['known_hits'].values())} "
          f"time_limited={m['time_limited']} wall={ev['wall_s']}s")
    return rc


if __name__ == "__main__":
    sys.exit(main())
