"""Task definitions for C11 / C13 / C19 (importable by name in pool-worker processes).

Every body appends one line to an O_APPEND log *before* doing anything else, so executions are
counted exactly (also across processes).  Identities never depend on file *contents* here: flag
and log files are passed as `str` paths.
"""
from __future__ import annotations

import os
import typing as ty

from fileformats.generic import File
from pydra.compose import python, shell, workflow


def append_line(path: str, line: str) -> None:
    fd = os.open(path, os.O_WRONLY | os.O_APPEND | os.O_CREAT)
    try:
        os.write(fd, (line + "\n").encode())
    finally:
        os.close(fd)


def read_lines(path) -> list[str]:
    if not os.path.exists(path):
        return []
    with open(path) as f:
        return [ln.rstrip("\n") for ln in f if ln.strip()]


def flag_says_fail(flag: str) -> bool:
    with open(flag) as f:
        return f.read().strip() == "fail"


# --------------------------------------------------------------------------- C11
@python.define
def Cnt(x: int, log: str) -> int:
    """counter task: log line 'cnt:<x>', returns x + 1"""
    append_line(log, f"cnt:{x}")
    return x + 1


@python.define
def Dbl(x: int, log: str) -> int:
    """a second counter class: log line 'dbl:<x>', returns 2 * x"""
    append_line(log, f"dbl:{x}")
    return 2 * x


@workflow.define
def Chain(x: int, log: str) -> int:
    """a = Cnt(x), b = Cnt(a.out): with x=1 the nodes share their identities with the
    stand-alone tasks Cnt(x=1) and Cnt(x=2)"""
    a = workflow.add(Cnt(x=x, log=log), name="a")
    b = workflow.add(Cnt(x=a.out, log=log), name="b")
    return b.out


@workflow.define(outputs={"out": int, "other": int})
def Outer(x: int, log: str):
    """a workflow as a node: w = Chain(x) shares its identity (and those of its nodes) with the
    stand-alone Chain(x); c = Dbl(x) sits directly in the outer workflow"""
    w = workflow.add(Chain(x=x, log=log), name="w")
    c = workflow.add(Dbl(x=x, log=log), name="c")
    return w.out, c.out


# --------------------------------------------------------------------------- C13
@python.define
def RaiseIf(flag: str, log: str, token: str) -> int:
    append_line(log, "run")
    if flag_says_fail(flag):
        raise ValueError(f"boom-{token}")
    return 7


@python.define(outputs={"a": int, "b": int})
def DictMissing(flag: str, log: str, token: str):
    append_line(log, "run")
    if flag_says_fail(flag):
        return {"a": 1}
    return {"a": 1, "b": 2}


@python.define(outputs={"a": int, "b": int})
def DictEmpty(flag: str, log: str, token: str):
    append_line(log, "run")
    if flag_says_fail(flag):
        return {}
    return {"a": 1, "b": 2}


@python.define(outputs={"a": int, "b": int})
def TupleLong(flag: str, log: str, token: str):
    append_line(log, "run")
    if flag_says_fail(flag):
        return (1, 2, 3)
    return (1, 2)


@python.define(outputs={"a": int, "b": int})
def TupleShort(flag: str, log: str, token: str):
    append_line(log, "run")
    if flag_says_fail(flag):
        return (1,)
    return (1, 2)


@python.define(outputs={"a": int, "b": int})
def NoneForTwo(flag: str, log: str, token: str):
    append_line(log, "run")
    if flag_says_fail(flag):
        return None
    return (1, 2)


@shell.define
class ShFail(shell.Task["ShFail.Outputs"]):
    """sh <script> <flag> <log> <token> <how>; the script appends 'run' to the log and, when the
    flag file says fail, writes 'boom-<token>' to stderr and then fails the way `how` says:
    'exit:<n>' = exit status n, 'signal:<n>' = the shell kills itself with signal n (the command
    is then reported with a negative return code)"""

    executable = "sh"
    script: str = shell.arg(argstr="", position=1, help="script file")
    flag: str = shell.arg(argstr="", position=2, help="flag file")
    log: str = shell.arg(argstr="", position=3, help="log file")
    token: str = shell.arg(argstr="", position=4, help="token")
    how: str = shell.arg(argstr="", position=5, help="exit:<n> | signal:<n>", default="exit:3")

    class Outputs(shell.Outputs):
        pass


SH_SCRIPT = """#!/bin/sh
echo run >> "$2"
if grep -q fail "$1"; then
  echo "boom-$3" >&2
  case "$4" in
    signal:*) kill -"${4#signal:}" $$; sleep 1; exit 99;;
    *) exit "${4#exit:}";;
  esac
fi
echo fine
"""


@python.define
def Pre(log: str) -> int:
    append_line(log, "pre")
    return 1


@workflow.define
def FailWF(flag: str, log: str, prelog: str, token: str) -> int:
    """independent first node (its own counter), then the failing node"""
    p = workflow.add(Pre(log=prelog), name="p")
    r = workflow.add(RaiseIf(flag=flag, log=log, token=token), name="r")
    s = workflow.add(Add(a=p.out, b=r.out), name="s")
    return s.out


@python.define
def Add(a: int, b: int) -> int:
    return a + b


@python.define
def PreSlow(log: str, gate: str) -> int:
    """finishes once `<gate>/failed` exists (or after 30 s)"""
    import time

    append_line(log, "pre")
    t0 = time.time()
    while not os.path.exists(os.path.join(gate, "failed")) and time.time() - t0 < 30:
        time.sleep(0.02)
    return 1


@workflow.define
def FailWFSlow(flag: str, log: str, prelog: str, token: str, gate: str) -> int:
    """FailWF whose independent first node finishes only after the failing node has failed
    (schedule-injection witness, see vlib/inject/cachehist.py)"""
    p = workflow.add(PreSlow(log=prelog, gate=gate), name="p")
    r = workflow.add(RaiseIf(flag=flag, log=log, token=token), name="r")
    s = workflow.add(Add(a=p.out, b=r.out), name="s")
    return s.out


# --------------------------------------------------------------------------- C19
def apply_prog(x, prog):
    """`prog` = [path, action]; path = list of steps ["i", index] | ["k", key] | ["a", attr];
    action = [name, *args].  Mutates the addressed object in place (or not for 'noop'/'read')."""
    path, action = prog
    obj = x
    for kind, step in path:
        if kind in ("i", "k"):
            obj = obj[step]
        else:
            obj = getattr(obj, step)
    name = action[0]
    if name == "noop":
        return "noop"
    if name == "read":
        return repr(type(obj))
    if name == "append":
        obj.append(action[1])
    elif name == "pop":
        obj.pop()
    elif name == "setitem":
        obj[action[1]] = action[2]
    elif name == "delitem":
        del obj[action[1]]
    elif name == "add":
        obj.add(action[1])
    elif name == "discard":
        obj.discard(action[1])
    elif name == "setattr":
        setattr(obj, action[1], action[2])
    elif name == "clear":
        obj.clear()
    elif name == "arr_set":
        obj.flat[action[1]] = action[2]
    elif name == "file_append":
        with open(os.fspath(obj), "ab") as f:
            f.write(bytes.fromhex(action[1]))
    elif name == "file_rewrite":
        with open(os.fspath(obj), "wb") as f:
            f.write(bytes.fromhex(action[1]))
    else:
        raise ValueError(f"unknown action {action}")
    return name


@python.define
def Mutator(x: ty.Any, prog: list, log: str) -> str:
    append_line(log, "run")
    return apply_prog(x, prog)


@python.define
def FileAny(x: File, prog: list, log: str) -> str:
    """returns the path it received (so the check can see whether it was given a copy)"""
    append_line(log, "run")
    apply_prog(x, prog)
    return os.fspath(x)


@python.define(inputs={"x": python.arg(type=File, copy_mode="copy")})
def FileCopy(x, prog: list, log: str) -> str:
    append_line(log, "run")
    apply_prog(x, prog)
    return os.fspath(x)


@shell.define
class ShAppendCopy(shell.Task["ShAppendCopy.Outputs"]):
    """sh <script> <x>: the script appends to the file it is given; x is a copy-mode input"""

    executable = "sh"
    script: str = shell.arg(argstr="", position=1, help="script file")
    x: File = shell.arg(argstr="", position=2, help="file to append to", copy_mode="copy")
    log: str = shell.arg(argstr="", position=3, help="log")

    class Outputs(shell.Outputs):
        pass


@shell.define
class ShAppendAny(shell.Task["ShAppendAny.Outputs"]):
    executable = "sh"
    script: str = shell.arg(argstr="", position=1, help="script file")
    x: File = shell.arg(argstr="", position=2, help="file to append to")
    log: str = shell.arg(argstr="", position=3, help="log")

    class Outputs(shell.Outputs):
        pass


# two file fields on one task (copy modes any+copy in either declaration order, or copy+copy):
# the body works on the file it received through field number w (0 = a, 1 = b)
def _two(a, b, w, prog, log):
    append_line(log, "run")
    apply_prog((a, b)[w], prog)
    return [os.fspath(a), os.fspath(b)]


@python.define(inputs={"a": python.arg(type=File), "b": python.arg(type=File, copy_mode="copy")})
def TwoAnyCopy(a, b, w: int, prog: list, log: str) -> list:
    return _two(a, b, w, prog, log)


@python.define(inputs={"a": python.arg(type=File, copy_mode="copy"), "b": python.arg(type=File)})
def TwoCopyAny(a, b, w: int, prog: list, log: str) -> list:
    return _two(a, b, w, prog, log)


@python.define(inputs={"a": python.arg(type=File, copy_mode="copy"),
                       "b": python.arg(type=File, copy_mode="copy")})
def TwoCopyCopy(a, b, w: int, prog: list, log: str) -> list:
    return _two(a, b, w, prog, log)


@shell.define
class ShTwoAnyCopy(shell.Task["ShTwoAnyCopy.Outputs"]):
    """sh <script> <a> <b> <w> <log>: the script appends to (or reads) the file given as a (w=0)
    or b (w=1)"""

    executable = "sh"
    script: str = shell.arg(argstr="", position=1, help="script file")
    a: File = shell.arg(argstr="", position=2, help="first file")
    b: File = shell.arg(argstr="", position=3, help="second file", copy_mode="copy")
    w: str = shell.arg(argstr="", position=4, help="0 | 1")
    log: str = shell.arg(argstr="", position=5, help="log")

    class Outputs(shell.Outputs):
        pass


@shell.define
class ShTwoCopyAny(shell.Task["ShTwoCopyAny.Outputs"]):
    executable = "sh"
    script: str = shell.arg(argstr="", position=1, help="script file")
    a: File = shell.arg(argstr="", position=2, help="first file", copy_mode="copy")
    b: File = shell.arg(argstr="", position=3, help="second file")
    w: str = shell.arg(argstr="", position=4, help="0 | 1")
    log: str = shell.arg(argstr="", position=5, help="log")

    class Outputs(shell.Outputs):
        pass


SH_TWO_APPEND = """#!/bin/sh
echo run >> "$4"
if [ "$3" = 0 ]; then printf 'ZZ' >> "$1"; else printf 'ZZ' >> "$2"; fi
"""

SH_TWO_READ = """#!/bin/sh
echo run >> "$4"
cat "$1" "$2" > /dev/null
"""

SH_APPEND = """#!/bin/sh
echo run >> "$2"
printf 'ZZ' >> "$1"
"""

SH_READ = """#!/bin/sh
echo run >> "$2"
cat "$1" > /dev/null
"""
