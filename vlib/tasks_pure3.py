"""Importable helper tasks for C31 (pure3): a node whose outputs feed another node lazily."""
from __future__ import annotations

import typing as ty

from pydra.compose import python


@python.define(outputs={"o0": ty.Any, "o1": ty.Any, "o2": ty.Any, "o3": ty.Any, "o4": ty.Any})
def Spread(vals: list):
    """returns the (padded) list elements as five separate outputs"""
    vals = list(vals) + [None] * (5 - len(vals))
    return tuple(vals[:5])
