#!/bin/bash
# Offline setup: hypothesis into /venv (idempotent), jsonschema + atheris into /verif/.deps.
set -u
cd "$(dirname "${BASH_SOURCE[0]}")"
WH=/opt/veriftools/wheels
export PIP_NO_INDEX=1 PIP_DISABLE_PIP_VERSION_CHECK=1
/venv/bin/python -c "import hypothesis" 2>/dev/null || \
  /venv/bin/pip install -q --no-index --find-links $WH hypothesis || exit 1
mkdir -p .deps
/venv/bin/python - <<'PY' 2>/dev/null || \
  /venv/bin/pip install -q --no-index --no-deps --find-links $WH --target .deps --upgrade \
      jsonschema jsonschema_specifications referencing rpds_py atheris || echo "warning: optional deps not installed"
import sys; sys.path.insert(0, ".deps")
import jsonschema, atheris
PY
echo '{"findings": []}' > /dev/null
mkdir -p evidence replays/found
exit 0
