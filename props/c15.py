"""C15  Jobs start only after the jobs they consume have succeeded; every job runs exactly once.

Generated workflow programs run under the schedule-owning worker (vlib/inject/sched.py) with a
generated completion order, under the sequential `debug` loop and under `cf`; optionally a prefix
of the nodes is pre-run so that some jobs are cache hits.  Oracle = invariants over the gate
event log (S = body entered, E = body left):
 * every value a body received was produced by a job whose E-ok precedes this body's S (the
   consumed jobs are read off the provenance term itself, no reference model needed);
 * no body is entered twice; pre-cached jobs are not entered at all;
 * where pydra's outputs equal the reference interpreter's, exactly the reference's job set ran.
"""
from __future__ import annotations

from hypothesis import strategies as st

from vlib import scratchdir, schedcase
from vlib.gen import workflows as G
from vlib.harness import short
from vlib.ref import workflow as RW

ID = "C15"
LEVEL = "exploration"
DESIGN_REF = "5/C15, 4.2"
TECHNIQUE = "property-based testing over generated schedules: invariant over the execution event log"
WALL = {"quick": 120, "thorough": 1500}
RULE = (
    "cases = (workflow program without nested workflows, completion-order choice list, worker in "
    "{sched (order owned by the generator), debug, cf}, number of leading nodes pre-run into the "
    "cache). Non-trivial = the program has a dependent job pair and, for sched, >=2 bodies were "
    "blocked simultaneously at some point (the schedule had a real choice); distinct = full case."
)
ASSUMPTIONS = [
    "schedules are owned at task-body granularity; preemption inside library calls is not controlled",
    "consumed jobs are recovered from the provenance terms (f(..), g(..), lists, x.0/x.1)",
    "the exactly-the-expected-job-set part is checked only where outputs equal the reference (C03)",
]
SHARDS = {"quick": 16, "thorough": 16}


# ------------------------------------------------------------------ provenance term parsing
def split_args(s):
    """top-level comma split of the inside of f(...)/g(...)/[...]"""
    out, depth, cur = [], 0, ""
    for ch in s:
        if ch in "([":
            depth += 1
        elif ch in ")]":
            depth -= 1
        if ch == "," and depth == 0:
            out.append(cur)
            cur = ""
        else:
            cur += ch
    if cur or out:
        out.append(cur)
    return out


def consumed(token):
    """terms this job received as inputs: list of alternatives-sets; each requirement is a list of
    token sets, satisfied when every token of at least one set completed before."""
    if token.startswith("[") and token.endswith("]"):  # L job: "[x.0,x.1]" -> input x
        first = split_args(token[1:-1])[0]
        arg = first[:-2] if first.endswith(".0") else first
        args = [arg]
    elif token[:2] in ("f(", "g(", "h(") and token.endswith(")"):
        args = split_args(token[2:-1])
    else:
        return []
    reqs = []
    for a in args:
        reqs.extend(requirements(a))
    return reqs


def requirements(a):
    if a[:2] in ("f(", "g(", "h(") and a.endswith(")"):
        return [[{a}]]
    if a.endswith(".0") or a.endswith(".1"):
        base = a[:-2]
        return [[{f"[{base}.0,{base}.1]"}]]
    if a.startswith("[") and a.endswith("]"):
        elems = split_args(a[1:-1])
        if (len(elems) == 2 and elems[0].endswith(".0") and elems[1].endswith(".1")
                and elems[0][:-2] == elems[1][:-2]):
            return [[{a}]]  # the list is itself one job's output (an L job)
        reqs = []  # a plain input list, or a combined list of several jobs' outputs
        for e in elems:
            reqs.extend(requirements(e))
        return reqs
    return []


def check_log(events, precached_tokens=(), mult=None):
    """mult: token -> number of jobs of the workflow with that token (two nodes that compute the
    identical job are indistinguishable in the log: without rerun they share one cache entry, with
    rerun=True each of them executes)"""
    mult = mult or {}
    recs = []
    done_ok = set(precached_tokens)
    started = {}
    for ev in events:
        if ev[0] == "S":
            tok = ev[1]
            started[tok] = started.get(tok, 0) + 1
            if started[tok] == mult.get(tok, 1) + 1:
                recs.append(dict(signature="job-body-entered-twice", observed=tok, expected="once"))
            for alts in consumed(tok):
                if not any(alt <= done_ok for alt in alts):
                    recs.append(dict(signature="started-before-consumed-job-finished",
                                     observed=dict(job=tok, missing=[sorted(a - done_ok) for a in alts]),
                                     expected="all consumed jobs completed successfully first"))
                    break
        elif ev[0] == "E" and ev[2] == "ok":
            done_ok.add(ev[1])
    return recs, started


def check_case(case):
    prog = case["prog"]
    d = scratchdir.new("c15")
    try:
        pre_tokens = set()
        if case.get("precache"):
            pre_tokens = {j["token"] for j in RW.jobs_of(schedcase.precache_program(prog, case["precache"]))}
        obs = schedcase.run_case(case, d)
        if obs.timed_out:  # inconclusive (C18 owns termination)
            case["_obs"] = dict(timed_out=True)
            return []
        try:
            mult = {}
            for j in RW.jobs_of(prog):
                mult[j["token"]] = mult.get(j["token"], 0) + 1
        except RW.Undefined:
            mult = {}
        recs, started = check_log(obs.events, pre_tokens, mult)
        for t in pre_tokens:
            if started.get(t):
                recs.append(dict(signature="cached-job-executed-again", observed=t, expected="cache hit"))
        try:
            exp = RW.evaluate_program(prog)
        except RW.Undefined:
            exp = None
        sound = exp is not None and obs.outputs == exp
        if exp is not None and not sound and obs.exception is None and not obs.errored:
            # the run "succeeded" with other outputs than the reference: if the other execution
            # loop reproduces the reference, the program is in the sound region and this loop
            # skipped or repeated jobs
            other = "cf" if case.get("worker") == "debug" else "debug"
            obs2 = schedcase.run_case(dict(case, worker=other, precache=0), d / "other")
            sound = obs2.outputs == exp
        if sound:
            want = set(schedcase.expected_jobs(prog)) - pre_tokens
            got = set(started)
            if got != want:
                recs.append(dict(signature="executed-job-set-differs",
                                 observed=dict(missing=sorted(want - got)[:6], extra=sorted(got - want)[:6]),
                                 expected="every job of the workflow executed exactly once"))
        if case.get("rerun") and case.get("worker") != "debug":
            # defect model F-C15-1: with rerun=True over a complete cache the asynchronous loop
            # takes the *stale result file of the previous submission* for "predecessor done"
            # (NodeExecution.update_status -> Job.done reads the cache) until the re-submitted
            # upstream job has removed it; a downstream job can start in that window
            for r in recs:
                if r["signature"] == "started-before-consumed-job-finished":
                    r["signature"] += ":stale-result-of-previous-submission-under-rerun"
        # de-duplicate by signature
        seen, out = set(), []
        for r in recs:
            if r["signature"] not in seen:
                seen.add(r["signature"])
                r["detail"] = dict(worker=case.get("worker"), releases=obs.releases[:40],
                                   error=obs.exception)
                out.append(r)
        case["_obs"] = dict(max_blocked=obs.max_blocked, agreed=exp is not None and obs.outputs == exp,
                            timeouts=obs.settle_timeouts)
        return out
    finally:
        scratchdir.rm(d)


@st.composite
def cases(draw, workers=("sched", "sched", "sched", "debug", "cf")):
    prog = draw(st.one_of(
        G.mixed_programs(max_nodes=5, allow_nested=False, allow_wf_split=False),
        G.mixed_programs(max_nodes=5, allow_nested=False, allow_wf_split=False),
        # nodes that end up with zero jobs (split over a list that is empty at run time) and nodes
        # downstream of them
        G.template_programs(allow_nested=False, shapes=["inner_chain"])))
    worker = draw(st.sampled_from(list(workers)))
    case = dict(prog=prog, worker=worker, choices=draw(st.lists(st.integers(0, 7), max_size=40)),
                k=None, precache=0)
    if len(prog["nodes"]) > 1 and draw(st.integers(0, 3)) == 0:
        case["precache"] = draw(st.integers(1, len(prog["nodes"]) - 1))
    elif draw(st.integers(0, 3)) == 0:
        # second submission with rerun=True after a complete first run: every job runs again,
        # and again only after the jobs it consumes have finished in THIS run
        case["rerun"] = True
    return case


def run(sh):
    def body(case):
        try:
            jobs = RW.jobs_of(case["prog"])
        except RW.Undefined:
            sh.count("undefined_by_statement")
            return
        dependent = any(j["deps"] for j in jobs)
        un = sh.run_case(case, nontrivial=False, labels=[f"worker_{case['worker']}",
                                                         "precached" if case["precache"] else
                                                         "rerun_after_complete_run" if case.get("rerun") else "cold"],
                         raise_unattributed=True)
        obs = case.pop("_obs", {})
        if obs.get("timed_out"):
            sh.count("inconclusive_timed_out")
        real_choice = case["worker"] != "sched" or obs.get("max_blocked", 0) >= 2
        if obs.get("agreed"):
            sh.count("outputs_equal_reference")
        if obs.get("timeouts"):
            sh.count("settle_timeouts", obs["timeouts"])
        if dependent and real_choice:
            sh.record_case(case, True, labels=["nontrivial"])
            sh.evaluations -= 1  # record_case counted it a second time
        return un

    # the sequential loop is ~20x cheaper per case than the scheduled runs: give it its own, larger share
    sh.given(cases(workers=("debug",)), body, sh.budget(240, 6000), tag="debug")
    sh.given(cases(), body, sh.budget(48, 1600), tag="sched")
