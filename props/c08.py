"""C08  Value hashing is deterministic, discriminating and context-free.

Laws over the value grammar of vlib/gen/values.py:
 det   two independent rebuilds of one spec hash equal
 order permuting the insertion order of every dict/set leaves the hash unchanged
 disc  specs with different type/content (a one-aspect mutation, or an independent pair) hash
       differently
 ctx   the hash recorded for a sub-object x while hashing a container that holds x equals the
       hash of x alone, and hash([v,w]) == hash([v',w]) for a rebuilt-equal v'
"""
from __future__ import annotations

from hypothesis import strategies as st

from vlib import scratchdir
from vlib.gen import values as V
from vlib.harness import exception_signature, short

ID = "C08"
LEVEL = "exploration"
DESIGN_REF = "5/C08, 3.3"
RULE = (
    "cases = (law, value spec[, second spec]) from the typed value grammar (scalars incl. >64-bit "
    "ints, inf, complex, unicode str, bytes, paths, range/slice, list/tuple/dict/set/frozenset "
    "nestings incl. frozensets of frozensets, attrs and plain objects, types, functions built from "
    "source with closure/default/global parameters, numpy arrays with dtype/shape/order). "
    "Non-trivial = the value is a container/object/array/function (not a bare scalar); distinct = "
    "(law, canonical specs)."
)
ASSUMPTIONS = [
    "cyclic values are excluded (the recursion placeholder makes their hashes contextual by design)",
    "sets and dict keys are homogeneous and orderable (heterogeneous ones raise TypeError by design)",
    "numpy memory order (C/F) is not content; file name/location is not content",
]
SCALARS = {"none", "bool", "int", "float", "complex", "str", "bytes", "path", "range", "type"}


def H(obj):
    from pydra.utils.hash import hash_function

    return hash_function(obj)


def _dominant(spec_a, spec_b=None):
    ks = V.kinds(spec_a) - SCALARS
    for k in ("ndarray", "func", "frozenset", "set", "dict", "attrs", "obj", "slice", "tuple", "list"):
        if k in ks:
            return k
    return spec_a[0]


def aligned_children(v, w):
    """pairs of corresponding sub-specs of two specs with the same outer structure"""
    import json

    if v[0] != w[0]:
        return None
    t = v[0]
    if t in ("list", "tuple") and len(v[1]) == len(w[1]):
        return list(zip(v[1], w[1]))
    if t in ("set", "frozenset", "dict"):
        key = (lambda e: json.dumps(V.norm(e[0]), sort_keys=True)) if t == "dict" else (
            lambda e: json.dumps(V.norm(e), sort_keys=True))
        a = {key(e): e for e in v[1]}
        b = {key(e): e for e in w[1]}
        if t == "dict":
            if set(a) != set(b):
                return None
            return [(a[k][1], b[k][1]) for k in a]
        if set(a) == set(b):
            return [(a[k], b[k]) for k in a]
        if len(a) == len(b):
            only_a, only_b = sorted(set(a) - set(b)), sorted(set(b) - set(a))
            if len(only_a) == 1:
                return [(a[only_a[0]], b[only_b[0]])]
        return None
    if t in ("attrs", "obj") and v[1] == w[1]:
        return [(v[2][k], w[2][k]) for k in v[2]]
    if t == "slice":
        return list(zip(v[1:4], w[1:4]))
    return None


def minimal_pair(v, w, bad):
    """descend to the smallest aligned sub-spec pair on which `bad` still holds"""
    while True:
        kids = aligned_children(v, w)
        nxt = None
        for a, b in kids or []:
            if a != b:
                try:
                    if bad(a, b):
                        nxt = (a, b)
                        break
                except Exception:
                    pass
        if nxt is None:
            return v, w
        v, w = nxt


def describe_pair(v, w):
    """(label, kind) of the difference between two minimal specs"""
    if v[0] != w[0]:
        return "type", v[0]
    t = v[0]
    if t == "func":
        if v[1] != w[1]:
            return "func-template", t
        for name, lab in (("k", {"closure": "func-closure", "const": "func-body", "stmt": "func-body-stmt",
                                  "stmt1": "func-body-first-stmt", "mls": "func-body"}.get(v[1])),
                          ("g", "func-global" if v[1] == "global" else None), ("d", "func-default")):
            if lab and v[2].get(name, 0) != w[2].get(name, 0):
                return lab, t
        return "func", t
    if t == "ndarray":
        if v[1] != w[1]:
            return "dtype", t
        if list(v[2]) != list(w[2]):
            return "shape", t
        return "content", t
    if t in ("set", "frozenset") and v[1] and all(e[0] == "frozenset" for e in v[1]):
        return "content", t + "-of-frozensets"
    return "content", t


def check_case(case):
    law = case["law"]
    d = scratchdir.new("c08")
    try:
        try:
            if law == "det":
                a, b = V.build(case["v"], d / "a"), V.build(case["v"], d / "b")
                ha, hb = H(a), H(b)
                if ha != hb:
                    return [dict(signature=f"nondeterministic:{_dominant(case['v'])}",
                                 observed=[ha, hb], expected="equal hashes")]
            elif law == "order":
                a, b = V.build(case["v"], d / "a"), V.build(case["w"], d / "b")
                ha, hb = H(a), H(b)
                if ha != hb:
                    mv, mw = minimal_pair(case["v"], case["w"],
                                          lambda x, y: H(V.build(x, d / "m1")) != H(V.build(y, d / "m2")))
                    return [dict(signature=f"order-sensitive:{describe_pair(mv, mw)[1]}",
                                 observed=[ha, hb], expected="equal hashes",
                                 detail=dict(minimal=[mv, mw]))]
            elif law == "disc":
                if V.same(case["v"], case["w"]):  # (replay of a pair that is no longer a disc case)
                    return []
                a, b = V.build(case["v"], d / "a"), V.build(case["w"], d / "b")
                ha, hb = H(a), H(b)
                if ha == hb:
                    mv, mw = minimal_pair(case["v"], case["w"],
                                          lambda x, y: not V.same(x, y)
                                          and H(V.build(x, d / "m1")) == H(V.build(y, d / "m2")))
                    lab, kind = describe_pair(mv, mw)
                    return [dict(signature=f"collision:{lab}:{kind}",
                                 observed=ha, expected="different hashes",
                                 detail=dict(minimal=[mv, mw], values=f"{a!r:.200} vs {b!r:.200}"))]
            elif law == "ctx":
                from pydra.utils.hash import Cache, hash_object

                x = V.build(case["v"], d / "x")
                y = V.build(case["y"], d / "y")
                shape = case["shape"]
                cont = {
                    "list": lambda: [y, x],
                    "dict": lambda: {"z": x, "a": [x], "b": y},
                    "pair": lambda: (x, x),
                    "nest": lambda: [[x], y, x],
                    "attrs": lambda: V.P(a=y, b=x),
                    "after": lambda: [x, y, [y, x]],
                }[shape]()
                c = Cache()
                hash_object(cont, cache=c)
                inside = c[id(x)].hex()
                alone = H(x)
                if inside != alone:
                    return [dict(signature=f"context-dependent:{shape}:{_dominant(case['v'])}",
                                 observed=dict(embedded=inside, alone=alone), expected="equal")]
                x2 = V.build(case["v"], d / "x2")
                h1, h2 = H([x, y]), H([x2, y])
                if h1 != h2:
                    return [dict(signature=f"context-rebuild:{_dominant(case['v'])}",
                                 observed=[h1, h2], expected="equal")]
            return []
        except Exception as e:  # noqa
            return [dict(signature=exception_signature(e, f"hash-raises:{_dominant(case['v'])}"),
                         observed=short(e), expected="a hash")]
    finally:
        scratchdir.rm(d)


@st.composite
def cases(draw, law):
    v = draw(V.values())
    if law == "det":
        return dict(law=law, v=v)
    if law == "order":
        return dict(law=law, v=v, w=V.reorder(v, draw))
    if law == "disc":
        if draw(st.integers(0, 3)) == 0:
            w = draw(V.values())
            return dict(law=law, v=v, w=w, label="independent") if not V.same(v, w) else None
        m = draw(V.mutation_of(v))
        if m is None:
            return None
        lab, w = m
        return dict(law=law, v=v, w=w, label=lab, kind=_changed_kind(v, w))
    y = draw(V.values(max_leaves=4))
    return dict(law=law, v=v, y=y, shape=draw(st.sampled_from(
        ["list", "dict", "pair", "nest", "attrs", "after"])))


def _changed_kind(v, w):
    """kind of the smallest sub-spec that differs"""
    if v[0] != w[0]:
        return v[0]
    t = v[0]
    try:
        if t in ("list", "tuple", "set", "frozenset") and len(v[1]) == len(w[1]):
            diffs = [(a, b) for a, b in zip(v[1], w[1]) if a != b]
            if len(diffs) == 1:
                return _changed_kind(*diffs[0])
        if t == "dict" and len(v[1]) == len(w[1]):
            diffs = [(a[1], b[1]) for a, b in zip(v[1], w[1]) if a != b and a[0] == b[0]]
            if len(diffs) == 1:
                return _changed_kind(*diffs[0])
        if t in ("attrs", "obj") and v[1] == w[1]:
            diffs = [(v[2][k], w[2][k]) for k in v[2] if v[2][k] != w[2][k]]
            if len(diffs) == 1:
                return _changed_kind(*diffs[0])
    except Exception:
        pass
    return t


def run(sh):
    budgets = {"det": (1500, 40000), "order": (2500, 60000), "disc": (5000, 120000),
               "ctx": (2500, 60000)}
    for law, (q, t) in budgets.items():
        def body(case, law=law):
            if case is None:
                sh.count("discarded_no_mutation_or_equal_pair")
                return
            nt = (V.kinds(case["v"]) - SCALARS) != set()
            labels = [f"law_{law}"]
            if law == "disc":
                labels.append("mut_" + case.get("label", "independent"))
            if law == "order":
                labels.append("reordered" if case["v"] != case["w"] else "order_identical")
                nt = nt and case["v"] != case["w"]
            sh.run_case(case, nontrivial=nt, labels=labels, raise_unattributed=True)

        sh.given(cases(law), body, sh.budget(q, t), tag=law)
