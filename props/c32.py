"""C32  Task definitions survive dictionary round trips.

T2 = structure(unstructure(T))  (pydra.utils.general) for generated shell definitions
(vlib/gen/shellspec.py, decorated with help texts, allowed values, requirement sets, xor groups and
an output-file argument) and generated python definitions (typed arguments, defaults, allowed
values, requirement sets, xor groups, one or two outputs).
Oracle (round trip / differential): T2 has the same input and output fields (name, type, default
and every other field attribute), the same class name, executor and xor sets; unstructure(T2) ==
unstructure(T); and for generated input values the original and the re-created task give the same
outcome: same cmdline and same executed argv (shell), same outputs (python), or the same error.
When the dictionary is JSON-able the same is required after json.loads(json.dumps(d)).
"""
from __future__ import annotations

import json
import typing as ty

from hypothesis import strategies as st

from vlib import scratchdir
from vlib.gen import shellspec as G
from vlib.harness import exception_signature, short
from vlib.inject import shellargv as OBS

ID = "C32"
LEVEL = "exploration"
DESIGN_REF = "5/C32, 3.5"
TECHNIQUE = "round trip structure(unstructure(T)) + differential run of original vs re-created task"
RULE = (
    "cases = (kind shell: C22 definition of 1-5 fields, optionally with help texts, allowed_values, "
    "requires sets (with/without allowed values), xor groups (with/without None) and a templated "
    "output-file argument; kind python: function of 1-4 typed arguments int/str/float/bool/"
    "list[int] (optional or not, defaults, help, allowed_values, requires, xor) with one or two "
    "outputs; kind rules: a definition of the C31 generator (bool/Optional[bool]/Optional[str]/"
    "mandatory fields with requires alternatives and xor groups) as a python task; plus one value "
    "assignment). Non-trivial = the definition carries at least one "
    "non-default piece of metadata beyond name/type (default, help, position, sep, argstr, "
    "allowed_values, requires, xor, output) and >= 2 fields; distinct = canonical case."
)
ASSUMPTIONS = [
    "dictionary conversion = pydra.utils.general.unstructure / structure with default filter",
    "type objects stay Python objects in the dictionary, so the JSON leg only runs for the rare "
    "definitions whose dictionary is JSON-able (counted as json_leg)",
    "python functions are compared by identity (the dictionary holds the function object)",
    "outcome equality for failing inputs = same exception type and message (the comma/line "
    "separated parts of the message compared as a multiset: xor members are listed in set order)",
    "definitions pydra rejects at definition time (overlapping positions, rule references) are "
    "skipped and counted",
]
SHARDS = {"quick": 16, "thorough": 16}
LAST = {}

PY_TYPES = ("int", "str", "float", "bool", "list[int]")


def py_type(tname, optional):
    t = {"int": int, "str": str, "float": float, "bool": bool, "list[int]": list[int]}[tname]
    return (t | None) if optional else t


def build_python(spec):
    from pydra.compose import python

    names = [a["name"] for a in spec["args"]]
    nout = len(spec["outputs"])
    body = f"[{', '.join(names)}]"
    src = f"def {spec['name']}({', '.join(names)}):\n"
    src += f"    return {body}\n" if nout == 1 else f"    return {body}, {len(names)}\n"
    ns: dict = {}
    exec(src, ns)  # noqa: S102  (generated from a fixed template and identifier names)
    fn = ns[spec["name"]]
    inputs = {}
    for a in spec["args"]:
        kw = dict(type=py_type(a["type"], a.get("optional", False)))
        for k in ("default", "help", "allowed_values"):
            if k in a:
                kw[k] = a[k]
        if "requires" in a:
            kw["requires"] = G.requires_arg(a["requires"])
        inputs[a["name"]] = python.arg(**kw)
    outputs = {o["name"]: python.out(type=ty.Any if o["type"] == "any" else int,
                                     **({"help": o["help"]} if "help" in o else {}))
               for o in spec["outputs"]}
    return python.define(fn, inputs=inputs, outputs=outputs, xor=[list(x) for x in spec.get("xor", [])])


def build_rules(spec):
    """python task for a definition spec of the C31 generator (vlib/gen/rules.py, format in
    vlib/ref/rules.py)"""
    from pydra.compose import python

    kinds = {"bool": (bool, False), "optbool": (bool | None, None), "optstr": (str | None, None),
             "str": (str, ...), "mbool": (bool, ...)}
    names = [f["name"] for f in spec["fields"]]
    ns: dict = {}
    exec(f"def Rules({', '.join(names)}):\n    return [{', '.join(names)}]\n", ns)  # noqa: S102
    inputs = {}
    for f in spec["fields"]:
        tp, default = kinds[f["kind"]]
        kw = dict(type=tp)
        if default is not ...:
            kw["default"] = default
        if f.get("requires"):
            kw["requires"] = [[(t if allowed is None else (t, list(allowed))) for t, allowed in rs]
                              for rs in f["requires"]]
        inputs[f["name"]] = python.arg(**kw)
    return python.define(ns["Rules"], inputs=inputs, outputs=["out"],
                         xor=[list(g) for g in spec.get("xor", [])] or ())


# ---------------------------------------------------------------------------- comparison
def field_diffs(T, T2, outputs=False):
    import attrs
    from pydra.utils.general import get_fields

    a = get_fields(T.Outputs if outputs else T)
    b = get_fields(T2.Outputs if outputs else T2)
    na, nb = [f.name for f in a], [f.name for f in b]
    if sorted(na) != sorted(nb):
        return [("names", na, nb)]
    out = []
    if na != nb:
        out.append(("order", na, nb))
    bm = {f.name: f for f in b}
    for f in a:
        g = bm[f.name]
        if f == g and type(f) is type(g):
            continue
        if type(f) is not type(g):
            out.append((f"{f.name}:field-class", type(f).__name__, type(g).__name__))
            continue
        for at in attrs.fields(type(f)):
            x, y = getattr(f, at.name), getattr(g, at.name)
            if x != y:
                out.append((f"{f.name}:{at.name}", repr(x), repr(y)))
    return out


def outcome(fn):
    try:
        return ("ok", fn())
    except OBS.HarnessError:
        raise
    except Exception as e:  # noqa
        return ("raises", f"{type(e).__name__}: {e}")


def same_outcome(a, b) -> bool:
    """equal results, or the same error: rule messages list the members of an xor *set* in
    iteration order, so error messages are compared as multisets of their comma/line separated
    parts"""
    if a == b:
        return True
    if a[0] == b[0] == "raises":
        import re

        def parts(m):
            return sorted(x.strip() for x in re.split(r"[,\n]|: |[()]", m))

        return parts(a[1]) == parts(b[1])
    return False


def run_shell(T, case, d, tag):
    def cmdline():
        return G.make_task(case, d / "in", T).cmdline

    res = dict(cmdline=outcome(cmdline))
    try:
        task = G.make_task(case, d / "in", T)
    except Exception as e:  # noqa
        res["argv"] = res["run_error"] = ("raises", f"{type(e).__name__}: {e}")
        return res
    got, exc = OBS.recorded_full(task, d / f"cache-{tag}")
    # the recorder creates no output files: the error of the output collection (or of the rule
    # check) is part of the outcome, with the per-run cache directory name taken out
    res["argv"] = ("ok", None if got is None else [
        (a.replace(f"cache-{tag}", "cache") if isinstance(a, str) else a) for a in got])
    res["run_error"] = ("ok", None) if exc is None else (
        "raises", f"{type(exc).__name__}: {exc}".replace(f"cache-{tag}", "cache"))
    return res


def run_python(T, case, d, tag):
    def outs():
        o = T(**case["values"])(cache_root=d / f"cache-{tag}", worker="debug")
        from pydra.utils.general import get_fields

        return {f.name: getattr(o, f.name) for f in get_fields(type(o))}

    return dict(outputs=outcome(outs))


def compare(T, T2, case, d, leg, run):
    from pydra.utils.general import unstructure

    recs = []
    for what, outputs in (("input", False), ("output", True)):
        diffs = field_diffs(T, T2, outputs)
        if diffs:
            attr = diffs[0][0].split(":")[-1]
            recs.append(dict(signature=f"{leg}:{what}-field-differs:{attr}", observed=diffs[:6],
                             expected="equal fields"))
    if T.__name__ != T2.__name__:
        recs.append(dict(signature=f"{leg}:class-name-differs", observed=T2.__name__,
                         expected=T.__name__))
    if getattr(T, "_xor", None) != getattr(T2, "_xor", None):
        recs.append(dict(signature=f"{leg}:xor-differs", observed=repr(T2._xor), expected=repr(T._xor)))
    if recs:
        return recs
    try:
        d1, d2 = unstructure(T), unstructure(T2)
    except Exception as e:  # noqa
        return [dict(signature=exception_signature(e, f"{leg}:second-unstructure-raises"),
                     observed=short(e), expected="a dictionary")]
    for dd in (d1, d2):  # xor is a set of sets: its list form has no defined order
        if isinstance(dd.get("xor"), list):
            dd["xor"] = sorted((sorted(g, key=repr) for g in dd["xor"]), key=repr)
    if d1 != d2:
        keys = sorted(k for k in set(d1) | set(d2) if d1.get(k) != d2.get(k))
        recs.append(dict(signature=f"{leg}:dictionary-not-stable:{keys[0]}", observed=repr(d2)[:600],
                         expected=repr(d1)[:600]))
        return recs
    o1, o2 = run(T, case, d, leg + "-a"), run(T2, case, d, leg + "-b")
    LAST["run"] = {k: v[0] for k, v in o1.items()}
    for k in o1:
        if not same_outcome(o1[k], o2[k]):
            recs.append(dict(signature=f"{leg}:{k}-differs-after-round-trip", observed=o2[k],
                             expected=o1[k]))
            break
    return recs


def check_case(case):
    from pydra.utils.general import structure, unstructure

    LAST.clear()
    d = scratchdir.new("c32")
    try:
        try:
            if case["kind"] == "shell":
                T, run = G.build(case["spec"]), run_shell
            elif case["kind"] == "rules":
                T, run = build_rules(case["spec"]), run_python
            else:
                T, run = build_python(case["spec"]), run_python
        except Exception as e:  # noqa
            LAST["outcome"] = "definition_rejected:" + type(e).__name__
            return []
        try:
            dct = unstructure(T)
        except Exception as e:  # noqa
            return [dict(signature=exception_signature(e, "unstructure-raises"), observed=short(e),
                         expected="a dictionary")]
        shown = repr(dct)[:800]  # structure() replaces the field dictionaries in place
        try:
            T2 = structure(dct)
        except Exception as e:  # noqa
            fields = case["spec"]["args" if case["kind"] == "python" else "fields"]
            if any(f.get("requires") for f in fields) and "Requirement(name='requirements'" in str(e):
                # defect model: the unstructured form {'requirements': [...]} of a requirement
                # set is read back as a list of field names
                sig = "requires-dictionary-form-read-back-as-field-names"
            else:
                sig = exception_signature(e, "structure-raises")
            return [dict(signature=sig, observed=short(e), expected="a task class", detail=shown)]
        recs = compare(T, T2, case, d, "dict", run)
        if recs:
            return recs
        try:
            text = json.dumps(dct)
        except (TypeError, ValueError):
            LAST["outcome"] = "held"
            return []
        LAST["json_leg"] = True
        try:
            T3 = structure(json.loads(text))
        except Exception as e:  # noqa
            return [dict(signature=exception_signature(e, "structure-from-json-raises"),
                         observed=short(e), expected="a task class", detail=text[:800])]
        recs = compare(T, T3, case, d, "json", run)
        if not recs:
            LAST["outcome"] = "held"
        return recs
    finally:
        scratchdir.rm(d)


# ---------------------------------------------------------------------------- generation
HELPS = ["", "first option", "a 'quoted' help: 50%", "multi\nline help"]


def _optional_names(fields, key="name"):
    return [f[key] for f in fields if f.get("optional") or f["type"] == "bool"]


@st.composite
def rules(draw, fields):
    """decorate field dicts (in place) with help/allowed_values/requires; returns xor groups"""
    names = [f["name"] for f in fields]
    opt = _optional_names(fields)
    # requirement sets cannot be round-tripped at all on this tree (F-C32-1): keep them to a
    # sixth of the definitions so that the rest of the space is still searched
    with_requires = draw(st.integers(0, 5)) == 0
    for f in fields:
        if draw(st.integers(0, 2)) == 0:
            f["help"] = draw(st.sampled_from(HELPS[1:]))
        if f["type"] == "str" and draw(st.integers(0, 4)) == 0:
            f["allowed_values"] = ["w", "xy", "dflt"] + ([None] if f.get("optional") else [])
        if f["type"] == "int" and draw(st.integers(0, 5)) == 0:
            f["allowed_values"] = [0, 1, 5, 7] + ([None] if f.get("optional") else [])
        if with_requires and f["name"] in opt and len(names) > 1 and draw(st.integers(0, 1)) == 0:
            others = [n for n in names if n != f["name"]]
            sets = []
            for _ in range(draw(st.integers(1, 2))):
                rs = []
                for n in draw(st.lists(st.sampled_from(others), min_size=1, max_size=2, unique=True)):
                    tgt = next(x for x in fields if x["name"] == n)
                    if tgt["type"] == "str" and draw(st.booleans()):
                        rs.append([n, ["w", "xy"]])
                    else:
                        rs.append(n)
                sets.append(rs)
            f["requires"] = sets
    xor = []
    if len(opt) >= 2 and draw(st.integers(0, 2)) == 0:
        grp = draw(st.lists(st.sampled_from(opt), min_size=2, max_size=3, unique=True))
        xor.append(grp + ([None] if draw(st.booleans()) else []))
    return xor


@st.composite
def shell_case(draw):
    spec = draw(G.specs())
    xor = draw(rules(spec["fields"]))
    if xor:
        spec["xor"] = xor
    if draw(st.integers(0, 3)) == 0:
        strs = [f["name"] for f in spec["fields"] if f["type"] == "str" and not f.get("optional")]
        tmpl = ("{" + strs[0] + "}_out.txt") if strs and draw(st.booleans()) else "result.txt"
        used = {f["position"] for f in spec["fields"]}
        pos = draw(st.sampled_from([p for p in (None, -1, -2, 9) if p is None or p not in used]))
        spec["outputs"] = [dict(name="out_file", path_template=tmpl,
                                argstr=draw(st.sampled_from(["-o", "", "--out={out_file}"])),
                                position=pos)]
    # values restricted so that allowed_values are often respected
    values = draw(G.values_for(spec, G.WORDS))
    for f in spec["fields"]:
        if "allowed_values" in f and values.get(f["name"]) is not None and draw(st.integers(0, 3)):
            values[f["name"]] = draw(st.sampled_from([v for v in f["allowed_values"] if v is not None]))
    return dict(kind="shell", spec=spec, values=values, append_args=draw(G.append_args(G.WORDS)))


@st.composite
def python_case(draw):
    n = draw(st.integers(1, 4))
    names = draw(st.permutations(G.NAMES))[:n]
    args = []
    for name in names:
        tname = draw(st.sampled_from(PY_TYPES))
        a = dict(name=name, type=tname, optional=False)
        r = draw(st.integers(0, 9))
        if r <= 3:
            a["optional"], a["default"] = True, None
        elif r <= 5:
            a["default"] = {"int": 5, "str": "dflt", "float": 0.25, "bool": False,
                            "list[int]": [1, 2]}[tname]
        args.append(a)
    xor = draw(rules(args))
    outs = [dict(name="out", type="any")]
    if draw(st.integers(0, 2)) == 0:
        outs = [dict(name="out", type="any", help="everything"), dict(name="n", type="int")]
    spec = dict(name="fn" + str(draw(st.integers(0, 2))), args=args, outputs=outs)
    if xor:
        spec["xor"] = xor
    values = {}
    for a in args:
        r = draw(st.integers(0, 9))
        if "default" in a and r == 0:
            continue
        if a["optional"] and r <= 3:
            values[a["name"]] = None
            continue
        if "allowed_values" in a and r <= 7:
            values[a["name"]] = draw(st.sampled_from([v for v in a["allowed_values"] if v is not None]))
            continue
        values[a["name"]] = {
            "int": st.sampled_from([0, 1, 7]), "str": st.sampled_from(["w", "xy", "q"]),
            "float": st.sampled_from([0.0, 1.5]), "bool": st.booleans(),
            "list[int]": st.lists(st.integers(0, 3), max_size=3)}[a["type"]]
        values[a["name"]] = draw(values[a["name"]])
    return dict(kind="python", spec=spec, values=values)


@st.composite
def rules_case(draw):
    """a definition of the C31 generator plus one assignment from its value domains"""
    from vlib.gen import rules as GR
    from vlib.ref import rules as RR

    spec = draw(GR.definitions())
    if draw(st.integers(0, 2)) == 0:  # F-C32-1: also explore definitions without requirement sets
        for f in spec["fields"]:
            f["requires"] = []
    values = {}
    for f in spec["fields"]:
        v = draw(st.sampled_from(RR.DOMAIN[f["kind"]]))
        if not (isinstance(v, str) and v == RR.UNSET):
            values[f["name"]] = v
    return dict(kind="rules", spec=spec, values=values)


def metadata_labels(case):
    spec = case["spec"]
    fields = spec["args"] if case["kind"] == "python" else spec["fields"]
    labs = set()
    for f in fields:
        if "default" in f:
            labs.add("meta_default")
        for k in ("help", "allowed_values", "requires"):
            if f.get(k):
                labs.add("meta_" + k)
        if case["kind"] == "rules" and f["kind"] not in ("str", "mbool"):
            labs.add("meta_default")
        if case["kind"] == "shell":
            if f.get("position") is not None:
                labs.add("meta_position")
            if f.get("sep") is not None:
                labs.add("meta_sep")
            if f.get("argstr") not in ("",):
                labs.add("meta_argstr")
    if spec.get("xor"):
        labs.add("meta_xor")
    if spec.get("outputs") and case["kind"] == "shell":
        labs.add("meta_outarg")
    if case["kind"] == "python" and len(spec["outputs"]) > 1:
        labs.add("meta_two_outputs")
    return labs, len(fields)


def run(sh):
    plan = [("shell", shell_case(), (500, 12000)), ("python", python_case(), (300, 8000))]
    try:
        import vlib.gen.rules  # noqa: F401
        import vlib.ref.rules  # noqa: F401

        plan.append(("rules", rules_case(), (160, 4000)))
    except ImportError:
        sh.note("C31 generator (vlib/gen/rules.py) not importable: kind 'rules' skipped")
    for kind, strat, (q, t) in plan:
        def body(case):
            labs, nf = metadata_labels(case)
            sh.run_case(case, nontrivial=bool(labs) and nf >= 2,
                        labels=[f"kind_{case['kind']}"] + sorted(labs), raise_unattributed=True)
            if LAST.get("outcome"):
                sh.count(LAST["outcome"])
            if LAST.get("json_leg"):
                sh.count("json_leg")
            for k, v in (LAST.get("run") or {}).items():
                sh.count(f"original_{k}_{v}")

        sh.given(strat, body, sh.budget(q, t), tag=kind)
