"""C07  Identical computations map to the same cache identity in every session.

Each shard starts long-lived interpreters (vlib/hashserver.py) with PYTHONHASHSEED 0, 1, 2 and a
large seed; one value spec is built in every one of them - with the insertion order of every
dict/set permuted differently per session and optionally through a cloudpickle round trip - as
the input of the same task, and all `Task._checksum` values must agree.  A sample additionally
runs the task under the debug and the process-pool worker into two different cache roots and
compares the cache directory names with the checksum computed up front.
"""
from __future__ import annotations

import json
import os
import subprocess
import sys

from hypothesis import strategies as st

from vlib import scratchdir
from vlib.gen import values as V
from vlib.harness import HOME, HarnessError

ID = "C07"
LEVEL = "exploration"
DESIGN_REF = "5/C07, 3.3"
RULE = (
    "cases = (value spec from the value grammar incl. nested dicts/sets/frozensets of frozensets, "
    "numbers, str, bytes, paths, numpy arrays, files, functions; one permutation of every dict/set "
    "insertion order per session; pickle round trip on/off), evaluated in 4 interpreters with "
    "PYTHONHASHSEED in {0,1,2,4242424242}; plus task classes with two xor groups; plus a sample "
    "executed under debug and cf workers into two cache roots. Non-trivial = the value holds an "
    "unordered container with >=2 elements; distinct = canonical spec."
)
ASSUMPTIONS = [
    "sessions are fresh interpreters on one host; different hosts/filesystems are not simulated",
    "file inputs are shared (same path) between sessions: file identity is content + path-free",
    "heterogeneous (unorderable) sets and dict keys are not generated",
]
SEEDS = ["0", "1", "2", "4242424242"]


class Servers:
    def __init__(self):
        self.procs = []
        for s in SEEDS:
            env = dict(os.environ)
            env["PYTHONHASHSEED"] = s
            p = subprocess.Popen([sys.executable, "-m", "vlib.hashserver"], stdin=subprocess.PIPE,
                                 stdout=subprocess.PIPE, text=True, env=env, cwd=str(HOME))
            self.procs.append(p)
        probes = [self.ask(i, dict(op="seed")) for i in range(len(self.procs))]
        if len({p["probe"] for p in probes}) < 2:
            raise HarnessError(f"hash randomisation does not vary between servers: {probes}")

    def ask(self, i, req):
        p = self.procs[i]
        p.stdin.write(json.dumps(req) + "\n")
        p.stdin.flush()
        line = p.stdout.readline()
        if not line:
            raise HarnessError(f"hash server {i} died")
        return json.loads(line)

    def close(self):
        for p in self.procs:
            try:
                p.stdin.close()
                p.wait(timeout=5)
            except Exception:
                p.kill()


_servers = None


def servers():
    global _servers
    if _servers is None:
        _servers = Servers()
        import atexit

        atexit.register(_servers.close)
    return _servers


def blame(spec, variants, d):
    """smallest sub-spec (by position in the original spec) whose hash differs between sessions"""
    sv = servers()
    best = None
    for path in V.paths(spec):
        sub = V.get_at(spec, path)
        hs = set()
        for i in range(len(SEEDS)):  # same sub-spec in every session: seed dependence
            r = sv.ask(i, dict(op="hash", spec=sub, scratch=str(d / "v")))
            hs.add(r.get("hash") or r.get("error"))
        # reversed insertion order in one session: order dependence
        r = sv.ask(0, dict(op="hash", spec=_reversed(sub), scratch=str(d / "v")))
        hs.add(r.get("hash") or r.get("error"))
        if len(hs) > 1 and (best is None or len(json.dumps(sub)) < len(json.dumps(best))):
            best = sub
    if best is None:
        return "whole-task"
    kind = best[0]
    if kind in ("set", "frozenset") and best[1] and all(e[0] == "frozenset" for e in best[1]):
        kind += "-of-frozensets"
    return kind


def _reversed(spec):
    t = spec[0]
    if t in ("list", "tuple"):
        return [t, [_reversed(s) for s in spec[1]]]
    if t == "dict":
        return [t, [[k, _reversed(v)] for k, v in spec[1]][::-1]]
    if t in ("set", "frozenset"):
        return [t, [_reversed(s) for s in spec[1]][::-1]]
    if t in ("attrs", "obj"):
        return [t, spec[1], {k: _reversed(v) for k, v in spec[2].items()}]
    return spec


def check_case(case):
    sv = servers()
    d = scratchdir.new("c07")
    try:
        if case.get("mode") == "xor":
            outs = [sv.ask(i, dict(op="xor")) for i in range(len(SEEDS))]
            bad = [k for k in ("cls", "inst", "split") if len({o.get(k) or o.get("error") for o in outs}) > 1]
            if bad:
                return [dict(signature="xor-task-identity-differs-across-sessions:" + "+".join(bad),
                             observed=outs, expected="equal")]
            return []
        spec, variants = case["spec"], case["variants"]
        # files are created once by this process; the sessions only read them
        V.build(spec, d / "v")
        outs = []
        for i in range(len(SEEDS)):
            outs.append(sv.ask(i, dict(op="checksum", spec=variants[i], scratch=str(d / "v"),
                                       pickle=bool(case.get("pickle")) and i % 2 == 1)))
        errs = [o for o in outs if "error" in o]
        if errs:
            if len(errs) == len(outs) and "TypeError" in errs[0]["error"]:
                return []  # rejected in every session alike (unhashable by design)
            return [dict(signature="hash-raises-in-some-session:" + errs[0]["error"].split(":")[0],
                         observed=[o.get("error", "ok") for o in outs], expected="same behaviour")]
        recs = []
        if len({o["checksum"] for o in outs}) > 1:
            recs.append(dict(signature="checksum-differs-across-sessions:" + blame(spec, variants, d),
                             observed=[o["checksum"] for o in outs], expected="one checksum",
                             detail=dict(seeds=SEEDS, pickled_in=[i for i in range(len(SEEDS)) if case.get("pickle") and i % 2])))
        if case.get("run"):
            recs.extend(run_workers(spec, d, outs[0]["checksum"]))
        return recs
    finally:
        scratchdir.rm(d)


def run_workers(spec, d, expected_checksum):
    """cache directory names produced by actually running the task under two workers/roots"""
    from vlib.tasks import Tag

    recs = []
    names = {}
    for worker, root in (("debug", d / "rootA"), ("cf", d / "some" / "other" / "rootB")):
        root.mkdir(parents=True)
        val = V.build(spec, d / "v")
        try:
            Tag(a=val)(cache_root=root, worker=worker)
        except Exception as e:  # noqa
            from vlib.harness import exception_signature, short

            recs.append(dict(signature=exception_signature(e, f"run-{worker}-raises"),
                             observed=short(e), expected="runs"))
            continue
        names[worker] = sorted(p.name for p in root.iterdir() if p.is_dir())
    for worker, ns in names.items():
        if ns != [expected_checksum]:
            recs.append(dict(signature=f"cache-dir-name-differs:{worker}",
                             observed=ns, expected=[expected_checksum]))
    return recs


@st.composite
def cases(draw, run=False):
    if draw(st.integers(0, 2)) == 0:
        spec = draw(V.values(max_leaves=10, with_files=True))
    else:  # unordered-heavy: dicts/sets with >= 2 entries whose values hold further sets
        inner = st.one_of(V.sets(), V.sets(), V.values(max_leaves=4, with_files=True))
        keyk = draw(st.sampled_from(["int", "str"]))
        items = draw(st.lists(st.tuples(V.hashable_atoms(keyk), inner).map(list), min_size=2, max_size=5))
        spec = ["dict", V._uniq_keys(items)]
        if draw(st.booleans()):
            spec = [draw(st.sampled_from(["list", "tuple"])), [spec, draw(V.sets())]]
    variants = [V.reorder(spec, draw) for _ in SEEDS]
    return dict(spec=spec, variants=variants, pickle=draw(st.booleans()), run=run)


def run(sh):
    sh.run_case(dict(mode="xor"), nontrivial=True, labels=("xor_task",))

    def body(case):
        nt = V.has_unordered(case["spec"])
        labels = ["unordered" if nt else "ordered_only"]
        if any(v != case["spec"] for v in case["variants"]):
            labels.append("reordered_variant")
        if "frozenset" in V.kinds(case["spec"]):
            labels.append("has_frozenset")
        if case["run"]:
            labels.append("executed_debug_and_cf")
        sh.run_case(case, nontrivial=nt, key=V.norm(case["spec"]), labels=labels,
                    raise_unattributed=True)

    sh.given(cases(), body, sh.budget(1200, 16000), tag="sessions")
    sh.given(cases(run=True), body, sh.budget(32, 400), tag="run")
    if _servers is not None:
        _servers.close()
