"""C22  Shell argument vector follows the documented field semantics.

Generated shell definitions (vlib/gen/shellspec.py) x value assignments from the word alphabet;
the argv handed to `pydra.environments.base.execute` (recorder, normal job path, debug worker) is
compared with the reference argv written from the statement (vlib/ref/argv.py).  Deviations are
attributed with defect models (gap-filling of positions, separator inside '...' lists, falsy
scalars dropped, class-form definitions ordered by field name); anything a model does not
reproduce exactly keeps its own signature.
"""
from __future__ import annotations

from hypothesis import strategies as st

from vlib import scratchdir
from vlib.gen import shellspec as G
from vlib.harness import exception_signature, short
from vlib.inject import shellargv as OBS
from vlib.ref import argv as R

ID = "C22"
LEVEL = "exploration"
DESIGN_REF = "5/C22, 3.5"
TECHNIQUE = "generated definitions x assignments vs independent reference argv (defect models)"
RULE = (
    "cases = (shell definition of 1-5 fields over bool/str/int/float/File/list[str]/list[int]/"
    "MultiInputObj[str] (optional or not, default or mandatory), argstr plain/templated/'...'/"
    "empty/None, position None / small or large non-negative / negative without duplicates, "
    "separator ' ' ',' ':', executable str, list or tuple (at definition or at instantiation), "
    "definition written in the functional form shell.define(executable, inputs=...) (2 in 3) or "
    "as a decorated class (1 in 3, always for a tuple executable); one value assignment from "
    "the word alphabet incl. None, False, 0, 0.0, empty and single-value multi-inputs; "
    "append_args). Three assignments are drawn per definition. Non-trivial = >= 3 fields contribute arguments and "
    "(>= 2 position kinds among them or a list-valued field); distinct = canonical case."
)
ASSUMPTIONS = [
    "argv is observed at pydra.environments.base.execute (what Native.execute hands to the "
    "process layer); the process itself is not spawned here (C23 does that)",
    "readings of the statement fixed in vlib/ref/argv.py: argstr None = not part of the command; "
    "templated argstr is split at its own blanks and the value substituted verbatim; "
    "MultiInputObj repeats its argstr per element with or without '...' (tutorial) -- the literal "
    "reading of the statement (joined when there is no '...') is accepted too; numbers via str()",
    "left open by the statement and skipped (counted as undefined_by_statement): a blank-joined "
    "list inside a template, an empty plain list, a bool field with an empty/templated argstr",
    "a definition-time ValueError 'overlapping positions' (a negative position p is identified "
    "with slot n+1+p) is a clean rejection, counted, not a violation",
    "word alphabet only: quoting/tokenisation of values is C23/C24",
    "the executable's type is str | Sequence[str]: list and tuple are the sequence types "
    "generated; a tuple can only be given through the class form or at instantiation because "
    "shell.define(<non-class>) accepts str and list only (builder.py: 'wrapped must be a class or "
    "a string')",
    "CrossHair is not installed in this environment; the position_sort helper is checked with "
    "Hypothesis-generated position lists instead (L1, label helper_position_sort)",
]
SHARDS = {"quick": 16, "thorough": 16}

SIG = {
    R.GAPFILL: "order:unpositioned-fields-fill-position-gaps",
    R.SEPREP: "content:separator-appended-inside-repeated-list",
    R.FALSY: "content:falsy-scalar-dropped",
    R.CLASSALPHA: "order:class-form-fields-in-alphabetical-order",
}
C22_DEFECTS = (R.GAPFILL, R.SEPREP, R.FALSY, R.CLASSALPHA)


def observe(case, d):
    """-> ('defrej', msg) | ('undefined', why) | ('exc', stage, exception) | ('argv', list)"""
    spec = case["spec"]
    try:
        T = G.build(spec)
    except ValueError as e:
        if "overlapping positions" in str(e):
            return ("defrej", short(e))
        return ("exc", "define", e)
    except Exception as e:  # noqa
        return ("exc", "define", e)
    try:
        task = G.make_task(case, d / "in", T)
    except Exception as e:  # noqa
        return ("exc", "construct", e)
    try:
        got = OBS.recorded(task, d / "cache")
    except OBS.HarnessError:
        raise
    except Exception as e:  # noqa
        return ("exc", "run", e)
    return ("argv", got)


def check_helper(case):
    """L1: pydra.utils.general.position_sort against the ordering of the statement"""
    try:
        from pydra.utils.general import position_sort
    except ImportError:
        return []
    entries = [(p, [lab]) for p, lab in case["entries"]]
    exp = ([a for p, a in sorted((e for e in entries if e[0] is not None and e[0] >= 0),
                                 key=lambda e: e[0])]
           + [a for p, a in entries if p is None]
           + [a for p, a in sorted((e for e in entries if e[0] is not None and e[0] < 0),
                                   key=lambda e: e[0])])
    try:
        got = position_sort(entries)
    except Exception as e:  # noqa
        return [dict(signature=exception_signature(e, "position_sort-raises"), observed=short(e),
                     expected=exp)]
    if got != exp:
        return [dict(signature="position_sort-order", observed=got, expected=exp)]
    return []


def check_case(case):
    if "helper" in case:
        return check_helper(case)
    d = scratchdir.new("c22")
    try:
        spec = G.effective_spec(case)
        rv = G.resolved(spec, case["values"], d / "in")
        try:
            exp = R.argv(spec, rv, case.get("append_args"))
        except R.Undefined:
            return []
        obs = observe(case, d)
        if obs[0] == "defrej":
            return []
        if obs[0] == "exc":
            _, stage, e = obs
            return [dict(signature=exception_signature(e, f"{stage}-raises"), observed=short(e),
                         expected=exp)]
        got = obs[1]
        if got == exp or got in R.acceptable(spec, rv, case.get("append_args")):
            return []
        s = R.explain(spec, rv, case.get("append_args"), got, C22_DEFECTS)
        if s:
            return [dict(signature=SIG[x], observed=got, expected=exp,
                         detail=f"observed argv equals the defect model {'+'.join(s)}") for x in s]
        if all(isinstance(x, str) for x in got) and sorted(got) == sorted(exp):
            sig = "order:other"
        else:
            sig = "content:other"
        return [dict(signature=sig, observed=got, expected=exp)]
    finally:
        scratchdir.rm(d)


def describe(case):
    """(nontrivial, labels) computed from the spec alone (no pydra)"""
    spec, labels = G.effective_spec(case), []
    try:
        rv = G.resolved(spec, case["values"], "/w")
        R.argv(spec, rv, case.get("append_args"))
    except R.Undefined:
        return False, ["undefined_by_statement"]
    contributing = [f for f in spec["fields"] if G.is_set(f, rv[f["name"]])]
    kinds = G.position_kinds(dict(fields=contributing))
    has_list = any(f["type"] in G.LIST_TYPES for f in contributing)
    nt = len(contributing) >= 3 and (len(kinds) >= 2 or has_list)
    labels.append("poskinds_" + "+".join(sorted(kinds)) if kinds else "no_field_contributes")
    for f in contributing:
        a = f["argstr"]
        labels.append("argstr_" + ("repeat" if a.endswith("...") else "templated" if "{" in a
                                   else "bare" if a == "" else "plain"))
        labels.append("type_" + f["type"])
    labels = sorted(set(labels))
    ps = [f["position"] for f in spec["fields"] if f["position"] is not None and f["position"] > 0]
    if ps and any(f["position"] is None for f in spec["fields"]):
        labels.append("explicit_nonneg_with_unpositioned")
    if any(v == 0 and v is not False for v in rv.values()):
        labels.append("has_zero_scalar")
    if any(f["type"] == "multi[str]" and isinstance(rv[f["name"]], str) for f in spec["fields"]):
        labels.append("multi_single_value")
    if case.get("append_args"):
        labels.append("append_args")
    form = G.executable_form(case)
    if form != "str":
        labels.append("executable_" + form)
    if case["spec"].get("style") == "class":
        labels.append("definition_style_class")
    if case.get("executable_override") is not None:
        labels.append("executable_given_at_instantiation")
    if any(R.two_readings(f, rv[f["name"]]) for f in spec["fields"]):
        labels.append("multi_without_ellipsis_two_readings_accepted")
    return nt, labels


def run(sh):
    def body(group):
        for case in group:
            nt, labels = describe(case)
            if "undefined_by_statement" not in labels and G.slots_collide(case["spec"]):
                labels.append("definition_rejected_overlap_expected")
                nt = False
            sh.run_case(case, nontrivial=nt, labels=labels, raise_unattributed=True)

    sh.given(G.cases(G.WORDS, assignments=3, styles=("function", "function", "class"),
                     exe_seqs=("list", "tuple")), body, sh.budget(1200, 30000), tag="defs")

    def helper_body(ps):
        case = dict(helper="position_sort", entries=[[p, f"x{i}"] for i, p in enumerate(ps)])
        kinds = {("none" if p is None else "neg" if p < 0 else "nonneg") for p in ps}
        sh.run_case(case, nontrivial=len(kinds) >= 2 and len(ps) >= 3, labels=["helper_position_sort"],
                    raise_unattributed=True)

    positions = st.tuples(st.lists(st.integers(-6, 8), max_size=5, unique=True),
                          st.integers(0, 3)).flatmap(
        lambda t: st.permutations(t[0] + [None] * t[1]))
    sh.given(positions, helper_body, sh.budget(400, 20000), tag="position_sort")
