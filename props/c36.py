"""C36  Provenance records are complete and consistent.

Every task of a small pool (succeeding / failing python and shell tasks, two-node workflows that
succeed, fail in the second node, fail in the first node), with the audit flags PROV and ALL, under
the debug and the cf worker, is submitted in a forked child with a `FileMessenger` that is either
given a scratch message directory or left at its default location (`<cwd at send time>/messages`;
the child's working directory is a scratch directory, every directory called `messages` below the
case's scratch directory is then read).  The `.jsonld` files are parsed and the records classified
BY THEIR KEYS:

  start record        "@type" == "job" and a "startedAtTime" key (lower-case s) and "@id"
  end record          "endedAtTime" and an "errored" key and "@id"
  (descriptive record "@type" == "job" with "StartedAtTime"/"Label"/"Command": same @id, not a start;
   monitor records    "@type" == "monitor" / "wasEndedBy"; runtime / prov:Generation: ignored)

Oracle: number of start records == number of executed jobs (the workflow job itself and every node
job whose body ran - counted from the body log and the result files, not from the messages); ids of
start records are pairwise different; every start id has exactly one end record; no end record
without a start record; the `errored` flags of the end records equal, job by job where the
descriptive record names the job (`Label`) and as a multiset otherwise, the `errored` flag of the
job's stored result; the start and the end record of one activity lie in the same message directory.
"""
from __future__ import annotations

import json
from pathlib import Path

from hypothesis import strategies as st

from vlib import scratchdir
from vlib.gen import faults as G
from vlib.harness import HarnessError
from vlib.inject import linefault as LF

ID = "C36"
LEVEL = "exploration"
DESIGN_REF = "5/C36"
TECHNIQUE = "pool x flags x workers enumeration with generated inputs; invariant over parsed .jsonld records"
RULE = (
    "cases = (task kind from the pool {python, shell} x {succeeds, fails}, two-node workflow "
    "{succeeds, second node fails, first node fails}) x worker {debug, cf} x audit flag {PROV, ALL} x "
    "message location {explicit message_dir, messenger default <cwd>/messages} x generated integer "
    "input; each case is one real submission whose message directories are parsed. Every case is "
    "non-trivial (at least one job executes with auditing on); distinct = (kind, flag, location, x)."
)
ASSUMPTIONS = [
    "records are identified by their keys as written by pydra/engine/audit.py on this tree",
    "the executed jobs are known independently: bodies append to a log, results are read from the cache",
    "only FileMessenger is exercised (PrintMessenger / RemoteRESTMessenger are not)",
    "a message directory is the unit a consumer reads (collect_messages(dir)): 'one start and one "
    "end record for the same activity' is demanded within one directory; WHERE the default location "
    "puts the records of a job is not demanded",
    "with the default location the submitting process and the pool workers start in a scratch "
    "directory, so no messages/ directory can appear outside the scratch area",
]
SHARDS = {"quick": 16, "thorough": 16}
WALL = {"quick": 200, "thorough": 1200}

POOL = ["python", "python_fail", "shell", "shell_fail", "wf_debug", "wf_fail_debug",
        "wf_fail1_debug", "python_cf", "python_fail_cf", "shell_cf", "shell_fail_cf", "wf_cf",
        "wf_fail_cf", "wf_fail1_cf"]
FLAGS = ["PROV", "ALL"]
MSGDIRS = ["explicit", "default"]
RUN_TIMEOUT = 300.0
LAST: dict = {}


def parse_messages(msgdir: Path):
    starts, ends, descr, other, bad = [], [], [], [], []
    if not msgdir.exists():
        return starts, ends, descr, other, bad
    for f in sorted(msgdir.glob("*.jsonld")):
        try:
            m = json.loads(f.read_text())
        except ValueError:
            bad.append(f.name)
            continue
        if not isinstance(m, dict):
            bad.append(f.name)
        elif m.get("@type") == "job" and "startedAtTime" in m and "@id" in m:
            starts.append(m)
        elif "endedAtTime" in m and "errored" in m and "@id" in m:
            ends.append(m)
        elif m.get("@type") == "job" and ("StartedAtTime" in m or "Label" in m):
            descr.append(m)
        else:
            other.append(m)
    return starts, ends, descr, other, bad


def message_dirs(cd: G.CaseDir, where):
    """the directories the messenger may have written to"""
    if where == "explicit":
        return [cd.msgs]
    return sorted(p for p in cd.dir.rglob("messages") if p.is_dir())


def _child(spec, cd: G.CaseDir):
    res = G.submit(spec, cd)
    # stored results of every job directory, read by the same process that ran them
    import cloudpickle as cp

    jobs, errs = {}, {}
    for name, dn in G.job_dirs(cd.cache).items():
        rf = cd.cache / dn / "_result.pklz"
        flag = None
        if rf.exists():
            try:
                with open(rf, "rb") as fp:
                    flag = bool(cp.load(fp).errored)
            except Exception:
                flag = "unreadable"
        jobs[name] = flag
        ef = cd.cache / dn / "_error.pklz"
        if flag is True and ef.exists():
            try:
                with open(ef, "rb") as fp:
                    errs.setdefault(name, "".join(cp.load(fp)["error message"])[-600:])
            except Exception:
                pass
    res["jobs"] = jobs
    res["errors"] = errs
    return res


def expected_jobs(kind) -> dict:
    """{job name: errored} for the jobs that must have executed"""
    k = G.KINDS[kind]
    t = k["task"]
    if t in ("FInc", "ShOk"):
        return {"main": False}
    if t in ("FBoom", "ShFail"):
        return {"main": True}
    if t == "FWf":
        return {"main": False, "A": False, "B": False}
    if t == "FWfFail":
        return {"main": True, "A": False, "B": True}
    if t == "FWfFailFirst":
        return {"main": True, "A": True}
    raise HarnessError(kind)


def shared_audit_model(kind, flag, starts, ends, res):
    """Defect model: a workflow job and its node jobs use ONE Audit object (Job.__init__ takes
    submitter.audit).  Under the debug worker each node's start_audit overwrites the activity id
    (and, with RESOURCE, the resource monitor) of the enclosing workflow job; under cf the node job
    that is pickled for the pool carries the workflow's running ResourceMonitor.
    PROV: the workflow's end record carries the id of the node started last -> exactly the first
    started activity has no end and exactly the last started one has two.
    ALL:  the first node job is pickled (save(job=...) in _populate_filesystem) together with the
          shared Audit object that holds the workflow's running ResourceMonitor thread and its open
          log file -> PicklingError in result.save (or, if pickling got through, the workflow's
          finalize_audit would find resource_monitor == None -> AttributeError)."""
    k = G.KINDS[kind]
    if not k["task"].startswith("FWf"):
        return False
    if flag == "ALL":
        r = res.get("raised") or {}
        if r.get("type") == "PicklingError" and r.get("sig", "").endswith("result.py:save"):
            return "not opened for reading" in (r.get("msg") or "")
        if r.get("type") == "AttributeError" and "finalize_audit" in (r.get("sig") or ""):
            return "stop" in (r.get("msg") or "")
        # cf: the submission returns an errored workflow result; cp.dumps(job) in the worker failed
        return (not r and (res.get("jobs") or {}).get("main") is True and not res.get("bodies_ran")
                and "Cannot pickle files that are not opened for reading"
                in ((res.get("errors") or {}).get("main") or ""))
    if k["worker"] != "debug":
        return False
    by_time = sorted(starts, key=lambda m: m["startedAtTime"])
    if len(by_time) < 2:
        return False
    ids = [m["@id"] for m in by_time]
    cnt: dict = {}
    for e in ends:
        cnt[e["@id"]] = cnt.get(e["@id"], 0) + 1
    predicted = {i: 1 for i in ids[1:]}
    predicted[ids[-1]] = 2
    return cnt == predicted


def check_case(case):
    LAST.clear()
    kind, flag = case["kind"], case["flag"]
    where = case.get("msgdir", "explicit")
    spec = {"kind": kind, "x": case["x"], "audit": flag, "msgdir": where}
    d = scratchdir.new("c36")
    try:
        cd = G.CaseDir(d)
        r = LF.run_forked(lambda: _child(spec, cd), RUN_TIMEOUT, d / "run.json", d / "run.log")
        if r["status"] == "timeout":
            LAST["outcome"] = "timeout_inconclusive"
            return []
        if r["status"] != "ok":
            raise HarnessError(f"C36 child ended {r['status']}: {(d / 'run.log').read_text()[-1500:]}")
        res = r["result"]
        res["bodies_ran"] = bool(cd.body_counts())
        starts, ends, descr, other, bad = [], [], [], [], []
        dir_of_start, dir_of_end = {}, {}
        mdirs = message_dirs(cd, where)
        for md in mdirs:
            parts = parse_messages(md)
            rel = str(md.relative_to(cd.dir))
            for m in parts[0]:
                dir_of_start.setdefault(m["@id"], rel)
            for m in parts[1]:
                dir_of_end.setdefault(m["@id"], rel)
            for acc, part in zip((starts, ends, descr, other, bad), parts):
                acc += part
        LAST["n_message_dirs"] = len(mdirs)
        exp = expected_jobs(kind)
        bodies = cd.body_counts()
        LAST.update(outcome="ran", n_start=len(starts), n_end=len(ends), n_descr=len(descr),
                    n_other=len(other))
        recs = []
        detail = dict(
            raised=res.get("raised"), stored_results=res.get("jobs"), bodies=bodies,
            error_files=res.get("errors"),
            starts=[[m["@id"][-6:], m["startedAtTime"]] for m in starts],
            ends=[[m["@id"][-6:], m["endedAtTime"], m["errored"]] for m in ends],
            labels=[[m.get("@id", "")[-6:], m.get("Label")] for m in descr],
        )

        def rec(sig, observed, expected):
            recs.append(dict(signature=sig, observed=observed, expected=expected, detail=detail))

        # executed jobs, independently of the messages
        executed = dict(res.get("jobs") or {})
        model = shared_audit_model(kind, flag, starts, ends, res)
        if model:
            rec("shared-audit-object:workflow-and-node-jobs",
                dict(flag=flag, raised=res.get("raised"), n_start=len(starts), n_end=len(ends)),
                "one start and one end record per executed job with the same @id")
            return recs
        r_ = res.get("raised")
        if r_ and not (not G.KINDS[kind]["ok"] and G.KINDS[kind]["worker"] == "debug"):
            # only the debug worker re-raises the task's own error
            rec(f"audited-submission-raises:{r_['sig']}", r_, "result returned")
            return recs
        if r_ and r_["type"] not in ("BodyError", "RuntimeError", "ValueError"):
            rec(f"audited-submission-raises:{r_['sig']}", r_, "the task's own error")
            return recs
        if bad:
            rec("unparsable-message-file", bad, "JSON documents")
        for tag in G.KINDS[kind]["tags"]:
            name = "main" if tag in ("P", "S") else tag
            if bodies.get(tag, 0) != (1 if name in exp else 0):
                raise HarnessError(f"body log {bodies} does not match the expected jobs {exp}: {detail}")
        if set(executed) != set(exp):
            raise HarnessError(f"job directories {executed} do not match the expected jobs {exp}")
        if len(starts) != len(exp):
            rec("start-record-count-differs-from-executed-jobs", len(starts), len(exp))
        sids = [m["@id"] for m in starts]
        if len(set(sids)) != len(sids):
            rec("duplicate-start-id", sids, "pairwise different ids")
        ecount: dict = {}
        for e in ends:
            ecount[e["@id"]] = ecount.get(e["@id"], 0) + 1
        for i in sids:
            if ecount.get(i, 0) == 0:
                rec("start-without-end", i, "one end record with the same @id")
                break
        for i, n in ecount.items():
            if i not in sids:
                rec("end-without-start", i, "a start record with the same @id")
                break
        for i, n in ecount.items():
            if n > 1:
                rec("more-than-one-end-record", {i: n}, "exactly one")
                break
        for i in sids:
            if i in dir_of_end and dir_of_end[i] != dir_of_start[i]:
                rec("start-and-end-record-in-different-message-directories",
                    dict(start=dir_of_start[i], end=dir_of_end[i]),
                    "both records of an activity in one message directory")
                break
        # errored flags
        stored = {n: executed.get(n) for n in exp}
        label_of = {m.get("@id"): m.get("Label") for m in descr}
        if sorted(map(str, (e["errored"] for e in ends))) != sorted(map(str, stored.values())) and not recs:
            rec("errored-flags-differ-from-results",
                sorted(map(str, (e["errored"] for e in ends))), f"flags of the stored results {stored}")
        for e in ends:
            lab = label_of.get(e["@id"])
            if lab in stored and stored[lab] != e["errored"] and not recs:
                rec("errored-flag-differs-from-result", {lab: e["errored"]}, {lab: stored[lab]})
        if any(v != exp[n] for n, v in stored.items()) and not recs:
            rec("stored-result-flag-unexpected", stored, exp)  # sanity (C13 territory)
        return recs
    finally:
        scratchdir.rm(d)


def run(sh):
    combos = [(k, f, w) for w in MSGDIRS for k in POOL for f in FLAGS]
    # enumerated part: every combination once with the default input
    for i, (k, f, w) in enumerate(combos):
        if i % sh.n != sh.index:
            continue
        if sh.out_of_time():
            return
        case = dict(kind=k, flag=f, x=3, msgdir=w)
        sh.run_case(case, nontrivial=True,
                    labels=[f"kind:{k}", f"flag:{f}", f"msgdir:{w}", "enumerated"])
        sh.count(f"outcome:{LAST.get('outcome')}")
        if w == "default":
            sh.count(f"message_dirs_found:{min(LAST.get('n_message_dirs', 0), 4)}")
    sh.count("exhaustive_subspaces_completed")

    # generated part: random (combination, input)
    strat = st.tuples(st.sampled_from(combos), st.integers(min_value=-50, max_value=1000))

    def body(t):
        (k, f, w), x = t
        case = dict(kind=k, flag=f, x=x, msgdir=w)
        sh.run_case(case, nontrivial=True, labels=[f"kind:{k}", f"flag:{f}", f"msgdir:{w}"],
                    raise_unattributed=True)
        sh.count(f"outcome:{LAST.get('outcome')}")
        if w == "default":
            sh.count(f"message_dirs_found:{min(LAST.get('n_message_dirs', 0), 4)}")

    sh.given(strat, body, sh.budget(100, 1600), tag="gen")
