"""C28  Batch-scheduler workers follow the scheduler's verdict.

The real SlurmWorker / SgeWorker code is driven against a scripted scheduler
(vlib/inject/sched28.py replaces `pydra.workers.base.read_and_display_async`, the only door the
workers have to sbatch/squeue/sacct/scontrol resp. qsub/qstat/qacct; `asyncio.sleep` inside the
worker module yields without delay).  A scenario scripts, per attempt of the job, what the
scheduler answers (pending/running..., accounting lag or a missing record, the final state), whether
the batch payload - the script the worker wrote, which calls `load_and_run` - runs and what it does,
and the user's job-name/output/error options.  The submission (a task, or a one-node workflow) runs
under a watchdog.  The oracle is vlib/ref/sched28.py (the statement, with everything it leaves open
returned as alternative acceptable behaviours); "result exists" is read from the cache directory.
"""
from __future__ import annotations

import asyncio
import logging
import os
import re
from pathlib import Path

from vlib import scratchdir
from vlib.gen import sched28 as G
from vlib.harness import HarnessError
from vlib.inject import sched28 as I
from vlib.ref import sched28 as R

ID = "C28"
LEVEL = "fault_enumeration"
DESIGN_REF = "5/C28, 4.4"
TECHNIQUE = "scripted scheduler (fault enumeration + generated response sequences) vs statement-level reference"
RULE = (
    "case = worker kind (slurm|sge) x level (task | one-node workflow) x 1-4 scripted attempts "
    "(pre: pending/running answers; linger in squeue; accounting lag RUNNING/PENDING/missing record; "
    "end in completed/failed/oom/cancelled/timeout/preempted/node_fail|evicted with sacct format and "
    "exit-code variants; payload ok/raise/early_fail/killed/none, run in-process or through /bin/sh) x "
    "user option string (job name/output/error in every getopt spelling, other options, values ending "
    "in -o/-e/-J, --no-requeue) x submit rejection. Exhaustive part: every end sequence up to length "
    "2 (thorough: 3) x last payload x level, and every absent/spelling combination of the three "
    "options; the rest is drawn by Hypothesis. Non-trivial = more than one attempt, or a fault "
    "(payload does not match the verdict, lag, lingering), or a user option; distinct = whole spec."
)
ASSUMPTIONS = [
    "only the command/response protocol is exercised: no real SLURM/SGE; response texts follow the "
    "sacct -n -X -o JobID,State,ExitCode, squeue -h, qstat -j and qacct -j formats",
    "the scheduler model advances per status query, so verdicts do not depend on polling frequency; "
    "a job that was submitted runs to its scripted end on the 'cluster' even if the worker stops "
    "asking (when the submitter spins, and at the end of every scenario)",
    "a hang is decided by (a) a proof of no progress for the submitter's await-free loop (no pending "
    "future, no live worker coroutine, no scheduler command in flight, identical loop state and "
    "directory listing over 4 samples 0.1 s of CPU time apart), (b) 4000 scheduler commands or "
    "200000 idle polls, or (c) 90 s of wall time outside the scripted scheduler (300 s for a payload "
    "run through /bin/sh)",
    "SLURM NODE_FAIL, a missing sacct record and --no-requeue are left open by the statement: both "
    "treatments are accepted (counted as undefined_by_statement)",
    "option spellings -Jv / --job-name v are valid getopt_long forms that sbatch accepts",
]
SHARDS = {"quick": 16, "thorough": 16}
WALL = {"quick": 300, "thorough": 1500}
EXHAUSTIVE_WHEN_COMPLETED = True
EXHAUSTIVE_NOTE = (
    "per worker: all verdict sequences of length <= 2 (quick) / <= 3 (thorough) over the worker's end "
    "states (last one final) x last payload {ok, raise, none} x level {task, workflow}; all "
    "absent/spelling combinations of job-name x output x error (125 for sbatch_args, 8 each for "
    "qsub_args and default_qsub_args) x {completed, failed}"
)

logging.getLogger("pydra").setLevel(logging.CRITICAL)


# --------------------------------------------------------------------------- observation
def _result_state(cache, checksum):
    """ground truth, read without pydra's loaders: none | ok | errored | unreadable"""
    import cloudpickle as cp

    f = Path(cache) / checksum / "_result.pklz"
    if not f.exists() or f.stat().st_size == 0:
        return "none"
    try:
        with open(f, "rb") as fp:
            r = cp.load(fp)
    except Exception:
        return "unreadable"
    return "errored" if getattr(r, "errored", False) else "ok"


def observe(case, d):
    from pydra.engine.submitter import Submitter
    from vlib.tasks_sched28 import SchedProbe, SchedWF, probe_hooks, read_runs

    kind = case["worker"]
    cache, user = d / "cache", d / "user"
    user.mkdir()
    log = str(d / "runs.log")
    tokens = [t.replace("@S@", str(user)) for t in case.get("args", [])]
    x = 3
    probe = SchedProbe(x=x, log=log)
    checksum = probe._checksum
    kw = {}
    if kind == "slurm":
        kw["sbatch_args"] = " ".join(tokens)
    else:
        kw[case.get("args_via", "qsub_args")] = " ".join(tokens)
        kw.update(case.get("sge", {}))
    fake = I.FakeScheduler(case, cache, control_file=log + ".next")
    obs = dict(tokens=tokens, checksum=checksum)
    loop = asyncio.new_event_loop()
    asyncio.set_event_loop(loop)
    cwd = os.getcwd()
    try:
        with I.installed(kind, fake, cache) as (proxy, tracker, dog):
            try:
                with Submitter(worker=kind, cache_root=cache, **kw) as sub:
                    if case["level"] == "task":
                        res = sub(probe, hooks=probe_hooks())
                    else:
                        res = sub(SchedWF(x=x, log=log))
                if res.errored:
                    obs["outcome"], obs["how"] = "failed", "errored-result"
                elif res.outputs.out != x + 1:
                    obs["outcome"], obs["how"] = "complete", f"wrong-output:{res.outputs.out!r}"
                else:
                    obs["outcome"], obs["how"] = "complete", "result"
            except HarnessError:
                raise
            except I.Abort as e:
                obs["outcome"], obs["how"] = "hang", f"{e.kind}@{e.where}"
                obs["abort_detail"] = e.detail
            except Exception as e:
                if dog.fired:
                    obs["outcome"], obs["how"] = "hang", f"{dog.fired[0]}@{dog.fired[1]}"
                    obs["abort_detail"] = dog.fired[2]
                else:
                    obs["outcome"], obs["how"] = "failed", f"{type(e).__name__}: {str(e)[:160]}"
            if dog.fired and obs.get("outcome") != "hang":
                obs["outcome"], obs["how"] = "hang", f"{dog.fired[0]}@{dog.fired[1]}"
                obs["abort_detail"] = dog.fired[2]
            if obs["outcome"] != "hang":
                # whatever the worker reported, the cluster finishes what was submitted
                try:
                    fake.advance()
                except I.Abort as e:
                    obs["late_abort"] = f"{e.kind}@{e.where}"
    finally:
        os.chdir(cwd)
        try:
            loop.close()
        except Exception:
            pass
        asyncio.set_event_loop(None)
    if fake.harness_error is not None:
        raise fake.harness_error
    obs["worker_reports"] = tracker.reports
    obs["calls"] = [c[0] if c[0] != "scontrol" else "scontrol-" + c[1] for c in fake.calls]
    obs["submits"] = [a for a in fake.submit_argv]
    obs["requeues"] = sum(1 for c in fake.calls if c[:2] == ["scontrol", "requeue"]) + max(
        0, len(fake.submit_argv) - 1)
    obs["unprompted_requeue"] = fake.unprompted_requeue
    obs["events"] = fake.events
    obs["result_state"] = _result_state(cache, checksum)
    obs["runs"] = read_runs(log)
    obs["yields"] = proxy.yields
    return obs


# --------------------------------------------------------------------------- defect models
def _cause(case, obs):
    """Name the root cause of a worker-level exception where a defect model matches exactly."""
    for r in obs["worker_reports"]:
        if r["outcome"] != "raised":
            continue
        fn = ":".join(r["where"].split(":")[:2])
        if (case["worker"] == "slurm" and r["type"] == "AttributeError" and fn == "slurm.py:run"
                and "'NoneType' object has no attribute 'replace'" in r["msg"]
                and any(c == "error" for c, _, _ in I.parse_slurm_argv(obs["tokens"]))):
            return "slurm-user-error-option:None.replace"
        if (case["worker"] == "slurm" and r["type"] == "AttributeError" and fn == "slurm.py:run"
                and "'NoneType' object has no attribute 'replace'" in r["msg"]
                and re.search(r"(?<=-e )\S+", " ".join(obs["tokens"]))):
            # no error option given, but the worker's look-behind "-e " matched the end of
            # another option's value (e.g. `-C intel-e -o f`)
            return "slurm-option-regex-matches-inside-another-value:None.replace"
        if (case["worker"] == "sge" and r["type"] == "TypeError" and fn == "sge.py:run"
                and "'dict' and 'int'" in r["msg"] and not obs["submits"]):
            return "sge-threads-used-is-a-dict:dict+=int"
        return f"{r['type']}@{fn}"
    return None


MODELLED = ("slurm-user-error-option:None.replace", "sge-threads-used-is-a-dict:dict+=int",
            "slurm-option-regex-matches-inside-another-value:None.replace")


def judge(case, obs):
    """Verdict = what the WORKER reported for the job (anchors.observe_at: worker return /
    exception), requeue/resubmit commands from the scheduler log, and termination of the
    submission as a whole."""
    out = []
    cause = _cause(case, obs)
    result_ok = obs["result_state"] == "ok"
    reps = obs["worker_reports"]
    # what the worker reports to the submitter for the job: run() raised = failed; run() returned =
    # "finished, see the result": an errored result then carries the failure, a successful one (or
    # none at all: a bare claim) means complete
    if not reps:
        worker = None
    elif reps[-1]["outcome"] == "raised" or obs["result_state"] == "errored":
        worker = "failed"
    else:
        worker = "complete"
    brief = dict(worker_reported=worker, submission=obs["outcome"], how=obs["how"],
                 requeues=obs["requeues"], result=obs["result_state"], calls=obs["calls"][:40],
                 worker=reps[:3])

    # did a payload run to its end (task succeeded, raised, or failed in a hook) and still leave
    # no result?  Not a violation of the statement by itself (the worker's report is judged below),
    # but it tells two root causes of the submitter's spin apart
    ran = [e.split(":")[-1] for e in obs["events"] if e.startswith("payload:")]
    left_nothing = (bool(ran) and ran[-1] in ("ok", "raise", "early_fail", "prologue_fail")
                    and obs["result_state"] == "none")
    obs["left_nothing"] = ran[-1] if left_nothing else None

    if obs["outcome"] == "hang":
        sig = "hang:" + obs["how"]
        if (obs["how"] == "no-progress@submitter.py:expand_workflow_async" and reps
                and obs["result_state"] == "none"):
            # defect model: the worker coroutine of a job ended (returned or raised) without a
            # result or error file in the job's directory; the submitter keeps the job "queued"
            sig = "hang:submitter-spins-on-job-whose-worker-coroutine-ended-without-result"
            if left_nothing:
                # ... and here the batch job did run: load_and_run should have left an errored result
                # defect model: failures outside Job.run's try/finally (hooks, directory set-up) reach
                # load_and_run's fallback, which cannot write the errored result
                sig = "hang:submitter-spins:payload-ran-but-load_and_run-left-no-result"
                if ran[-1] not in ("early_fail", "prologue_fail"):
                    sig += f":after-{ran[-1]}"
        out.append(dict(signature=sig, observed=dict(brief, detail=obs.get("abort_detail")),
                        expected="the submission returns or raises"))
    if worker is None:
        if obs["outcome"] != "hang":
            out.append(dict(signature=f"worker-never-reported:{obs['how'][:60]}", observed=brief,
                            expected="the worker's run() is reached and ends"))
        return out + _options(case, obs)

    if not obs["submits"]:
        sig = f"worker-crash:{cause}" if cause in MODELLED else f"never-submitted:{cause or obs['how'][:60]}"
        out.append(dict(signature=sig, observed=brief, expected="the job is handed to the scheduler"))
        return out

    acc = R.acceptable(case, result_ok)
    if not R.matches(worker, obs["requeues"], acc):
        verdicts = {v for v, _ in acc}
        nreq = {n for _, n in acc}
        if cause in MODELLED:
            # one root cause, whatever way it shows (failed instead of complete, no requeue, ...)
            sig = f"worker-crash:{cause}"
        elif worker == "failed" and not ({"failed", "not_complete", "any"} & verdicts):
            sig = f"reported-failed-though-scheduler-completed-and-result-exists:{cause}"
        elif worker == "complete" and not ({"complete", "any"} & verdicts):
            sig = f"reported-complete-though:{_final(case)}:result-{obs['result_state']}"
        elif obs["requeues"] < min(nreq):
            sig = f"not-requeued-after:{_first_unanswered(case, obs['requeues'])}:{cause or worker}"
        elif obs["requeues"] > max(nreq):
            sig = f"requeued-without-cause:after-{_final(case)}"
        else:
            sig = f"verdict-mismatch:{worker}"
        out.append(dict(signature=sig, observed=brief,
                        expected=dict(acceptable=sorted(map(list, acc)), result_exists=result_ok)))
    elif worker == "complete" and obs["result_state"] == "ok" and obs["outcome"] == "failed":
        out.append(dict(signature="submission-failed-though-worker-complete-and-result-ok",
                        observed=brief, expected="the submission returns the result"))
    if obs["outcome"] == "complete" and obs["how"] != "result":
        out.append(dict(signature="complete-with-wrong-output", observed=brief, expected="x + 1"))
    if obs["outcome"] == "complete" and obs["result_state"] != "ok":
        out.append(dict(signature=f"submission-complete-with-result-{obs['result_state']}",
                        observed=brief, expected="no successful result, no completion"))
    if obs["unprompted_requeue"]:
        out.append(dict(signature="requeued-a-job-that-was-pending-or-running", observed=brief,
                        expected="requeue only after a terminal verdict"))
    return out + _options(case, obs)


def _final(case):
    for a in case["attempts"]:
        if a["end"] not in R.REQUEUE:
            return a["end"]
    return case["attempts"][-1]["end"]


def _first_unanswered(case, done):
    k = 0
    for a in case["attempts"]:
        if a["end"] in R.REQUEUE + R.UNCLASSIFIED[case["worker"]]:
            if k == done:
                return a["end"]
            k += 1
    return "?"


def _options(case, obs):
    kind = case["worker"]
    parse = I.parse_slurm_argv if kind == "slurm" else I.parse_sge_argv
    via = case.get("args_via", "sbatch_args")
    out = []
    for problem, cls, spelling in R.check_options(kind, obs["tokens"], obs["submits"], parse):
        if (kind == "slurm" and problem == "duplicated"
                and spelling not in ("-J V", "--job-name=V", "-o V", "--output=V", "-e V", "--error=V")):
            # defect model: the worker looks for `-X value` / `--long=value` only; the other two
            # getopt spellings (`-Xvalue`, `--long value`) get a second, default option appended
            sig = "option-duplicated:slurm:getopt-spelling-not-recognised"
        else:
            sig = f"option-{problem}:{kind}:{via}:{cls}:{spelling}"
        if not any(o["signature"] == sig for o in out):
            out.append(dict(signature=sig,
                            observed=dict(user=obs["tokens"], option_class=cls, spelling=spelling,
                                          submit_argv=[a[:-1] for a in obs["submits"][:2]]),
                            expected="user options passed once and unchanged; defaults only when absent"))
    return out


def check_case(case):
    try:
        R.validate(case)
    except R.BadScenario as e:
        raise HarnessError(f"bad scenario: {e}")
    d = scratchdir.new("c28")
    try:
        obs = observe(case, d)
        recs = judge(case, obs)
        LAST.clear()
        LAST.update(kind=case["worker"], submission=obs["outcome"], requeues=obs["requeues"],
                    submitted=bool(obs["submits"]), polled=len(obs["calls"]) > len(obs["submits"]),
                    worker=[r["outcome"] for r in obs["worker_reports"]][-1:],
                    result=obs["result_state"], cluster_time=any(
                        e.startswith("cluster-time-passes") for e in obs["events"]))
        return recs
    finally:
        scratchdir.rm(d)


LAST: dict = {}  # summary of the most recent observation, for the coverage counters only


# --------------------------------------------------------------------------- exploration
def labels_of(case):
    kind = case["worker"]
    atts = case["attempts"]
    lb = [kind, f"{kind}_{case['level']}", f"exec_{case.get('exec', 'inproc')}",
          f"attempts_{len(atts)}"]
    for a in atts:
        lb.append(f"end_{a['end']}")
        lb.append(f"payload_{a['payload']}")
        if a.get("lag"):
            lb.append("accounting_lag")
            if "missing" in a["lag"]:
                lb.append("missing_accounting")
    natural = {"completed": "ok", "failed": "raise"}
    last = atts[-1]
    if last["end"] in natural and last["payload"] != natural[last["end"]]:
        lb.append(f"fault_{last['end']}_but_payload_{last['payload']}")
    parse = I.parse_slurm_argv if kind == "slurm" else I.parse_sge_argv
    for cls, spelling, _ in parse(case.get("args", [])):
        lb.append(f"user_{cls}")
        lb.append(f"spelling_{spelling.replace(' ', '_')}")
    if case.get("submit_rc"):
        lb.append("submit_rejected")
    lb += R.undefined_labels(case)
    return lb


def nontrivial(case):
    atts = case["attempts"]
    last = atts[-1]
    natural = {"completed": "ok", "failed": "raise"}
    return (len(atts) > 1 or bool(case.get("args")) or natural.get(last["end"]) != last["payload"]
            or any(a.get("lag") or a.get("linger") for a in atts))


def run(sh):
    from hypothesis import strategies as st

    def one(case, raise_unattributed):
        before = dict(sh.known_hits)
        un = sh.run_case(case, nontrivial=nontrivial(case), labels=labels_of(case),
                         raise_unattributed=raise_unattributed)
        hit = [k for k, v in sh.known_hits.items() if v != before.get(k, 0)]
        sh.count(f"{case['worker']}_clean" if not hit and not un else f"{case['worker']}_with_finding")
        if LAST:
            k = LAST["kind"]
            sh.count(f"{k}_reached_submit", int(LAST["submitted"]))
            sh.count(f"{k}_reached_polling", int(LAST["polled"]))
            sh.count(f"{k}_worker_{(LAST['worker'] or ['never_ended'])[0]}")
            sh.count(f"{k}_submission_{LAST['submission']}")
            sh.count(f"{k}_requeues_{min(LAST['requeues'], 3)}")
            sh.count(f"{k}_result_{LAST['result']}")
            if LAST["cluster_time"]:
                sh.count(f"{k}_job_outlived_worker")
        return un

    # exhaustive parts (seed independent)
    depth = 2 if sh.quick else 3
    space = []
    for kind in ("slurm", "sge"):
        space += list(G.verdict_space(kind, depth))
        space += list(G.special_space(kind))
        space += list(G.option_space(kind))
    done = True
    for i, case in enumerate(space):
        if i % sh.n != sh.index:
            continue
        if sh.out_of_time():
            done = False
            break
        one(case, False)
    if done:
        sh.count("exhaustive_subspaces_completed")

    def body(case):
        one(case, True)

    for kind in ("slurm", "sge"):
        sh.given(G.scenario(kind), body, sh.budget(220, 5000), tag=kind)
