"""C39  Lmod environments add module settings to the caller's environment.

Each case = caller environment (variables set in this process for the duration of the case)
x 1-3 modules with effects (set / prepend / append / unset; values with spaces, ':', '=', quotes,
backslashes, '$', unicode) x output style of the simulated lmod x a generated shell definition.
A generated `$MODULESHOME/libexec/lmod` script (vlib/inject/envs.py) logs its invocation and
prints the python program (`os.environ["K"] = "V";` ...) of the requested modules.

 (A) argv: the generated task is run natively and under `lmod.Environment(modules)` with
     `environments.base.execute` recorded: the two argument vectors must be equal and lmod must
     have been asked for exactly `python load <modules...>`.
 (B) environment: a task whose command is `/usr/bin/env -0` is really executed under the Lmod
     environment; the environment printed by the child must equal the caller's environment
     updated by *executing* the program lmod printed (that is what the program means).
"""
from __future__ import annotations

import os
import shutil

from hypothesis import strategies as st

from vlib import scratchdir
from vlib.gen import envs as G
from vlib.harness import HarnessError, exception_signature, short
from vlib.inject.envs import FakeLmod, patched_environ, run_recorded
from vlib.ref import envs as R

ID = "C39"
LEVEL = "exploration"
DESIGN_REF = "5/C39, 4.4"
TECHNIQUE = "simulated lmod; child environment observed with env -0 against exec of lmod's program"
RULE = (
    "cases = caller environment (0-4 generated variables plus the real process environment) x 1-3 "
    "modules (the first with 1-4, the others with 0-4 effects: set, prepend-path, append-path, "
    "unset) on module-only keys, keys shared with the caller and PATH, values from a hostile "
    "alphabet (space, ':', '=', single and double quotes, backslash, '$', '#', unicode, empty) x lmod output style (Lmod's "
    "double-quoted form or python repr) x a generated shell definition for the argv comparison. "
    "Non-trivial = at least one module effect and at least one caller variable; distinct = full case."
)
ASSUMPTIONS = [
    "no Lmod exists: $MODULESHOME/libexec/lmod is a generated shell script printing the python "
    "program for the generated module effects (assignment syntax as Lmod prints it)",
    "the meaning of lmod's output is what executing it does to os.environ",
    "a variable the module unsets is accepted present or absent (the statement speaks of variables "
    "set by the modules): counted as undefined_by_statement",
    "the argv comparison uses the recorded call of environments.base.execute, the environment "
    "comparison a really executed /usr/bin/env -0",
]
SHARDS = {"quick": 16, "thorough": 16}
WALL = {"quick": 300, "thorough": 1500}    # every case spawns 3 processes: slow on a loaded machine

CALLER_KEYS = ["VERIF_KEEP1", "VERIF_KEEP2", "VERIF_SHARED1", "VERIF_SHARED2", "VERIF_PATH"]
MODULE_KEYS = ["VERIF_MOD1", "VERIF_MOD2", "TOOL_HOME", "VERIF_SHARED1", "VERIF_SHARED2",
               "VERIF_PATH", "PATH", "LD_LIBRARY_PATH"]
VALUES = ["1", "plain", "/opt/tool/1.0", "/opt/a/bin:/opt/b/bin", "two words", "k=v", "",
          "it's", 'say "hi"', "mixed 'a' \"b\"", "C:\\dir\\x", "tab\there", "$HOME/x", "caf\u00e9",
          "a#b;c", "-L/opt/lib -lfoo", "'", "x\\", "line1\nline2"]
MODULE_NAMES = ["tool/1.0", "gcc/12.2", "fsl", "ants/2.5.0", "py/3.12"]

_stats: list[str] = []


def _note(label):
    _stats.append(label)


def _programs(case, lmod_env):
    """[(module name, program text)]; each module sees the effects of the previous ones."""
    env = dict(lmod_env)
    progs = []
    for m in case["modules"]:
        prog, env = R.emit_module(m["effects"], env, case["style"])
        progs.append((m["name"], prog))
    return progs


def _assignments(program, key):
    return [ln for ln in program.splitlines() if f"[{R.lua_quote(key)}]" in ln or f"[{key!r}]" in ln]


def check_case(case):
    base = scratchdir.new("c39")
    try:
        return _check(case, base)
    finally:
        scratchdir.rm(base)


def _check(case, base):
    from pydra.compose import shell
    from pydra.environments import lmod, native

    fake = FakeLmod(base / "lmodhome")
    names = [m["name"] for m in case["modules"]]
    updates = dict(case["caller"])
    updates["MODULESHOME"] = str(fake.home)
    recs: dict[str, dict] = {}

    def rec(sig, observed, expected, detail=None):
        recs.setdefault(sig, dict(signature=sig, observed=observed, expected=expected, detail=detail))

    with patched_environ(updates):
        caller_env = dict(os.environ)
        progs = _programs(case, caller_env)
        for name, prog in progs:
            fake.add_module(name, prog)
        program = "".join(p for _n, p in progs)
        expected_env = R.apply_program(program + "_mlstatus = True\n", caller_env)

        # ---------------- (A) argv
        built = G.materialise(case["defn"], base / "in")
        cache_root = base / "cache"
        cache_root.mkdir()
        try:
            native_argv, _kw, _cd = run_recorded(built, cache_root, native.Environment())
        except HarnessError:
            raise
        except Exception as ex:  # noqa: not runnable natively -> nothing to compare (counted)
            _note("native_raised:" + type(ex).__name__)
            native_argv = None
        if native_argv is not None:
            shutil.rmtree(cache_root)
            cache_root.mkdir()
            try:
                argv, _kw, _cd = run_recorded(built, cache_root, lmod.Environment(modules=names))
            except HarnessError:
                raise
            except Exception as ex:  # noqa
                rec(exception_signature(ex, "lmod-run-raised"), short(ex), "the command is executed")
                argv = None
            if argv is not None and argv != native_argv:
                rec("lmod-argv-differs-from-native", argv, native_argv)
            if argv is not None:
                inv = fake.invocations()
                want = "python load " + " ".join(names)
                if inv != [want]:
                    rec("lmod-not-asked-to-load-the-requested-modules", inv, [want])

        # ---------------- (B) environment of a really executed child
        Env = shell.define("/usr/bin/env", name="EnvDump")
        try:
            out = Env(append_args=["-0"])(cache_root=base / "cache_b", worker="debug",
                                          environment=lmod.Environment(modules=names))
        except Exception as ex:  # noqa
            rec(exception_signature(ex, "lmod-run-raised"), short(ex), "env -0 is executed")
            return list(recs.values())
    observed = {}
    for item in out.stdout.split("\0"):
        if item:
            k, _, v = item.partition("=")
            observed[k] = v

    touched, unset_last = {}, set()
    for m in case["modules"]:
        for eff in m["effects"]:
            touched[eff[1]] = eff[0]
    unset_last = {k for k, op in touched.items() if op == "unset"}
    if unset_last:
        _note("undefined_by_statement:module_unsets_variable")

    # variables the modules do not touch
    untouched = {k: v for k, v in caller_env.items() if k not in touched}
    lost = {k: v for k, v in untouched.items() if observed.get(k) != v}
    if lost:
        if not any(k in observed for k in untouched):
            eg = [k for k in sorted(lost) if k in case["caller"] or k in ("HOME", "MODULESHOME")]
            rec("caller-environment-not-passed-to-the-command", sorted(observed),
                f"the caller's variables passed through, e.g. {eg[:5]}")
        else:
            # values are shown only for the generated variables (the real environment of this
            # process may hold secrets and must not end up in replay files)
            shown = [k for k in sorted(lost) if k in case["caller"]][:5]
            rec("caller-variable-lost-or-changed",
                dict(names=sorted(lost)[:8], values={k: observed.get(k) for k in shown}),
                {k: lost[k] for k in shown})
    # variables nobody set
    stray = sorted(k for k in observed if k not in expected_env and k not in unset_last)
    if stray:
        rec("stray-variable-in-command-environment", stray[:8], "absent")
    # variables the modules set
    model = R.regex_model(program)
    for k in touched:
        if k in unset_last:
            continue
        want, got = expected_env[k], observed.get(k)
        if got == want:
            continue
        if got is not None and got == model.get(k):
            rec("module-value-not-decoded-as-string-literal", {k: got}, {k: want},
                detail=f"lmod printed: {_assignments(program, k)!r}")
        else:
            rec("module-variable-wrong", {k: got}, {k: want},
                detail=f"lmod printed: {_assignments(program, k)!r}")
    return list(recs.values())


# ------------------------------------------------------------------ generation
@st.composite
def cases(draw):
    caller_keys = draw(st.lists(st.sampled_from(CALLER_KEYS), min_size=draw(st.sampled_from([0, 1, 1, 1])),
                                max_size=4, unique=True))
    caller = {k: draw(st.sampled_from([v for v in VALUES if v])) for k in caller_keys}
    names = draw(st.lists(st.sampled_from(MODULE_NAMES), min_size=1, max_size=3, unique=True))
    modules = []
    for i, n in enumerate(names):
        effects = []
        for _ in range(draw(st.integers(1 if i == 0 else 0, 4))):
            op = draw(st.sampled_from(["set"] * 4 + ["prepend"] * 3 + ["append", "unset"]))
            key = draw(st.sampled_from(MODULE_KEYS))
            if op == "unset":
                if key in ("PATH", "LD_LIBRARY_PATH"):
                    key = "VERIF_SHARED2"
                effects.append([op, key])
            elif op == "set":
                if key == "PATH":
                    key = "TOOL_HOME"
                effects.append([op, key, draw(st.sampled_from(VALUES))])
            else:
                effects.append([op, key, draw(st.sampled_from([v for v in VALUES if v])),
                                draw(st.sampled_from([":", ":", ";", " "]))])
        modules.append(dict(name=n, effects=effects))
    defn = draw(G.definition(outs=False, spaces=0, max_fields=3))
    return dict(caller=caller, modules=modules, style=draw(st.sampled_from(["lmod", "lmod", "repr"])),
                defn=defn)


def labels_of(case):
    lb = {"style_" + case["style"], f"modules_{len(case['modules'])}"}
    vals = []
    for m in case["modules"]:
        for eff in m["effects"]:
            lb.add("effect_" + eff[0])
            if eff[1] in case["caller"] or eff[1] == "PATH":
                lb.add("effect_on_caller_variable")
            if len(eff) > 2:
                vals.append(eff[2])
    if any("'" in v or '"' in v for v in vals):
        lb.add("value_with_quote")
    if any("\\" in v or "\n" in v or "\t" in v for v in vals):
        lb.add("value_with_escape")
    if any(" " in v for v in vals):
        lb.add("value_with_space")
    if not vals:
        lb.add("no_module_values")
    return sorted(lb)


def run(sh):
    def body(case):
        _stats.clear()
        n_eff = sum(len(m["effects"]) for m in case["modules"])
        try:
            sh.run_case(case, nontrivial=n_eff > 0 and bool(case["caller"]), labels=labels_of(case),
                        raise_unattributed=True)
        finally:
            for lb in _stats:
                sh.count(lb)
            _stats.clear()

    sh.given(cases(), body, sh.budget(160, 3000), tag="c39")
