"""C20  Accepted field values conform to the declared type.

parser level  TypeParser(T)(v) for generated (T, v): when v is accepted, the stored value r must
              conform to T (vlib/ref/conforms.py), no str was split into a collection and no
              collection joined into a str anywhere in (v, r), and coercing r again returns r.
end to end    a python task whose field `x` is declared T, given v at construction or by
              attribute assignment: either that raises, or the stored value conforms, the run
              raises nothing and the body receives a conforming value.
"""
from __future__ import annotations

from hypothesis import strategies as st

from vlib import scratchdir
from vlib.gen import types as G
from vlib.harness import exception_signature, short
from vlib.ref import conforms as R

ID = "C20"
LEVEL = "exploration"
DESIGN_REF = "5/C20, 3.4"
TECHNIQUE = "generated (type, value) pairs against an independent conformance predicate"
RULE = (
    "cases = (type spec from the grammar int/float/bool/str/bytes/Path/File/Any, Optional/Union in "
    "both spellings, list/tuple[T,...]/tuple[T1..]/dict/set/frozenset/Sequence/Mapping/"
    "MultiInputObj, depth<=3; value spec drawn from values_of(T) or values_near(T): another "
    "type's value, a coercible neighbour, a str<->collection confusion; converter flavour "
    "plain / field (superclass_auto_cast)); end-to-end cases add (construction | setattr) and a "
    "debug-worker run. Non-trivial = the type has depth>=1 (container/union); distinct = the case."
)
ASSUMPTIONS = [
    "conforms(): bool is an int, an int is not a float, MultiInputObj[T] = list of T (plain list "
    "accepted), Sequence[T] = any collections.abc.Sequence of T",
    "any exception raised while assigning counts as a rejection (the statement allows rejecting)",
    "bytes is treated as a scalar by the str/sequence law; one-character and empty strings cannot "
    "witness a split",
    "rejecting a conforming value is counted (label of_rejected) but is not a violation of C20",
    "end-to-end values keep dict keys / set elements mutually orderable (input hashing sorts them)",
    "end-to-end runs use the debug worker so that the body's argument can be observed in-process",
    "atheris driver of DESIGN 5/C20 not implemented; thorough tier is Hypothesis only",
]
SHARDS = {"quick": 16, "thorough": 16}
WALL = {"quick": 400, "thorough": 1500}  # ~25-40 s on an idle 16-core machine; import-bound under load

LAST: dict = {}


def _parser(T, sac):
    from pydra.utils.typing import TypeParser

    return TypeParser(G.build_type(T), superclass_auto_cast=bool(sac), label="x")


# ------------------------------------------------------------------ classification
def _seq_nodes(T, acc=None):
    acc = [] if acc is None else acc
    if T[0] == "Sequence":
        acc.append(T)
    for c in G.children(T):
        _seq_nodes(c, acc)
    return acc


def _expanded_as_sequence(T, a, b, sac):
    """Defect model 'a str met at a Sequence[E] position passes the isinstance(Sequence) test, is
    iterated character by character, each character coerced to E, and the list handed to str()':
    b == str([E(c) for c in a]) for some Sequence node of T."""
    for node in _seq_nodes(T):
        try:
            p = _parser(node[1], sac)
            if b == str([p(c) for c in a]):
                return True
        except Exception:  # noqa: BLE001 - a character the element type refuses: model not applicable
            continue
    return False


def _confusion_signature(kind, T, a, b, sac):
    """root cause names for (split|joined|changed) observations"""
    what, _, tname = kind.partition(":")
    if what in ("split", "joined") and tname in ("set", "frozenset"):
        return "str-confusion:str<->Set-coercion-not-excluded"
    if what == "changed":
        if _expanded_as_sequence(T, a, b, sac):
            return "str-confusion:str-expanded-as-Sequence-instance"
        return "str-confusion:str-text-changed"
    return f"str-confusion:{what}:{tname}"


def _confusion_records(T, sac, v, r, where):
    recs = []
    for kind, path, a, b in R.confusions(v, r):
        recs.append(dict(signature=_confusion_signature(kind, T, a, b, sac),
                         observed=f"{where}: at {path} {a!r:.60} became {b!r:.80}",
                         expected="a str stays a str, a collection stays a collection (or rejection)"))
    return recs


def _union_culprit(T, x, sac):
    """Defect model 'a Union is coerced into its FIRST member that accepts the value, even when
    the value already conforms to another member'.  x conforms to T and TypeParser(T)(x) != x.
    True when that model explains the change at some union node of T."""
    def conv(t, val):
        try:
            return True, _parser(t, sac)(val)
        except Exception:  # noqa: BLE001 - the model only asks "which member accepts first"
            return False, None

    k = T[0]
    if k in ("Union", "Optional"):
        members = T[1] if k == "Union" else [T[1], ["None"]]
        first = None
        for i, m in enumerate(members):
            ok, y = conv(m, x)
            if ok:
                first = (i, m, y)
                break
        if first is None:
            return False
        i, m, y = first
        if not R.conforms(x, m):
            # taken by a member it does not conform to although it conforms to a later one
            return any(R.conforms(x, mj) for mj in members[i + 1:]) and not R.same(y, x)
        return not R.same(y, x) and _union_culprit(m, x, sac)
    if k in ("list", "Multi", "tuplevar", "set", "frozenset", "Sequence"):
        try:
            els = list(x)
        except TypeError:
            return False
        for e in els:
            ok, y = conv(T[1], e)
            if R.conforms(e, T[1]) and ok and not R.same(y, e) and _union_culprit(T[1], e, sac):
                return True
        return False
    if k == "tuple" and isinstance(x, tuple) and len(x) == len(T[1]):
        for e, m in zip(x, T[1]):
            ok, y = conv(m, e)
            if R.conforms(e, m) and ok and not R.same(y, e) and _union_culprit(m, e, sac):
                return True
        return False
    if k in ("dict", "Mapping") and hasattr(x, "items"):
        for a, b in x.items():
            for t, e in ((T[1], a), (T[2], b)):
                ok, y = conv(t, e)
                if R.conforms(e, t) and ok and not R.same(y, e) and _union_culprit(t, e, sac):
                    return True
    return False


def _union_earlier_member_raises(T, x, sac):
    """Same defect model, other symptom: x conforms to a later member of a union, an earlier member
    is tried first because x is *coercible* to it, and that attempt raises something other than the
    TypeError coerce_union catches (e.g. File("abc") -> FileNotFoundError for File | str)."""
    k = T[0]
    if k in ("Union", "Optional"):
        members = T[1] if k == "Union" else [T[1], ["None"]]
        for i, m in enumerate(members):
            if R.conforms(x, m):
                return _union_earlier_member_raises(m, x, sac)
            try:
                _parser(m, sac)(x)
            except TypeError:
                continue
            except Exception:  # noqa: BLE001
                return any(R.conforms(x, mj) for mj in members[i + 1:])
            return False
        return False
    if k in ("list", "Multi", "tuplevar", "set", "frozenset", "Sequence"):
        try:
            els = list(x)
        except TypeError:
            return False
        return any(_union_earlier_member_raises(T[1], e, sac) for e in els)
    if k == "tuple" and isinstance(x, tuple) and len(x) == len(T[1]):
        return any(_union_earlier_member_raises(m, e, sac) for e, m in zip(x, T[1]))
    if k in ("dict", "Mapping") and hasattr(x, "items"):
        return any(_union_earlier_member_raises(t, e, sac)
                   for a, b in x.items() for t, e in ((T[1], a), (T[2], b)))
    return False


def _nonconforming_signature(r, T):
    path, got, want = R.why_not(r, T)
    return f"accepted-nonconforming:{want[0]}<-{got.split(':', 1)[0]}", path, got


def _value_laws(T, v, r, sac, where):
    """conformance + str/sequence law + idempotence of one accepted (v -> r)"""
    recs = []
    if not R.conforms(r, T):
        sig, path, got = _nonconforming_signature(r, T)
        conf = _confusion_records(T, sac, v, r, where)
        if conf:
            recs += conf  # the confusion is the root cause of the non-conformance
        else:
            recs.append(dict(signature=sig, observed=f"{where}: {r!r:.120} (at {path}: {got})",
                             expected=f"a value conforming to {G.render(T)}, or rejection"))
        return recs
    recs += _confusion_records(T, sac, v, r, where)
    if recs:
        return recs  # the stored value is already damaged; idempotence is about sound values
    try:
        r2 = _parser(T, sac)(r)
    except Exception as e:  # noqa: BLE001
        if not isinstance(e, TypeError) and _union_earlier_member_raises(T, r, sac):
            recs.append(dict(signature="non-idempotent:union-takes-first-coercible-member",
                             observed=f"{where}: {r!r:.100} then {short(e, 160)}",
                             expected="coercing the stored value again leaves it unchanged"))
            return recs
        recs.append(dict(signature=f"non-idempotent:own-output-rejected:{T[0]}",
                         observed=f"{where}: {r!r:.100} then {short(e, 160)}",
                         expected="coercing the stored value again leaves it unchanged"))
        return recs
    if not R.same(r2, r):
        again = _confusion_records(T, sac, r, r2, where + " (second coercion)")
        if again:
            recs += [x for x in again if x["signature"] not in {y["signature"] for y in recs}] or []
        elif _union_culprit(T, r, sac):
            recs.append(dict(signature="non-idempotent:union-takes-first-coercible-member",
                             observed=f"{where}: {v!r:.60} -> {r!r:.60} -> {r2!r:.60}",
                             expected="second coercion returns the stored value"))
        else:
            recs.append(dict(signature=f"non-idempotent:{T[0]}",
                             observed=f"{where}: {v!r:.60} -> {r!r:.60} -> {r2!r:.60}",
                             expected="second coercion returns the stored value"))
    return recs


# ------------------------------------------------------------------ the two levels
def check_parser(case, d):
    T, sac = case["T"], case.get("sac", False)
    v = G.build_value(case["v"], d)
    try:
        r = _parser(T, sac)(v)
    except Exception as e:  # noqa: BLE001 - rejection at assignment is allowed by the statement
        LAST.update(outcome="rejected", exc=type(e).__name__)
        return []
    LAST.update(outcome="accepted", changed=not R.same(r, v))
    return _value_laws(T, v, r, sac, "parser")


def check_e2e(case, d):
    from vlib import tasks_typing as TT

    T = case["T"]
    v = G.build_value(case["v"], d)
    K = TT.make_capture_task(G.build_type(T))
    try:
        if case["op"] == "init":
            task = K(x=v)
        else:
            task = K()
            task.x = v
    except Exception as e:  # noqa: BLE001 - early rejection is what the statement asks for
        LAST.update(outcome="rejected", exc=type(e).__name__)
        return []
    stored = task.x
    LAST.update(outcome="accepted", changed=not R.same(stored, v))
    recs = _value_laws(T, v, stored, True, f"field ({case['op']})")
    TT.CAPTURED.clear()
    try:
        task(cache_root=d / "cache", worker="debug")
    except Exception as e:  # noqa: BLE001
        late = isinstance(e, TypeError) or "Incorrect type" in str(e)
        recs.append(dict(
            signature=exception_signature(e, "late-rejection" if late else "run-raises"),
            observed=f"stored {stored!r:.80}; run: {short(e, 200)}",
            expected="a value accepted at assignment does not make the run fail"))
        return recs
    if not TT.CAPTURED:
        recs.append(dict(signature="body-not-executed", observed="no call recorded",
                         expected="the task body runs once"))
        return recs
    got = TT.CAPTURED[0]
    if not R.conforms(got, T) and R.conforms(stored, T):
        sig, path, g = _nonconforming_signature(got, T)
        recs.append(dict(signature="body-received-" + sig,
                         observed=f"body got {got!r:.100} (at {path}: {g}), stored {stored!r:.80}",
                         expected=f"the body receives a value conforming to {G.render(T)}"))
    return recs


def check_case(case):
    LAST.clear()
    need_dir = case["mode"] == "e2e" or G.contains_file(case["v"])
    d = scratchdir.new("c20") if need_dir else None
    try:
        if case["mode"] == "e2e":
            return check_e2e(case, d)
        return check_parser(case, d)
    finally:
        if d is not None:
            scratchdir.rm(d)


# ------------------------------------------------------------------ generation
@st.composite
def cases(draw, mode):
    T = draw(G.types(max_depth=3))
    if draw(st.sampled_from(["of", "near", "near"])) == "of":
        src, v = "of", draw(G.values_of(T, str_as_seq=draw(st.booleans())))
    else:
        lab, v = draw(G.values_near(T))
        src = "near_" + ("confuse" if lab.startswith("confuse") else lab)
    if mode == "e2e" and not G.hash_safe(v):
        # (inactive unless VERIF_HASH_SAFE_FILTER=1: mixed-kind dict keys / set elements were once
        # filtered here as "refused by design"; that reading was wrong, see DESIGN 10)
        src, v = "of", draw(G.values_of(T).filter(G.hash_safe))
    case = dict(mode=mode, T=T, v=v, src=src)
    if mode == "parser":
        case["sac"] = draw(st.booleans())
    else:
        case["op"] = draw(st.sampled_from(["init", "setattr"]))
    return case


def run(sh):
    def body(case):
        labels = [case["mode"], "src_" + case["src"], "top_" + case["T"][0]]
        if "Union" in G.kinds(case["T"]) or "Optional" in G.kinds(case["T"]):
            labels.append("type_has_union")
        sh.run_case(case, nontrivial=G.depth(case["T"]) >= 1, labels=labels, raise_unattributed=True)
        out = LAST.get("outcome", "violation_or_unknown")
        sh.count(f"{case['mode']}_{out}")
        if case["src"] == "of":
            sh.count("of_" + out)
        elif out == "accepted":
            sh.count("near_accepted_changed" if LAST.get("changed") else "near_accepted_unchanged")
        if out == "rejected" and LAST.get("exc") not in ("TypeError",):
            sh.count("rejected_with_" + str(LAST.get("exc")))

    sh.given(cases("parser"), body, sh.budget(4000, 100000), tag="parser")
    sh.given(cases("e2e"), body, sh.budget(480, 8000), tag="e2e")
