"""C29  Jobs, tasks, submitter, worker and results survive serialization to another process.

The parent builds `Job(task, Submitter(<generated configuration>), name)`, cloudpickles it to a file
and a FRESH interpreter with another PYTHONHASHSEED (vlib/pickleserver.py, one per shard, serving
many requests) loads it, reports the cache identity and every configuration attribute it sees,
runs it the way `pydra.engine.job.load_and_run` does and reports the outputs it read back.  The
parent then reads the result the child wrote through its own job object and compares with an
in-process run of the same task in another cache root and, where defined, with the reference
interpreter.  Submitter and worker are additionally round-tripped alone (in-process and in the
child) and compared attribute by attribute.
"""
from __future__ import annotations

import json
import os
import subprocess
import sys

from vlib import scratchdir
from vlib.gen import values as V
from vlib.gen import wfcache as GW
from vlib.gen import workflows as G
from vlib.harness import HOME, HarnessError, exception_signature, short
from vlib.pickleserver import describe_job, describe_submitter, describe_worker, render_outputs
from vlib.ref import workflow as RW

ID = "C29"
LEVEL = "exploration"
DESIGN_REF = "5/C29, 3.2, 3.3"
TECHNIQUE = "round trip through cloudpickle into a fresh interpreter; differential against an in-process run and the workflow reference"
RULE = (
    "cases = (task, configuration). task: a workflow program of the C03 generator (<= 4 nodes, classes "
    "shipped by value), a python task WT1/WT2/WL with generated str/int/list inputs, Ident over a value "
    "of the value grammar (containers, sets, by-value objects, functions, numpy arrays), or a "
    "dynamically defined shell echo task. configuration: worker debug | cf(n_procs 1-3; for "
    "non-workflow tasks, whose job never hands work to the pool, also n_procs not given / one below / "
    "equal to / one above / 2x / 8x+1 the CPUs available to the process, labels n_procs_*), 0-2 read-only "
    "caches (optionally already holding the result), max_concurrent, propagate_rerun, rerun, audit "
    "flags x messenger (none/file/print), clean_stale_locks, environment None/native, job name, a "
    "by-value pre_run hook, checksum touched before pickling or not, task object already run "
    "in-process or new, submitter stamped with run_start_time as Submitter.__call__ does (3 of 4) or "
    "bare. Only tasks on which the in-process run succeeds and (where the reference is "
    "defined) agrees with it are used; the others are counted as excluded. Non-trivial = the job was "
    "really executed by the child (not served from a read-only cache) and is a workflow with >= 2 "
    "nodes, carries a structured/by-value input, or is a shell task; distinct = case."
)
ASSUMPTIONS = [
    "the child is a fresh interpreter on the same host and filesystem with PYTHONHASHSEED=4242 (parent: 0)",
    "intentionally NOT preserved (re-created in the receiving process): Submitter.loop, Worker.loop, "
    "ConcurrentFuturesWorker.pool; every other instance attribute is compared",
    "workflow-level split programs are left out (a split task is only wrapped into a job by "
    "Submitter.__call__, not by Job())",
    "shell tasks are compared differentially only (child vs in-process), values avoid quotes (C23)",
    "workers other than debug/cf are not instantiated (C28/C39 simulate those back-ends)",
    "a cf worker with more processes than CPUs is only round-tripped and attached to jobs that run "
    "synchronously in the loading process (python/shell tasks): the pool is created but never forks; "
    "workflow jobs under cf keep n_procs <= 3. Parent and child see the same CPU affinity mask",
]
SHARDS = {"quick": 16, "thorough": 16}
WALL = {"quick": 300, "thorough": 1500}  # soft per-shard deadline; the budgets below need far less
CHILD_SEED = "4242"
CHILD_TIMEOUT = 150  # s; only stops waiting for a child that spins, never decides a normal case


class Server:
    def __init__(self):
        env = dict(os.environ)
        env["PYTHONHASHSEED"] = CHILD_SEED
        self.p = subprocess.Popen([sys.executable, "-m", "vlib.pickleserver"], stdin=subprocess.PIPE,
                                  stdout=subprocess.PIPE, text=True, env=env, cwd=str(HOME),
                                  start_new_session=True)
        me = hash("probe") % 1000
        r = self.ask(dict(op="seed"))
        if r.get("seed") != CHILD_SEED or r.get("pid") == os.getpid():
            raise HarnessError(f"pickle server is not a fresh interpreter with its own hash seed: {r}")
        if os.environ.get("PYTHONHASHSEED") not in (None, "random") and r["probe"] == me \
                and os.environ.get("PYTHONHASHSEED") != CHILD_SEED:
            raise HarnessError("str hashing does not differ between parent and child")

    def ask(self, req, timeout=CHILD_TIMEOUT):
        """-> reply | {"hang": True} after killing the server (the next request starts a new one)"""
        import select

        self.p.stdin.write(json.dumps(req) + "\n")
        self.p.stdin.flush()
        ready, _, _ = select.select([self.p.stdout], [], [], timeout)
        if not ready:
            self.kill()
            return dict(hang=True, timeout=timeout)
        line = self.p.stdout.readline()
        if not line:
            raise HarnessError("pickle server died")
        return json.loads(line)

    def kill(self):
        import signal

        global _server
        try:
            os.killpg(self.p.pid, signal.SIGKILL)  # the server and its pool processes
        except Exception:
            self.p.kill()
        self.p.wait()
        if _server is self:
            _server = None

    def close(self):
        try:
            self.p.stdin.close()
            self.p.wait(timeout=20)
        except Exception:
            self.kill()


_server = None


def server():
    global _server
    if _server is None:
        _server = Server()
        import atexit

        atexit.register(_close)
    return _server


def _close():
    global _server
    if _server is not None:
        _server.close()
        _server = None


# ------------------------------------------------------------------ building
def build_task(t, d):
    kind = t["kind"]
    if kind == "wf":
        return G.build(t["prog"], d / "src")
    if kind == "py_prov":
        import vlib.tasks as T

        return getattr(T, t["name"])(**t["inputs"])
    if kind == "py_ident":
        from vlib.tasks import Ident

        return Ident(a=V.build(t["spec"], d / "v"))
    if kind == "shell":
        from pydra.compose import shell

        tpl = "echo" + (" -n" if t["flag"] else "") + " <text:str>" + (" <n:int>" if t["n"] else "")
        kw = dict(text=t["text"])
        if t["n"]:
            kw["n"] = t["n"]
        return shell.define(tpl)(**kw)
    raise ValueError(kind)


def reference(t):
    """expected rendering of the outputs, or None where only the differential oracle applies"""
    r = _reference(t)
    return r if r is None else json.loads(json.dumps(r))


def _reference(t):
    kind = t["kind"]
    if kind == "wf":
        try:
            return RW.evaluate_program(t["prog"])
        except RW.Undefined:
            return "undefined"
    if kind == "py_prov":
        return GW.canon_val(RW.apply_kind({"WT1": "T1", "WT2": "T2", "WL": "L"}[t["name"]], t["inputs"]))
    if kind == "py_ident":
        return GW.canon_spec(t["spec"])
    return None


def resolve_n_procs(cfg):
    """-> (n_procs or None for 'not given', label)"""
    rel = cfg.get("n_procs_rel")
    if rel is None:
        return cfg["n_procs"], "n_procs_small"
    if rel == "default":
        return None, "n_procs_default"
    cpus = len(os.sched_getaffinity(0)) if hasattr(os, "sched_getaffinity") else os.cpu_count()
    n = {"cpus-1": max(1, cpus - 1), "cpus": cpus, "cpus+1": cpus + 1, "2*cpus": 2 * cpus,
         "8*cpus+1": 8 * cpus + 1}[rel]
    return n, "n_procs_" + ("below_cpus" if n < cpus else "equal_cpus" if n == cpus else "above_cpus")


def make_submitter(cfg, d):
    from pydra.engine.submitter import Submitter
    from pydra.environments import native
    from pydra.utils.messenger import AuditFlag, FileMessenger, PrintMessenger

    ro = [d / f"ro{i}" for i in range(cfg["n_readonly"])]
    for p in ro:
        p.mkdir(parents=True, exist_ok=True)
    if ro and cfg["ro_has_result"]:
        ro[-1] = d / "inproc"
    kw = dict(cache_root=d / "child", worker=cfg["worker"], propagate_rerun=cfg["propagate_rerun"],
              audit_flags=AuditFlag[cfg["audit"]], clean_stale_locks=cfg["clean_stale_locks"])
    if cfg["n_readonly"]:
        kw["readonly_caches"] = [str(p) for p in ro]
    if cfg["max_concurrent"] is not None:
        kw["max_concurrent"] = cfg["max_concurrent"]
    if cfg["messenger"] == "file":
        kw.update(messengers=[FileMessenger()], messenger_args={"message_dir": str(d / "msg")})
    elif cfg["messenger"] == "print":
        kw["messengers"] = [PrintMessenger()]
    if cfg["environment"] == "native":
        kw["environment"] = native.Environment()
    if cfg["worker"] == "cf":
        n_procs, _ = resolve_n_procs(cfg)
        nkw = {} if n_procs is None else dict(n_procs=n_procs)
        if cfg.get("worker_as_object"):
            # a configured worker object instead of a plug-in name + keyword arguments
            from pydra.workers.cf import ConcurrentFuturesWorker

            kw["worker"] = ConcurrentFuturesWorker(**nkw)
        else:
            kw.update(nkw)
    elif cfg.get("worker_as_object"):
        from pydra.workers.debug import DebugWorker

        kw["worker"] = DebugWorker()
    return Submitter(**kw)


def make_hook(path):
    def pre_run(job):  # shipped by value inside the job pickle
        fd = os.open(path, os.O_WRONLY | os.O_APPEND | os.O_CREAT)
        try:
            os.write(fd, f"pre_run:{job.name}\n".encode())
        finally:
            os.close(fd)

    return pre_run


def dict_diff(a, b, prefix=""):
    """names of the entries that differ between two description dicts"""
    out = []
    for k in sorted(set(a or {}) | set(b or {})):
        x, y = (a or {}).get(k, "<missing>"), (b or {}).get(k, "<missing>")
        if isinstance(x, dict) and isinstance(y, dict):
            out += dict_diff(x, y, f"{prefix}{k}.")
        elif x != y:
            out.append(f"{prefix}{k}")
    return out


LAST = {}

SHARED_AUDIT = "workflow-job-fails:node-jobs-unpicklable:shared-audit-object-holds-running-resource-monitor"


def shared_audit_model(t, cfg, text):
    """defect model (root cause of F-C36-1, job.py `self.audit = submitter.audit`): while a WORKFLOW
    job monitors resources, the Audit object it shares with the submitter and with every node job
    holds a running ResourceMonitor (thread + file opened for writing), so no node job can be
    pickled - for the pool under cf, into _job.pklz under debug.  text=None: the child hung
    (Submitter.expand_workflow_async spins on jobs whose worker coroutine raised, F-C28-3)."""
    if t["kind"] != "wf" or cfg["audit"] not in ("RESOURCE", "ALL"):
        return False
    if text is None:
        return cfg["worker"] == "cf"
    return "Cannot pickle files that are not opened for reading" in text


NO_RUN_START = "child-run-raises:TypeError@submitter.py:_check_locks:run_start_time-None-outside-Submitter.__call__"


def no_run_start_model(cfg, r):
    """defect model: Submitter._check_locks compares a lock's creation time with
    Submitter.run_start_time, which only Submitter.__call__ sets; a job shipped without that stamp
    and run through Submitter.submit / Job.run (load_and_run) with clean_stale_locks on fails as soon
    as a runnable job has a lock file: a stale one (deterministic) or, under an async worker, the
    one of a queued job that has just started (race)"""
    return (not cfg.get("mimic_call") and r["submitter"].get("clean_stale_locks") == "True"
            and r.get("where") == "child-run-raises:TypeError@submitter.py:_check_locks"
            and "'<' not supported between instances of 'datetime.datetime' and 'NoneType'" in r["run_error"])


def stale_lock_target(t):
    """checksum of the job of the first node when it is a plain python node with constant inputs"""
    if t["kind"] != "wf":
        return None
    nd = t["prog"]["nodes"][0]
    if nd["kind"] not in ("T1", "T2", "L") or nd.get("split") or nd.get("combine"):
        return None
    if any(s[0] != "const" for s in nd["in"].values()):
        return None
    import vlib.tasks as T

    return getattr(T, G.TASKS[nd["kind"]])(**{f: s[1] for f, s in nd["in"].items()})._checksum


def structured(t):
    if t["kind"] == "py_ident":
        return t["spec"][0] not in ("none", "bool", "int", "float", "str", "bytes", "complex")
    if t["kind"] == "py_prov":
        return any(isinstance(v, list) for v in t["inputs"].values())
    return False


def check_case(case):
    import cloudpickle as cp
    from pydra.engine.hooks import TaskHooks
    from pydra.engine.job import Job

    t, cfg = case["task"], case["cfg"]
    kind = t["kind"]
    LAST.clear()
    LAST.update(excluded=None, nontrivial=False, labels=[f"kind_{kind}", f"worker_{cfg['worker']}"])
    if cfg["worker"] == "cf":
        if kind == "wf" and cfg.get("n_procs_rel"):
            raise HarnessError("a pool sized relative to the CPUs must not be attached to a workflow job")
        LAST["labels"].append(resolve_n_procs(cfg)[1])
    d = scratchdir.new("c29")
    closers = []
    try:
        # ---- reference: in-process run in its own cache root (+ the reference interpreter)
        exp = reference(t)
        if exp == "undefined":
            LAST["excluded"] = "undefined_by_statement"
            return []
        prog = t.get("prog")
        try:
            task_a = build_task(t, d)
            outs_in = task_a(cache_root=d / "inproc", worker="debug")
            r_in = render_outputs(kind, outs_in, prog)
        except Exception as e:  # C03/C23... territory: not a serialization matter
            LAST["excluded"] = "inprocess_run_raises"
            LAST["excluded_detail"] = short(e, 120)
            return []
        if exp is not None and r_in != exp:
            LAST["excluded"] = "inprocess_disagrees_with_reference"
            return []

        # ---- the job, built in the parent
        task_b = task_a if cfg["prerun_same_instance"] else build_task(t, d)
        sub = make_submitter(cfg, d)
        closers.append(sub.worker.close)
        target = stale_lock_target(t) if cfg.get("stale_node_lock") and sub.clean_stale_locks else None
        if target:
            import time

            (d / "child" / f"{target}.lock").touch()
            time.sleep(0.02)  # strictly older than the run start stamped below
            LAST["labels"].append("stale_node_lock_placed")
        if cfg.get("mimic_call"):
            from datetime import datetime

            sub.run_start_time = datetime.now()  # submitter.py:256, Submitter.__call__
        hook_log = str(d / "hook.log")
        hooks = TaskHooks(pre_run=make_hook(hook_log)) if cfg["hook"] else None
        job = Job(task=task_b, submitter=sub, name=cfg["name"], hooks=hooks)
        p_checksum = job.task._checksum
        if cfg["touch_checksum"] and job.checksum != p_checksum:
            raise HarnessError("Job.checksum != task._checksum in the parent")
        d_sub, d_job = describe_submitter(sub), describe_job(job)
        recs = []

        # ---- submitter / worker alone, in-process round trip
        for what, obj, desc in (("submitter", sub, describe_submitter), ("worker", sub.worker, describe_worker)):
            blob = cp.dumps(obj)
            back = cp.loads(blob)
            closers.append((back.worker if what == "submitter" else back).close)
            bad = dict_diff(desc(obj), desc(back))
            if bad:
                recs.append(dict(signature=f"{what}-attribute-not-preserved:{bad[0]}:in-process",
                                 observed=desc(back), expected=desc(obj)))
            (d / f"{what}.pkl").write_bytes(blob)
            r = server().ask(dict(op="load_obj", pkl=str(d / f"{what}.pkl"), what=what))
            if "error" in r:
                recs.append(dict(signature=f"child-cannot-load-{what}:{r['error'].split(':')[0]}",
                                 observed=r, expected="loads"))
            else:
                bad = dict_diff(desc(obj), r["desc"])
                if bad:
                    recs.append(dict(signature=f"{what}-attribute-not-preserved:{bad[0]}:child",
                                     observed=r["desc"], expected=desc(obj)))
                if what == "submitter" and not r.get("loop_ok"):
                    recs.append(dict(signature="submitter-has-no-usable-loop-after-load",
                                     observed=r, expected="open loop shared with the worker"))

        # ---- the job through the fresh interpreter
        with open(d / "job.pkl", "wb") as f:
            cp.dump(job, f)
        req = dict(op="load_run", pkl=str(d / "job.pkl"), rerun=cfg["rerun"], kind=kind, prog=prog)
        r = server().ask(req)
        if r.get("hang"):
            # a loaded machine can starve the child beyond CHILD_TIMEOUT: a hang only counts when a
            # fresh child given four times as long does not answer either
            LAST["labels"].append("child_retry_after_timeout")
            r = server().ask(req, timeout=4 * CHILD_TIMEOUT)
        if r.get("hang"):
            sig = SHARED_AUDIT if shared_audit_model(t, cfg, None) else f"child-run-hangs:{kind}:{cfg['worker']}"
            recs.append(dict(signature=sig, observed=f"no reply within {r['timeout']} s", expected=r_in))
            return recs
        if "error" in r:
            recs.append(dict(signature=f"child-cannot-load-job:{r['error'].split(':')[0]}:{kind}",
                             observed=r, expected="loads"))
            return recs
        LAST["labels"].append("child_async_path" if r["is_async"] else "child_sync_path")
        if r["checksum"] != p_checksum:
            how = "carried" if r.get("cached_checksum_in_pickle") else "computed"
            recs.append(dict(signature=f"job-checksum-differs-in-child:{how}:{kind}",
                             observed=r["checksum"], expected=p_checksum))
        if r["task_checksum"] != p_checksum:
            recs.append(dict(signature=f"task-checksum-recomputed-in-child-differs:{kind}",
                             observed=r["task_checksum"], expected=p_checksum))
        if r["name"] != cfg["name"]:
            recs.append(dict(signature="job-name-not-preserved", observed=r["name"], expected=cfg["name"]))
        for what, mine, theirs in (("submitter", d_sub, r["submitter"]), ("job", d_job, r["job"])):
            bad = dict_diff(mine, theirs)
            if bad:
                recs.append(dict(signature=f"{what}-attribute-not-preserved:{bad[0]}:inside-job-pickle",
                                 observed=theirs, expected=mine, detail=json.dumps(dict(differing=bad))))
        if not r["loop_ok"]:
            recs.append(dict(signature="submitter-has-no-usable-loop-after-load",
                             observed=r, expected="open loop shared with the worker"))
        if r["ran"] != "ok":
            sig = f"{r['where']}:{kind}:{cfg['worker']}"
            if shared_audit_model(t, cfg, (r.get("tb") or "") + r["run_error"]):
                sig = SHARED_AUDIT
            elif no_run_start_model(cfg, r):
                sig = NO_RUN_START
            recs.append(dict(signature=sig, observed=r["run_error"],
                             expected=r_in, detail=json.dumps(dict(tb=r.get("tb")))))
            return recs
        if not r["result_found"] or r.get("errored"):
            recs.append(dict(signature=f"child-has-no-successful-result-after-run:{kind}",
                             observed=r, expected=r_in))
            return recs
        if r["outputs"] != r_in:
            recs.append(dict(signature=f"child-outputs-differ-from-in-process-run:{kind}:{cfg['worker']}",
                             observed=r["outputs"], expected=r_in))

        # ---- the submitting process reads the result the child wrote
        LAST["labels"].append("served_from_readonly_cache" if not r["result_file_exists"] else "executed_by_child")
        res = job.result()
        if res is None:
            recs.append(dict(signature=f"parent-cannot-find-result-written-by-child:{kind}",
                             observed=None, expected=r["outputs"]))
        else:
            back = render_outputs(kind, res.outputs, prog)
            if res.errored or back != r["outputs"]:
                recs.append(dict(signature=f"result-read-back-by-parent-differs-from-childs:{kind}",
                                 observed=dict(errored=res.errored, outputs=back), expected=r["outputs"]))
            if str(res.cache_dir) != r["result_cache_dir"]:
                recs.append(dict(signature="result-cache-dir-differs-between-child-and-parent",
                                 observed=str(res.cache_dir), expected=r["result_cache_dir"]))
            tck = getattr(res.task, "_checksum", None)
            if tck != p_checksum:
                recs.append(dict(signature=f"task-inside-result-read-back-is-not-the-submitted-task:{kind}",
                                 observed=dict(type=type(res.task).__name__, checksum=tck), expected=p_checksum))
        if r["result_file_exists"]:  # ... and the file itself, without going through the job object
            with open(r["result_file"], "rb") as f:
                raw = cp.load(f)
            back = render_outputs(kind, raw.outputs, prog)
            if raw.errored or back != r["outputs"]:
                recs.append(dict(signature=f"result-file-written-by-child-read-back-differs:{kind}",
                                 observed=dict(errored=raw.errored, outputs=back), expected=r["outputs"]))
        if cfg["hook"]:
            lines = open(hook_log).read().splitlines() if os.path.exists(hook_log) else []
            if lines != [f"pre_run:{cfg['name']}"]:
                recs.append(dict(signature="job-hook-not-called-exactly-once-in-child",
                                 observed=lines, expected=[f"pre_run:{cfg['name']}"]))
        LAST["nontrivial"] = bool(r["result_file_exists"]) and (
            (kind == "wf" and len(t["prog"]["nodes"]) >= 2) or kind == "shell" or structured(t))
        return recs
    finally:
        for c in closers:
            try:
                c()
            except Exception:
                pass
        scratchdir.rm(d)


def run(sh):
    def body(case):
        recs = check_case(case)
        st = dict(LAST)
        if st.get("excluded"):
            sh.count("excluded_" + st["excluded"])
            sh.count("excluded_total")
            return
        cfg = case["cfg"]
        labels = list(st["labels"])
        for k in ("rerun", "hook", "touch_checksum", "prerun_same_instance", "mimic_call"):
            if cfg.get(k):
                labels.append("cfg_" + k)
        labels.append(f"audit_{cfg['audit']}")
        if cfg["n_readonly"]:
            labels.append("cfg_readonly_caches")
        if case["task"]["kind"] == "wf":
            labels += ["shape_" + lb for lb in RW.labels(case["task"]["prog"])]
        sh.record_case(case, st["nontrivial"], labels=labels)
        sh.handle(case, recs, raise_unattributed=True)

    sh.given(GW.ser_cases(hang_prone=not sh.quick), body, sh.budget(96, 1600), tag="serialization")
    _close()
