"""C26  Output path templates resolve inside the job directory.

One shell task with 0-3 inputs and one `outarg` whose path template references 0-2 of them is
defined per case and run 2-4 times with `pydra.environments.base.execute` replaced by a recorder:

 R1  the generated assignment of the output field (unset / True / False / explicit absolute /
     explicit relative path) in a fresh cache root
 R2  the same again in another fresh cache root            (equal inputs => equal path)
 R3  the referenced input file copied to another directory (location must not change the name)
 R4  a different assignment of the output field in R1's cache root (the new request must be honoured)

Observed per run: Job.inputs["out"], Job.cache_dir, argv, Outputs.out.
Oracle: a templated path is a direct child of the job's cache directory (no `..`, no absolute
escape), its name follows the independent naming rule of vlib/ref/shelltmpl.py
(c26_expected_names: extension kept/dropped as declared), an explicit path is used verbatim,
False/None produce no output argument.
"""
from __future__ import annotations

import shutil
from pathlib import Path

from vlib import scratchdir
from vlib.gen import shelltmpl as G
from vlib.harness import exception_signature, short
from vlib.inject import shelltmpl as I
from vlib.ref import shelltmpl as R

ID = "C26"
LEVEL = "exploration"
WALL = {"quick": 300, "thorough": 1500}
DESIGN_REF = "5/C26"
TECHNIQUE = "generated templates/inputs; invariant (containment) + metamorphic (rerun, relocate) + naming model"
RULE = (
    "cases = (0-2 referenced inputs: File with 0-2 extensions in varied directories (rarely a "
    "dot-file), str (rarely with path separators / dots), int, float (optionally with a format "
    "spec), list[str]/list[int] feeding a MultiOutputFile; an optional unreferenced input; a "
    "template of literal pieces around the references with or without its own extension; "
    "keep_extension True/False/default; output type File, File|None or MultiOutputFile; assignment "
    "unset/True/False/absolute/relative path; relocation directory; second assignment in the same "
    "cache root).  Non-trivial = the template references a file or >=2 inputs, or the assignment is "
    "an explicit path/False; distinct = the whole case."
)
ASSUMPTIONS = [
    "at most one file reference per template (pydra documents and enforces this limit)",
    "dots appear in generated templates only as a trailing extension (where a dot in the middle of "
    "a template makes 'the template's own extension' ambiguous the statement decides nothing)",
    "keep_extension=True with a template that has its own extension: both 'replace' and 'keep in "
    "place' are accepted (counted as undefined_by_statement)",
    "for strings containing path separators only containment and determinism are checked, not the name",
    "argv is compared only for paths without blanks (tokenisation of blanks is C23)",
    "native environment, debug worker; the fake command creates the file it is told to write",
]

TYPES = {"str": str, "int": int, "float": float}


def _define(case):
    from fileformats.generic import File
    from pydra.compose import shell
    from pydra.utils.typing import MultiOutputFile

    tps = dict(TYPES, file=File, liststr=list[str], listint=list[int])
    inputs = {}
    specs = list(case["inputs"]) + ([case["extra"]] if case.get("extra") else [])
    for i, spec in enumerate(specs):
        inputs[spec["name"]] = shell.arg(type=tps[spec["kind"]], argstr="", position=i + 1)
    kw = dict(path_template=case["template"], argstr="--out", position=-1)
    if case.get("keep") is not None:
        kw["keep_extension"] = case["keep"]
    if case.get("multi"):
        otype = MultiOutputFile
    else:
        otype = (File | None) if case.get("optional") else File
    return shell.define("cmd", inputs=inputs, outputs={"out": shell.outarg(type=otype, **kw)}), specs


def _file_path(root: Path, v) -> Path:
    return root / v["dir"] / (v["stem"] + "".join(v["exts"]))


def _kwargs(specs, root: Path, relocated: Path | None = None):
    kw = {}
    for spec in specs:
        if spec["kind"] == "file":
            p = _file_path(root, spec["value"])
            if not p.exists():
                p.parent.mkdir(parents=True, exist_ok=True)
                p.write_text("content of " + spec["name"])
            if relocated is not None:
                q = relocated / p.name
                q.parent.mkdir(parents=True, exist_ok=True)
                shutil.copy2(p, q)
                p = q
            kw[spec["name"]] = p
        else:
            kw[spec["name"]] = spec["value"]
    return kw


def _run(T, kwargs, cache_root: Path, case_dir: Path):
    """one submission; returns the observations and the exception (if any)"""
    def on_job(inputs, cache_dir):
        v = inputs.get("out")
        for p in (v if isinstance(v, list) else [v]):
            if isinstance(p, (str, Path)):
                target = Path(p) if Path(p).is_absolute() else cache_dir / p
                try:
                    ok = str(target.resolve()).startswith(str(case_dir.resolve()) + "/")
                except OSError:
                    ok = False
                if ok and not target.exists():
                    I.materialise(target)

    obs = dict(executed=False, job_out=None, cache_dir=None, argv=None, out=None, error=None)
    with I.recording(on_job=on_job, observe_job=True) as rec:
        try:
            outputs = T(**kwargs)(cache_root=cache_root, worker="debug")
            obs["out"] = outputs.out
        except Exception as e:  # noqa  classified by the caller
            obs["error"] = e
    if rec.jobs:
        obs["job_out"] = rec.jobs[0][0].get("out")
        obs["cache_dir"] = rec.jobs[0][1]
    if rec.calls:
        obs["executed"] = True
        obs["argv"] = rec.calls[0][0]
    return obs


def _aslist(v):
    if v is None or v is False:
        return []
    return list(v) if isinstance(v, (list, tuple)) else [v]


def _expected_names(case, kwargs):
    """(list of acceptable-name sets - one per output path -, rule, checkable)"""
    refs = {}
    file_ref = file_base = None
    hostile = False
    lists = {}
    for spec in case["inputs"]:
        if spec["kind"] == "file":
            file_ref, file_base = spec["name"], Path(kwargs[spec["name"]]).name
        elif spec["kind"] in ("liststr", "listint"):
            lists[spec["name"]] = spec["value"]
        else:
            refs[spec["name"]] = spec["value"]
            hostile = hostile or bool(spec.get("hostile"))
    # dot-files: what their "extension" is, is not decided by the statement -> name not compared
    hostile = hostile or any(s.get("hidden") for s in case["inputs"])
    keep = True if case.get("keep") is None else case["keep"]
    if lists and case.get("multi"):
        (lname, lvals), = lists.items()
        sets, rule = [], None
        for el in lvals:
            s, rule = R.c26_expected_names(case["template"], {**refs, lname: el}, file_ref, file_base, keep)
            sets.append(s)
        return sets, rule, not hostile
    s, rule = R.c26_expected_names(case["template"], refs, file_ref, file_base, keep)
    return [s], rule, not hostile


def _classify_name(case, kwargs, names):
    """defect models for a wrong name; returns a signature"""
    file_spec = next((s for s in case["inputs"] if s["kind"] == "file"), None)
    if file_spec is None:
        return "name-mismatch:no-file"
    ref = file_spec["name"]
    tmpl = case["template"]
    dropped = R.c26_prefix_drop_model(tmpl, ref)
    keep = True if case.get("keep") is None else case["keep"]

    def names_under(template, fmt_dot_model):
        alt = dict(case, template=template)
        sets, _rule, _ok = _expected_names(alt, kwargs)
        if fmt_dot_model and keep:
            # model: a '.' inside a {x:.2f} format spec is taken for the template's own extension,
            # so the input extension is not appended
            stem, _ext = R.split_first_dot(Path(kwargs[ref]).name)
            extra = []
            for spec_set in sets:
                extra.append({n[: -len(_ext)] if _ext and n.endswith(_ext) else n for n in spec_set})
            sets = [a | b for a, b in zip(sets, extra)]
        return sets

    import string

    fmt_dot = any(spec and "." in spec for _l, _f, spec, _c in string.Formatter().parse(tmpl))
    if dropped != tmpl and all(n in s for n, s in zip(names, names_under(dropped, False))):
        return "name-mismatch:text-before-file-reference-dropped"
    if fmt_dot and all(n in s for n, s in zip(names, names_under(tmpl, True))):
        return "name-mismatch:format-spec-dot-taken-for-extension"
    if fmt_dot and dropped != tmpl and all(n in s for n, s in zip(names, names_under(dropped, True))):
        return "name-mismatch:text-before-file-reference-dropped"
    return "name-mismatch:other"


def _check_templated(case, kwargs, obs, tag, out):
    """containment + naming + agreement of the three observation points for a templated output"""
    paths = _aslist(obs["job_out"])
    cd = obs["cache_dir"]
    if not paths:
        out.append(dict(signature=f"templated-output-missing:{tag}", observed=repr(obs["job_out"]),
                        expected="a path inside the job directory"))
        return None
    escaped = [str(p) for p in paths if not R.inside(p, cd)]
    if escaped:
        names = [Path(str(p)).name for p in paths]
        kind = "dot-name" if any(n in ("", ".", "..") for n in names) else "other"
        out.append(dict(signature=f"escapes-job-directory:{kind}", observed=escaped,
                        expected=f"direct children of {cd}"))
        return None
    names = [Path(str(p)).name for p in paths]
    sets, rule, checkable = _expected_names(case, kwargs)
    if checkable:
        if len(names) != len(sets) or not all(n in s for n, s in zip(names, sets)):
            out.append(dict(signature=_classify_name(case, kwargs, names), observed=names,
                            expected=[sorted(s) for s in sets],
                            detail=dict(rule=rule, template=case["template"], keep=case.get("keep"))))
            return names
    if len(set(names)) != len(names):
        return names  # (only reachable for names that are not compared) colliding outputs: nothing more to say
    if obs["error"] is None:
        got = [str(p) for p in _aslist(obs["out"])]
        if got != [str(p) for p in paths]:
            out.append(dict(signature="outputs-differ-from-job-inputs", observed=got,
                            expected=[str(p) for p in paths]))
    if obs["argv"] is not None and all(" " not in str(p) for p in paths):
        tail = [a for i, a in enumerate(obs["argv"]) if i > 0 and obs["argv"][i - 1] == "--out"]
        if tail != [str(p) for p in paths]:
            out.append(dict(signature="argv-differs-from-job-inputs", observed=obs["argv"],
                            expected=[str(p) for p in paths]))
    return names


def _check_assignment(case, kind, explicit_path, kwargs, obs, tag, out):
    """returns the templated names (or None)"""
    if obs["error"] is not None and not obs["executed"] and obs["job_out"] is None:
        out.append(dict(signature=exception_signature(obs["error"], f"run-raises:{kind}"),
                        observed=short(obs["error"]), expected="the job runs"))
        return None
    names = None
    if kind in ("true", "unset") and not (kind == "unset" and case.get("optional")):
        names = _check_templated(case, kwargs, obs, tag, out)
    elif kind in ("abs", "rel", "abs2"):
        if obs["job_out"] != explicit_path or not all(isinstance(p, Path) for p in _aslist(obs["job_out"])):
            out.append(dict(signature=f"explicit-path-altered:{kind}", observed=repr(obs["job_out"]),
                            expected=repr(explicit_path)))
        elif obs["argv"] is not None and obs["argv"][-2 * len(_aslist(explicit_path)):] != [
                w for p in _aslist(explicit_path) for w in ("--out", str(p))]:
            out.append(dict(signature=f"explicit-path-not-in-argv:{kind}", observed=obs["argv"],
                            expected=[w for p in _aslist(explicit_path) for w in ("--out", str(p))]))
        elif obs["error"] is None:
            got = [str(p) for p in _aslist(obs["out"])]
            want = [str(p) for p in _aslist(explicit_path)]
            want_abs = [str(Path(obs["cache_dir"]) / p) for p in _aslist(explicit_path)]
            if got != want and got != want_abs:
                out.append(dict(signature=f"explicit-path-not-returned:{kind}", observed=got, expected=want))
    else:  # False, or unset optional (None): no output requested
        if obs["argv"] is not None and "--out" in obs["argv"]:
            out.append(dict(signature=f"output-argument-present-when-disabled:{kind}", observed=obs["argv"],
                            expected="no --out"))
        if obs["error"] is None and obs["out"] is not None:
            out.append(dict(signature=f"output-returned-when-disabled:{kind}", observed=repr(obs["out"]),
                            expected=None))
    if obs["error"] is not None and not out:
        out.append(dict(signature=exception_signature(obs["error"], f"run-raises:{kind}"),
                        observed=short(obs["error"]), expected="the job runs and collects its output"))
    return names


def _out_kw(kind, path):
    if kind == "unset":
        return {}
    if kind == "true":
        return {"out": True}
    if kind == "false":
        return {"out": False}
    return {"out": path}


def check_case(case):
    d = scratchdir.new("c26")
    out = []
    try:
        try:
            T, specs = _define(case)
        except Exception as e:  # noqa
            return [dict(signature=exception_signature(e, "define-raises"), observed=short(e),
                         expected="a task class", detail=dict(template=case["template"]))]
        kind = case["assign"]
        explicit = _explicit(case, kind, d / "explicit")
        kwargs = _kwargs(specs, d / "src")
        if _degenerate(case, kwargs):
            return []  # the template evaluates to '', '.' or '..': not a file name (precondition)
        o1 = _run(T, {**kwargs, **_out_kw(kind, explicit)}, d / "c1", d)
        names1 = _check_assignment(case, kind, explicit, kwargs, o1, "r1", out)
        if out:
            return out
        # R2: equal inputs => equal path (relative to the cache root)
        o2 = _run(T, {**_kwargs(specs, d / "src"), **_out_kw(kind, explicit)}, d / "c2", d)
        rel1 = [str(Path(str(p))) .replace(str(d / "c1"), "<root>") for p in _aslist(o1["job_out"])]
        rel2 = [str(Path(str(p))).replace(str(d / "c2"), "<root>") for p in _aslist(o2["job_out"])]
        if rel1 != rel2 or (o1["error"] is None) != (o2["error"] is None):
            out.append(dict(signature="not-deterministic", observed=[rel1, rel2], expected="equal"))
            return out
        # R3: the same file somewhere else => same name
        if names1 is not None and any(s["kind"] == "file" for s in specs):
            kw3 = _kwargs(specs, d / "src", relocated=d / "moved" / case["relocate"])
            o3 = _run(T, {**kw3, **_out_kw(kind, explicit)}, d / "c3", d)
            names3 = [Path(str(p)).name for p in _aslist(o3["job_out"])]
            if o3["error"] is not None or names3 != names1:
                hidden = any(s.get("hidden") for s in case["inputs"])
                out.append(dict(signature="name-depends-on-input-directory" + (":dot-file-input" if hidden else ""),
                                observed=dict(original=names1, relocated=names3,
                                              error=short(o3["error"]) if o3["error"] else None),
                                expected="same file name"))
                return out
        # R4: another assignment of the output field in the same cache root
        second = case.get("second", "none")
        if second == "false" and not case.get("optional"):
            second = "none"
        if second != "none" and _norm(second, case) != _norm(kind, case) or second == "abs2":
            exp2 = _explicit(case, second, d / "explicit2")
            o4 = _run(T, {**_kwargs(specs, d / "src"), **_out_kw(second, exp2)}, d / "c1", d)
            sub = []
            if not o4["executed"] and o4["error"] is None and str(o4["out"]) == str(o1["out"]):
                changed = f"{_norm(kind, case)}->{_norm(second, case)}"
                sub.append(dict(signature="cache-hit-ignores-changed-output-request",
                                observed=dict(first=repr(o1["out"]), second=repr(o4["out"]), change=changed),
                                expected="the second request is honoured (new path / no output)"))
            else:
                _check_assignment(case, second, exp2, kwargs, o4, "r4", sub)
            out.extend(sub)
        return out
    finally:
        scratchdir.rm(d)


def _norm(kind, case):
    if kind == "unset":
        return "none" if case.get("optional") else "template"
    return {"true": "template", "false": "none", "abs": "path", "abs2": "path", "rel": "path"}[kind]


def _explicit(case, kind, base: Path):
    """explicit value for the output field: one path, or one per element for a multi-output"""
    if kind not in ("abs", "abs2", "rel"):
        return None
    root = Path("rel") if kind == "rel" else base
    if case.get("multi"):
        n = len(next(s["value"] for s in case["inputs"] if s["kind"] in ("liststr", "listint")))
        return [root / f"{i}_{case['explicit']}" for i in range(n)]
    return root / case["explicit"]


def _degenerate(case, kwargs):
    from pathlib import PurePosixPath

    vals = {}
    for s in case["inputs"]:
        v = kwargs[s["name"]]
        vals[s["name"]] = [Path(v).name] if s["kind"] == "file" else (v if isinstance(v, list) else [v])
    import itertools

    for combo in itertools.product(*vals.values()):
        text = case["template"].format(**dict(zip(vals, combo)))
        if PurePosixPath(text).name in ("", ".", ".."):
            return True
    return False


def nontrivial(case):
    has_file = any(s["kind"] == "file" for s in case["inputs"])
    return has_file or len(case["inputs"]) >= 2 or case["assign"] in ("abs", "rel", "false")


def labels_of(case):
    labs = {f"refs_{len(case['inputs'])}", "assign_" + case["assign"], f"keep_{case.get('keep')}"}
    for s in case["inputs"]:
        labs.add("ref_" + s["kind"])
        if s["kind"] == "file":
            labs.add(f"file_exts_{len(s['value']['exts'])}")
            if s.get("hidden"):
                labs.add("file_dotfile")
            i = case["template"].index("{" + s["name"])
            labs.add("file_ref_first" if i == 0 else "file_ref_after_text")
        if s.get("hostile"):
            labs.add("str_with_separators_or_dots")
    lit = R._literal_text(case["template"])
    labs.add("template_own_ext" if "." in lit else "template_no_ext")
    if case.get("multi"):
        labs.add("multi_output")
    if case.get("optional"):
        labs.add("optional_output")
    if case.get("second", "none") != "none":
        labs.add("second_" + case["second"])
    has_file_ext = any(s["kind"] == "file" and s["value"]["exts"] for s in case["inputs"])
    if has_file_ext and "." in lit and case.get("keep") in (True, None):
        labs.add("undefined_by_statement")
    elif has_file_ext:
        labs.add("rule_drop_extension" if case.get("keep") is False else "rule_keep_extension_appended")
    return sorted(labs)


def run(sh):
    def body(case):
        sh.run_case(case, nontrivial=nontrivial(case), labels=labels_of(case), raise_unattributed=True)

    sh.given(G.c26_case(), body, sh.budget(1500, 30000), tag="tmpl")
