"""C10  Concurrent submitters of one job share a single execution.

2-4 submitter PROCESSES (and a 2-thread variant) submit the same python task (body appends one line
to a counter file with O_APPEND, fast or 50 ms) - or the same one-node workflow around it, or (shape
"wf_shared") a DIFFERENT workflow each around the same node job - into ONE cache root, with the
Submitter option clean_stale_locks not given / True / False,
with and without a pre-existing result, under the `debug` worker (job runs in the
submitter: Job.run, SoftFileLock) or a one-process `cf` pool per submitter (for the workflow shape:
Job.run_async, PydraFileLock polling).  The interleaving is steered at named gates on the job path by generated
ordering constraints (vlib/inject/conc10.py, vlib/gen/conc10.py).

Oracle (from the statement): body executions == 1 (0 more with a pre-existing result); no submitter
raises; every submitter receives a complete result (never errored, never `outputs is None` with
errored False, every output field intact) and all of them the SAME one (a per-execution nonce is
part of the outputs); the result file unpickles afterwards to exactly those outputs.
"""
from __future__ import annotations

import os
import signal
import sys
import threading
import time
import traceback
from pathlib import Path

from vlib import scratchdir
from vlib.gen import conc10 as G10
from vlib.harness import HarnessError, exception_signature, short
from vlib.inject import conc10 as I10

ID = "C10"
LEVEL = "exploration"
DESIGN_REF = "5/C10, 4.3"
TECHNIQUE = ("property-based testing over generated ordering constraints between concurrent submitter "
             "processes at named gates of the lock/check/run/save protocol; invariant oracle")
RULE = (
    "cases = (2-4 submitter processes or 2 threads, worker debug|cf, python task or one-node workflow "
    "or - shape wf_shared - a DIFFERENT workflow per submitter around one and the same node job (the "
    "gates then follow that node job), Submitter option clean_stale_locks not given|True|False, "
    "pre-existing result or not, fast or 50 ms body, set of ordering constraints 'submitter i passes gate g only after submitter j passed / "
    "arrived at gate h' over 13 gates: before_submit (the submitter has not yet created/called its Submitter: it "
    "starts while another one is at work), before_acquire, lock_wait, after_acquire, after_check, "
    "after_populate, body_entered, body_left, before_save, after_save, before_release, after_release, returned). "
    "Non-trivial = at least two submitters passed 'after_acquire'/'lock_wait' at different times and at "
    "least one ordering constraint was feasible (its wait was satisfied, not escaped); distinct = full case. "
    "Batches: all shapes (wf_shared 1 in 6); wf_shared only, clean_stale_locks mostly False, scenarios "
    "with a submitter held at before_submit until the owner is inside a drawn section preferred."
)
ASSUMPTIONS = [
    "interleavings are STEERED at 13 gates of the submission/job path (harness-side wrappers around "
    "SoftFileLock.acquire/_acquire/release, Job._populate_filesystem, Job.result, result.save and the "
    "task body), they are not exhaustive; preemption between gates is left to the OS",
    "an ordering constraint that cannot be satisfied (the target finished without passing the gate, or "
    "waits - directly or through the job lock - for the waiter) is escaped and counted as infeasible, "
    "never failed; a 30 s fallback escape exists and is counted separately",
    "the number of body executions is the number of lines in an O_APPEND counter file",
    "a submitter that has not returned after the watchdog (300 s) is counted as inconclusive: the "
    "statement does not speak about blocking (lock files of dead processes are C12's subject)",
    "the threads variant shares one interpreter: os.chdir in Job.run is process-global there",
    "different workflows sharing a node job with stale-lock cleaning ON (clean_stale_locks=True, or not "
    "given with the debug worker) are run and counted (undefined_by_statement:...) but not judged: the "
    "Submitter docstring says not to set it where several workflows may run concurrently on one cache; "
    "for one and the same submitted task/workflow the option is judged in every setting",
]
SHARDS = {"quick": 16, "thorough": 16}
WALL = {"quick": 240, "thorough": 1500}

WATCHDOG = 300.0


# ------------------------------------------------------------------ one submitter (child side)
def _task(case, d, who=-1):
    from vlib.tasks_conc import Counter, CounterWf, CounterWfShared

    kw = dict(x=case["x"], log=str(Path(d) / "counter.log"), delay_ms=int(case["delay_ms"]))
    if case.get("shape") == "wf_shared":  # a different workflow per submitter, one node job
        return CounterWfShared(salt=int(who), **kw)
    return (CounterWf if case.get("shape") == "wf" else Counter)(**kw)


def _adopt(case):
    return "node" if case.get("shape") == "wf_shared" else "main"


def cleaning_on(case):
    """Submitter.clean_stale_locks as documented: the given value, by default on for the debug worker"""
    v = case.get("clean_stale_locks")
    return case["worker"] == "debug" if v is None else bool(v)


def _submit_once(case, d, ctl):
    """one submission; -> JSON outcome"""
    from pydra.engine.submitter import Submitter
    from vlib.tasks_conc import big_of

    out = dict(returned=False)
    try:
        kw = dict(n_procs=1) if case["worker"] == "cf" else {}
        if case.get("clean_stale_locks") is not None:
            kw["clean_stale_locks"] = bool(case["clean_stale_locks"])
        task = _task(case, d, ctl.me if ctl is not None else -1)
        if ctl is not None:
            ctl.gate("before_submit")
        with Submitter(worker=case["worker"], cache_root=Path(d) / "cache", **kw) as sub:
            res = sub(task)
        out.update(returned=True, errored=bool(res.errored), outputs_none=res.outputs is None)
        if res.outputs is not None:
            o = res.outputs
            big = getattr(o, "big", None)
            out.update(out=getattr(o, "out", None), nonce=getattr(o, "nonce", None),
                       big_ok=big == big_of(case["x"]), big_len=len(big) if isinstance(big, list) else None)
            out = {k: (v if isinstance(v, (str, int, bool, type(None))) else repr(v)) for k, v in out.items()}
    except Exception as e:  # noqa: BLE001 - the oracle decides: no submitter may raise
        out.update(raised=exception_signature(e, "exc"), msg=short(e, 300),
                   tb=traceback.format_exc()[-1500:])
    if ctl is not None:
        ctl.gate("returned")
        ctl.done()
    return out


def _wait_for(path, timeout):
    t0 = time.monotonic()
    while not os.path.exists(path):
        if time.monotonic() - t0 > timeout:
            return False
        time.sleep(0.002)
    return True


def _child_procs(case, d, i):
    gd = Path(d) / "gates"
    ctl = I10.GateCtl(gd, i, case["n"], case["constraints"], case.get("escape_s", 30.0),
                      cache_root=Path(d) / "cache", adopt=_adopt(case))
    I10.install()
    I10.set_current(ctl)
    _task(case, d)  # imports done before the start signal
    (Path(d) / f"ready.{i}").touch()
    _wait_for(Path(d) / "start", WATCHDOG)
    I10.dump_json(Path(d) / f"out.{i}.json", _submit_once(case, d, ctl))


def _child_threads(case, d):
    gd = Path(d) / "gates"
    I10.install()
    _task(case, d)
    outs = {}

    def work(i):
        ctl = I10.GateCtl(gd, i, case["n"], case["constraints"], case.get("escape_s", 30.0),
                          cache_root=Path(d) / "cache")
        I10.set_current(ctl, thread_only=True)
        (Path(d) / f"ready.{i}").touch()
        _wait_for(Path(d) / "start", WATCHDOG)
        outs[i] = _submit_once(case, d, ctl)
        I10.dump_json(Path(d) / f"out.{i}.json", outs[i])

    ths = [threading.Thread(target=work, args=(i,), daemon=True) for i in range(case["n"])]
    for t in ths:
        t.start()
    for t in ths:
        t.join(WATCHDOG)


def _fork(fn, logfile):
    sys.stdout.flush()
    sys.stderr.flush()
    pid = os.fork()
    if pid:
        return pid
    rc = 1
    try:
        os.setsid()
        fd = os.open(logfile, os.O_WRONLY | os.O_APPEND | os.O_CREAT, 0o644)
        os.dup2(fd, 1)
        os.dup2(fd, 2)
        os.close(fd)
        dn = os.open(os.devnull, os.O_RDONLY)
        os.dup2(dn, 0)
        os.close(dn)
        fn()
        rc = 0
    except BaseException:  # noqa: BLE001
        traceback.print_exc()
        rc = 99
    finally:
        sys.stdout.flush()
        sys.stderr.flush()
        os._exit(rc)


def _reap(pids, deadline):
    """-> {pid: status or None (still running at the deadline; killed)}"""
    st = {}
    left = set(pids)
    while left:
        for p in list(left):
            wp, s = os.waitpid(p, os.WNOHANG)
            if wp == p:
                st[p] = s
                left.discard(p)
        if not left:
            break
        if time.monotonic() > deadline:
            break
        time.sleep(0.003)
    for p in pids:
        try:
            os.killpg(p, signal.SIGKILL)
        except (ProcessLookupError, PermissionError):
            pass
    for p in left:
        try:
            os.waitpid(p, 0)
        except ChildProcessError:
            pass
        st[p] = None
    return st


def _count_lines(path):
    try:
        with open(path) as f:
            return sum(1 for ln in f if ln.strip())
    except FileNotFoundError:
        return 0


def _read_json(path):
    import json

    try:
        return json.loads(Path(path).read_text())
    except (OSError, ValueError):
        return None


# ------------------------------------------------------------------ the case
def check_case(case):
    import cloudpickle as cp

    from vlib.tasks_conc import big_of

    n = int(case["n"])
    d = scratchdir.new("c10")
    recs = []
    obs = dict(inconclusive=False)
    case["_obs"] = obs
    try:
        (d / "cache").mkdir()
        log = d / "counter.log"
        pre_nonce = None
        if case.get("pre"):
            pid = _fork(lambda: I10.dump_json(d / "pre.json", _submit_once(case, d, None)), str(d / "pre.log"))
            st = _reap([pid], time.monotonic() + WATCHDOG)
            pre = _read_json(d / "pre.json")
            if st[pid] != 0 or not pre or not pre.get("returned") or pre.get("nonce") is None:
                raise HarnessError(f"C10: the preparatory (single, unsteered) submission failed: {pre} "
                                   f"{(d / 'pre.log').read_text()[-600:]}")
            pre_nonce = pre["nonce"]
        base = _count_lines(log)
        if case.get("pre") and base != 1:
            raise HarnessError(f"C10: preparatory submission executed the body {base} times")
        # ---- the concurrent submitters
        if case["mode"] == "threads":
            pids = [_fork(lambda: _child_threads(case, d), str(d / "sub.log"))]
        else:
            pids = [_fork(lambda i=i: _child_procs(case, d, i), str(d / f"sub{i}.log")) for i in range(n)]
        t_end = time.monotonic() + WATCHDOG
        for i in range(n):
            _wait_for(d / f"ready.{i}", max(1.0, t_end - time.monotonic()))
        (d / "start").touch()
        st = _reap(pids, t_end)
        outs = [_read_json(d / f"out.{i}.json") for i in range(n)]
        logs = ""
        for f in sorted(d.glob("sub*.log")):
            logs += f.read_text()[-500:]
        if any(s is None for s in st.values()) or (
                case["mode"] == "threads" and any(o is None for o in outs) and set(st.values()) == {0}):
            obs["inconclusive"] = True  # watchdog: a submitter has not returned
            return []
        if any(s != 0 for s in st.values()) or any(o is None for o in outs):
            raise HarnessError(f"C10: a submitter process ended abnormally: {st} {logs}")
        events = I10.read_events(d / "gates")
        summ = I10.summarize(events)
        obs.update(summ)
        execs = _count_lines(log) - base
        detail = dict(order=[f"{w}:{g}" for w, g in summ["order"]][:80], constraint_outcomes=summ["outcomes"],
                      submitters=outs)
        expected_execs = 0 if case.get("pre") else 1
        if case.get("shape") == "wf_shared" and cleaning_on(case):
            # documented (Submitter docstring): with clean_stale_locks on - the default of the debug
            # worker - the lock of a node job that is older than this submitter's run start is removed,
            # "don't set if ... multiple workflows are running concurrently": the statement's guarantee
            # is not claimed for this configuration; the case is run and counted, not judged
            obs["undefined"] = "stale_lock_cleaning_on_with_concurrent_workflows"
            return []
        # ---- oracle
        if execs != expected_execs:
            sig = ("body-executed-more-than-once" if execs > 1 else
                   "existing-result-not-reused" if case.get("pre") else "body-never-executed")
            recs.append(dict(signature=sig, observed=f"{execs} executions by {n} concurrent submitters",
                             expected=f"{expected_execs}", detail=detail))
        for i, o in enumerate(outs):
            if o.get("raised"):
                recs.append(dict(signature=f"submitter-raised:{o['raised']}", observed=o.get("msg"),
                                 expected="no submitter raises", detail=dict(detail, tb=o.get("tb"))))
            elif o.get("errored"):
                recs.append(dict(signature="submitter-received-errored-result", observed=o,
                                 expected="a complete successful result", detail=detail))
            elif o.get("outputs_none"):
                recs.append(dict(signature="submitter-received-incomplete-result:outputs-none-errored-false",
                                 observed=o, expected="a complete successful result", detail=detail))
            elif o.get("out") != f"v({case['x']})" or not o.get("big_ok") or not o.get("nonce"):
                recs.append(dict(signature="submitter-received-partial-outputs", observed=o,
                                 expected=dict(out=f"v({case['x']})", big_len=len(big_of(case["x"]))),
                                 detail=detail))
        good = [o for o in outs if o.get("returned") and not o.get("errored") and not o.get("outputs_none")]
        nonces = sorted({o.get("nonce") for o in good})
        if len(nonces) > 1:
            recs.append(dict(signature="submitters-received-different-outputs", observed=nonces,
                             expected="identical outputs for every submitter", detail=detail))
        if pre_nonce is not None and nonces and nonces != [pre_nonce] and len(nonces) == 1:
            recs.append(dict(signature="existing-result-replaced", observed=nonces, expected=[pre_nonce],
                             detail=detail))
        # ---- the result file afterwards
        files = sorted((d / "cache").glob("*/_result.pklz"))
        want_n = 2 if case.get("shape") == "wf" else 1  # the workflow and its only node
        main = [f for f in files if f.parent.name.startswith("workflow-")] if want_n == 2 else files
        if case.get("shape") == "wf_shared":  # one workflow per submitter (+ the preparatory one), ONE node
            want_n = n + (1 if case.get("pre") else 0) + 1
            main = [f for f in files if not f.parent.name.startswith("workflow-")]
        if len(files) != want_n or len(main) != 1:
            recs.append(dict(signature="result-file-count-afterwards",
                             observed=[str(f.parent.name) for f in files],
                             expected=f"exactly {want_n} job director{'ies' if want_n > 1 else 'y'} with a result",
                             detail=detail))
        else:
            try:
                with open(main[0], "rb") as fp:
                    r = cp.load(fp)
                ro = r.outputs
                final = dict(errored=bool(r.errored), none=ro is None,
                             nonce=getattr(ro, "nonce", None), out=getattr(ro, "out", None),
                             big_ok=getattr(ro, "big", None) == big_of(case["x"]))
            except Exception as e:  # noqa: BLE001
                final = dict(unreadable=short(e))
            want = dict(errored=False, none=False, nonce=nonces[0] if len(nonces) == 1 else None,
                        out=f"v({case['x']})", big_ok=True)
            if final.get("unreadable"):
                recs.append(dict(signature="result-file-unreadable-afterwards", observed=final,
                                 expected="unpickles to the returned outputs", detail=detail))
            elif len(nonces) == 1 and final != want:
                recs.append(dict(signature="result-file-differs-from-returned-outputs", observed=final,
                                 expected=want, detail=detail))
        seen, uniq = set(), []
        for r in recs:
            if r["signature"] not in seen:
                seen.add(r["signature"])
                uniq.append(r)
        return uniq
    finally:
        scratchdir.rm(d)


def nontrivial(obs):
    return bool(obs.get("acquirers", 0) >= 2 and obs.get("distinct_times", 0) >= 2 and obs.get("feasible", 0) >= 1)


def run(sh):
    def body(case):
        un = sh.run_case(case, nontrivial=False,
                         labels=[f"mode_{case['mode']}", f"worker_{case['worker']}", f"n_{case['n']}",
                                 f"clean_stale_locks_{case.get('clean_stale_locks')}",
                                 f"shape_{case.get('shape', 'task')}",
                                 "pre_existing_result" if case["pre"] else "cold",
                                 f"scenario_{case['scenario']}", f"delay_{case['delay_ms']}ms"],
                         raise_unattributed=True)
        obs = case.pop("_obs", {})
        if obs.get("inconclusive"):
            sh.count("inconclusive_watchdog")
            return un
        if obs.get("undefined"):
            sh.count("undefined_by_statement:" + obs["undefined"])
            return un
        if any(c[1] == "before_submit" and c[3] != "before_submit" for c in case["constraints"]):
            sh.count("cases_with_a_submitter_starting_while_another_is_at_work")
        for k, v in (obs.get("outcomes") or {}).items():
            sh.count(f"constraint_{k}", v)
            if k == "escaped-timeout":  # fallback escape: a slow (not a provably stuck) target
                sh.count(f"escape_timeout_cases_{case['worker']}_{case.get('shape', 'task')}")
        if obs.get("lock_waiters"):
            sh.count("cases_with_a_submitter_polling_the_lock")
        if obs.get("steered"):
            sh.count("cases_with_a_wait_that_changed_the_order")
        if nontrivial(obs):
            sh.record_case(case, True, labels=["nontrivial"])
            sh.evaluations -= 1  # record_case counted it a second time
        return un

    sh.given(G10.cases(max_n=3 if sh.quick else 4), body, sh.budget(48, 640), tag="gates")
    # different workflows that share ONE node job, submitters that start while another is at work
    sh.given(G10.shared_node_cases(max_n=3 if sh.quick else 4), body, sh.budget(16, 320), tag="shared")
