"""C23  Field values reach the command intact.

Simple shell definitions (1-3 unpositioned str/File/list[str]/MultiInputObj[str] fields with plain,
empty, templated, separator-joined and '...' argstr) x values from a hostile alphabet (space, tab,
quotes, backslash, shell metacharacters, unicode) and from a 'safe' alphabet (metacharacters that
need no quoting for tokenisation).  Oracle: every reference argument that carries a supplied
string/path element (vlib/ref/argv.value_args: the element itself, or the argument its
argstr/separator builds around it) is present in the executed argv -- observed (a) at
`pydra.environments.base.execute` and (b), for a sample, by a really spawned process that prints
its argv.  Deviations are attributed with the defect models "the built string is tokenised again
with shlex" (vlib/ref/argv.model with RETOK) and "the string formatted from a template is
str.strip()ped" (TPLSTRIP); everything else keeps its own signature.
"""
from __future__ import annotations

from hypothesis import strategies as st

from vlib import scratchdir
from vlib.gen import shellspec as G
from vlib.harness import exception_signature, short
from vlib.inject import shellargv as OBS
from vlib.ref import argv as R

ID = "C23"
LEVEL = "exploration"
DESIGN_REF = "5/C23, 3.5"
TECHNIQUE = "generated values from a hostile alphabet; containment oracle on recorded and real argv"
RULE = (
    "cases = (definition of 1-3 unpositioned fields of type str/File/list[str]/MultiInputObj[str] "
    "(+ optional int/bool filler) with argstr plain/empty/templated/'...' and separators, value "
    "assignment and append_args from the hostile alphabet [word chars, space, tab, ' \" \\ $ * ; & "
    "| < > ( ), unicode letters, NO-BREAK SPACE, IDEOGRAPHIC SPACE, form feed] (half of the budget) "
    "or the safe alphabet [word chars, $*;&|<>()~#=,:%@!?^-, unicode letters and the whitespace "
    "characters that are not POSIX blanks: U+00A0 U+3000 U+2003 U+2028 U+0085 VT FF US; no "
    "blank/tab/quotes/backslash, i.e. nothing POSIX tokenisation touches] (other half); 1 in 6 cases additionally spawns a "
    "real process that echoes its argv). Non-trivial = some supplied string contains a non-word "
    "character and reaches the command line; distinct = canonical case."
)
ASSUMPTIONS = [
    "empty strings are not generated (the statement does not say whether '' is a set value)",
    "braces and square brackets are not in the alphabets (argstr templates give them a meaning; "
    "C25 covers templates)",
    "strings contain no NUL, no newline/carriage return and, for file names, no '/'",
    "non-POSIX whitespace (what str.split/str.strip/\\s treat as blank but sh and shlex do not) is "
    "an ordinary character for the statement: an argument holding it is one argument",
    "the separator may follow an element of a '...' list inside its argument (C22's separator "
    "finding): the value is still verbatim inside the argument, so C23 accepts it",
    "the real-process variant uses [/bin/sh, script] as a list executable, which bypasses "
    "tokenisation by construction",
]
SHARDS = {"quick": 16, "thorough": 16}
SIG_RETOK = "value-retokenised-by-shlex"
SIG_TPLSTRIP = "value-in-template-stripped-of-non-posix-whitespace"
SIG = {R.RETOK: SIG_RETOK, R.TPLSTRIP: SIG_TPLSTRIP}  # the defect models that alter values
STR_TYPES = ("str", "file", "list[str]", "multi[str]")


def materialise(case, d):
    """the spec with the '@echo' executable replaced by the real echo executable"""
    spec = case["spec"]
    if spec["executable"] == "@echo":
        spec = dict(spec, executable=OBS.echo_executable(d))
    return spec


def observe(case, spec, d):
    """-> ('exc', stage, e) | ('argv', recorded, received-or-None)"""
    try:
        T = G.build(spec)
    except Exception as e:  # noqa
        return ("exc", "define", e)
    c2 = dict(case, spec=spec)
    try:
        task = G.make_task(c2, d / "in", T)
    except Exception as e:  # noqa
        return ("exc", "construct", e)
    try:
        rec = OBS.recorded(task, d / "cache")
    except OBS.HarnessError:
        raise
    except Exception as e:  # noqa
        return ("exc", "run", e)
    recv = None
    if case["spec"]["executable"] == "@echo":
        try:
            recv = OBS.received(G.make_task(c2, d / "in", T), d / "cache-real")
        except Exception as e:  # noqa
            return ("exc", "run-real", e)
        recv = spec["executable"] + recv
    return ("argv", rec, recv)


def missing(required, argv):
    """required reference arguments (each with its acceptable spellings) that cannot be matched
    injectively to elements of argv (maximum bipartite matching, augmenting paths)"""
    cand = [[j for j, a in enumerate(argv) if isinstance(a, str) and a in ok]
            for _, _, ok in required]
    owner = {}  # argv index -> requirement index

    def assign(i, seen):
        for j in cand[i]:
            if j in seen:
                continue
            seen.add(j)
            if j not in owner or assign(owner[j], seen):
                owner[j] = i
                return True
        return False

    out = []
    for i, (name, arg, _) in enumerate(required):
        if not assign(i, set()):
            out.append((name, arg))
    return out


def as_raises(e):
    if isinstance(e, ValueError) and exception_signature(e).endswith("@task.py:split_cmd"):
        return R.Raises("ValueError")
    return None


def check_case(case):
    d = scratchdir.new("c23")
    try:
        spec = materialise(case, d)
        rv = G.resolved(spec, case["values"], d / "in")
        app = case.get("append_args") or []
        required = R.value_args(spec, rv) + [("append_args", a, [a]) for a in app]
        obs = observe(case, spec, d)
        if obs[0] == "exc":
            _, stage, e = obs
            r = as_raises(e) if stage in ("run", "run-real") else None
            if r is not None:
                s = R.explain(spec, rv, app, r)
                if s is not None and R.RETOK in s:
                    return [dict(signature=SIG[x], observed=short(e),
                                 expected=[a for _, a, _ in required],
                                 detail="raises exactly where the re-tokenisation model raises "
                                        f"({'+'.join(s)})") for x in s if x in SIG]
            return [dict(signature=exception_signature(e, f"{stage}-raises"), observed=short(e),
                         expected=[a for _, a, _ in required])]
        recs = []
        for where, got in (("recorded", obs[1]), ("received", obs[2])):
            if got is None:
                continue
            miss = missing(required, got)
            if miss and any(R.two_readings(f, rv[f["name"]]) for f in spec["fields"]):
                # literal reading of C22's statement for MultiInputObj without '...': joined
                alt = R.value_args(spec, rv, multi_joined=True) + required[-len(app):] if app \
                    else R.value_args(spec, rv, multi_joined=True)
                if not missing(alt, got):
                    miss = []
            if not miss:
                continue
            s = R.explain(spec, rv, app, got)
            if s is not None and any(x in SIG for x in s):
                sigs = [SIG[x] for x in s if x in SIG]
                detail = f"{where} argv equals the defect model {'+'.join(s)}"
            else:
                sigs = [f"value-not-intact:{where}"]
                detail = f"no defect model reproduces the {where} argv"
            recs += [dict(signature=sig, observed=got, expected=dict(missing=miss), detail=detail)
                     for sig in sigs]
            break
        if not recs and obs[2] is not None and obs[1] != obs[2]:
            recs.append(dict(signature="process-received-other-argv-than-handed-to-execute",
                             observed=obs[2], expected=obs[1]))
        return recs
    finally:
        scratchdir.rm(d)


# ---------------------------------------------------------------------------- generation
@st.composite
def simple_spec(draw):
    n = draw(st.sampled_from([1, 1, 2, 2, 3]))
    names = draw(st.permutations(G.NAMES))[:n]
    fields = []
    for i, name in enumerate(names):
        tname = draw(st.sampled_from(STR_TYPES if i == 0 else STR_TYPES + ("int", "bool")))
        choices = [a for a in G.argstr_choices(name, tname) if a is not None]
        f = dict(name=name, type=tname, optional=False, argstr=draw(st.sampled_from(choices)),
                 position=None, sep=None)
        if tname in G.LIST_TYPES:
            f["sep"] = draw(st.sampled_from([None, " ", ",", ":"]))
            a = f["argstr"]
            if "{" in a and not a.endswith("...") and tname != "multi[str]" and \
                    (f["sep"] or " ").strip() == "":
                f["sep"] = ","
        if tname == "bool":
            f["default"] = False
        elif draw(st.integers(0, 3)) == 0 and tname != "multi[str]":
            f["optional"], f["default"] = True, None
        fields.append(f)
    return dict(executable=draw(st.sampled_from(["tool", "tool", ["tool", "sub"]])), fields=fields)


@st.composite
def c23_case(draw, alpha):
    spec = draw(simple_spec())
    if draw(st.integers(0, 5)) == 0:
        spec["executable"] = "@echo"
    values = draw(G.values_for(spec, alpha, p_none=0.1))
    app = draw(st.one_of(st.none(), st.none(), st.lists(G.text(alpha), min_size=1, max_size=2)))
    return dict(spec=spec, values=values, append_args=app, alphabet=alpha["name"])


def strings_of(case):
    out = []
    for f in case["spec"]["fields"]:
        v = case["values"].get(f["name"])
        if f["type"] in STR_TYPES and v is not None and f.get("argstr") is not None:
            out += v if isinstance(v, list) else [v]
    return out + list(case.get("append_args") or [])


def char_labels(strs):
    lab = set()
    for s in strs:
        for ch in s:
            if G.plain_char(ch):
                continue
            lab.add({" ": "space", "\t": "tab", "'": "squote", '"': "dquote",
                     "\\": "backslash"}.get(ch, "nonposix_whitespace" if ch in G.UWS_CHARS
                                            else "unicode" if ord(ch) > 127 else "meta"))
    return lab


def run(sh):
    for alpha, (q, t) in ((G.HOSTILE, (800, 25000)), (G.SAFE, (800, 25000))):
        def body(case):
            strs = strings_of(case)
            cl = char_labels(strs)
            labels = [f"alphabet_{case['alphabet']}"] + [f"char_{c}" for c in sorted(cl)]
            if case["spec"]["executable"] == "@echo":
                labels.append("real_process")
            for f in case["spec"]["fields"]:
                if f["type"] in STR_TYPES and case["values"].get(f["name"]) is not None:
                    a = f["argstr"]
                    labels.append("argstr_" + ("repeat" if a.endswith("...") else "templated"
                                               if "{" in a else "bare" if a == "" else "plain"))
                    labels.append("type_" + f["type"])
            if case.get("append_args"):
                labels.append("append_args")
            sh.run_case(case, nontrivial=bool(cl), labels=sorted(set(labels)),
                        raise_unattributed=True)

        sh.given(c23_case(alpha), body, sh.budget(q, t), tag=alpha["name"])
