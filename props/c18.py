"""C18  Every submission terminates: it ends with outputs or with an error, also when the
connections form a cycle or the remaining jobs can no longer make progress.

Three case classes (all JSON specs, vlib/gen/conc18.py):

 backedge    a generated workflow program plus 1-2 late connections `nX.inputs.f = nY.out` made
             through the node-inputs API after the nodes exist (Y is X or a later node), with
             `ty.Any`-typed or `str`-typed tasks, under the `debug` and the `cf` worker.  Whether
             the connections then form a cycle is decided independently of pydra (Kahn).
 workerfail  a generated program under the schedule-owning worker where generated ordinal numbers
             of `Worker.run()` calls fail BEFORE the job starts: no result, no error file, no lock
             ever appears - what a dead batch job or a broken pool looks like.  The remaining jobs
             can then no longer make progress.
 ordinary    the same programs without any of it (debug / cf / sched): calibrates the budgets.

Each case runs in a forked child.  Verdict:
 * the child reports outputs or an error            -> terminated (a cyclic workflow must report
                                                       an error, not outputs)
 * a loop-state detector fired in the child          -> PROVEN non-termination (vlib/inject/conc18.py:
                                                       graph-sorting fixed point, submitter-loop
                                                       fixed point)
 * CPU budget (RLIMIT_CPU) or wall budget exhausted  -> violation for the backedge(cyclic)/workerfail
                                                       classes, "inconclusive" (counted) otherwise
"""
from __future__ import annotations

import asyncio
import os
import statistics
import time
from pathlib import Path

import attrs
from hypothesis import strategies as st

from vlib import scratchdir
from vlib.gen import conc18 as G18
from vlib.gen import workflows as G
from vlib.harness import HarnessError, exception_signature, short
from vlib.inject import conc18 as I18
from vlib.inject import sched
from vlib.ref import workflow as RW

ID = "C18"
LEVEL = "exploration"
DESIGN_REF = "5/C18, 4.2"
TECHNIQUE = ("property-based testing over generated workflow graphs with back-edges and generated "
             "worker-level failures; termination decided by CPU/wall budgets and exact loop-state repeats")
RULE = (
    "cases = (workflow program of <=4 nodes, possibly nested/split) x one of: 1-2 late connections "
    "nX.inputs.f = nY.out with Y = X or later (Any-typed or str-typed tasks; debug or cf worker) | "
    "ordinal numbers of Worker.run() calls that fail before the job starts (schedule-owning worker, "
    "generated completion order) | nothing (debug/cf/sched). Non-trivial = the late connections close "
    "a cycle (decided by an independent topological sort of the spec), or an injected worker failure "
    "actually happened; distinct = full case."
)
ASSUMPTIONS = [
    "termination is decided, never proved: a submission that is still running after max(60 s, 100 x "
    "the median CPU time of ordinary cases) of its own CPU time (RLIMIT_CPU) or after max(75 s, 100 x "
    "their median wall time) is called non-terminating; the wall watchdog is capped at 300 s and a "
    "capped expiry is only counted as inconclusive; when the machine is so overloaded that even the "
    "calibration run does not finish, every expiry in that shard is inconclusive",
    "non-termination is PROVEN only by an exactly repeating loop state: two identical consecutive "
    "DiGraph._sorting calls with an empty sorted part inside one sorting() call, or 50 consecutive "
    "submitter-loop iterations with identical runnable jobs, nothing in flight and an unchanged cache "
    "root listing (the engine's own stall branch polls at most 11 times)",
    "timeouts of ordinary programs (no cycle, no injected failure) are inconclusive, not violations",
    "a worker-level failure is injected in the harness worker only (Worker.run raises before the job "
    "starts); pool crashes that leave lock files behind belong to C12/C14",
    "back-edges are made at the top level of the workflow (not inside nested workflows)",
]
SHARDS = {"quick": 16, "thorough": 16}
WALL = {"quick": 400, "thorough": 1500}

CPU_FLOOR = 60.0
WALL_FLOOR = 75.0      # 60 s + the 11 x 1 s polls of expand_workflow_async's stall branch
WALL_CAP = 300.0

# measured costs of terminated ordinary cases in this process: {worker: [(cpu, wall), ...]}
COSTS: dict[str, list] = {}

CALIB_PROG = dict(
    inputs={"x0": ["x0_0", "x0_1"]},
    nodes=[dict(name="n0", kind="T1", split="a", combine=None, **{"in": {"a": ["split", "x0"]}}),
           dict(name="n1", kind="T2", split=None, combine=None,
                **{"in": {"a": ["node", "n0"], "b": ["const", "k"]}})],
    outs=["n1"], wf_split=None)


# ------------------------------------------------------------------ the submission (child side)
def _n_procs(prog):
    try:
        return min(12, max(2, sum(RW.job_count(prog).values())))
    except Exception:
        return 12


@attrs.define
class FailMarkWorker(sched.SchedWorker):
    """SchedWorker with generated worker-level failures, by ordinal number of the run() call:
      "raise"  the worker coroutine raises before the job starts (SchedWorker.worker_failures)
      "lost"   the worker coroutine returns normally although the job never ran (a batch system
               that reports completion of a job whose result never arrives)
    Neither leaves a result, an error file or a lock.  It also tells the detector context which
    calls it failed."""
    _plugin_name = "sched"
    lost_calls: list = attrs.field(factory=list)
    failed_calls: list = attrs.field(factory=list, init=False, eq=False)
    ctx: dict = attrs.field(factory=dict, eq=False, repr=False)

    def _note(self, n, job, mode):
        self.failed_calls.append(n)
        self.ctx["worker_failed_calls"] = list(self.failed_calls)
        self.ctx.setdefault("failed_jobs", []).append([job.checksum, mode])

    async def run(self, job, rerun=False):
        nxt = self.n_run_calls + 1
        if nxt in self.lost_calls:
            self.n_run_calls = nxt
            self._note(nxt, job, "lost")
            if self.sched_task is None:
                self.sched_task = self.loop.create_task(self.scheduler())
            await asyncio.sleep(0)
            return None
        if nxt in self.worker_failures:
            self._note(nxt, job, "raise")
        return await super().run(job, rerun=rerun)

    def __getstate__(self):
        st = super().__getstate__()
        st["ctx"] = {}
        return st


def split_failures(spec):
    """[[ordinal, mode], ...] -> (raise ordinals, lost ordinals)"""
    fails = [n for n, m in spec or [] if m == "raise"]
    lost = [n for n, m in spec or [] if m == "lost"]
    return fails, lost


def _submit(case, d, det):
    """runs in the forked child; -> JSON outcome"""
    from pydra.engine.submitter import Submitter

    d = Path(d)
    cache = d / "cache"
    cache.mkdir(parents=True, exist_ok=True)
    out = dict(status=None, worker_failed_calls=[], n_run_calls=None)
    t0c = time.process_time()
    w = None
    try:
        try:
            if case["kind"] == "backedge" or case.get("typed"):
                task = G18.build(case["prog"], case.get("edges") or [], bool(case.get("typed")), d / "src")
            else:
                task = G.build(case["prog"], d / "src")
            worker = case["worker"]
            if worker == "sched":
                gate = sched.make_gate(d / "gate")
                os.environ["VERIF_GATE"] = gate
                fails, lost = split_failures(case.get("worker_failures"))
                w = FailMarkWorker(gate=gate, choices=list(case.get("choices") or []),
                                   n_procs=_n_procs(case["prog"]), worker_failures=fails,
                                   lost_calls=lost, ctx=det.context)
                with Submitter(worker=w, cache_root=cache) as sub:
                    res = sub(task, raise_errors=False)
            else:
                os.environ.pop("VERIF_GATE", None)
                kw = dict(n_procs=3) if worker == "cf" else {}
                with Submitter(worker=worker, cache_root=cache, **kw) as sub:
                    res = sub(task, raise_errors=False)
            if res.errored:
                head = None
                try:
                    lines = [ln for ln in "".join((res.errors or {}).get("error message", [])).splitlines()
                             if ln.strip()]
                    head = lines[-1].strip()[:160] if lines else None
                except Exception:  # noqa: BLE001 - the report is only used for coverage labels
                    pass
                out.update(status="error", how="errored-result", msg=head,
                           exc=("exc:" + head.split(":")[0]) if head and ":" in head else None)
            elif res.outputs is None:
                out.update(status="error", how="no-outputs")
            else:
                out.update(status="outputs")
        except Exception as e:  # noqa: BLE001 - ANY exception is a legitimate way to terminate here
            out.update(status="error", how="raised", exc=exception_signature(e, "exc"), msg=short(e, 200))
    finally:
        if w is not None:
            out["worker_failed_calls"] = list(w.failed_calls)
            out["n_run_calls"] = w.n_run_calls
            try:
                w.close()
            except Exception:
                pass
    out["cpu_s"] = round(time.process_time() - t0c, 3)
    return out


# ------------------------------------------------------------------ budgets
def _run(case, d, cpu_budget, wall_watchdog):
    d = Path(d)
    d.mkdir(parents=True, exist_ok=True)
    return I18.run_child(lambda det: _submit(case, d, det), cpu_budget, wall_watchdog,
                         d / "outcome.json", d / "child.log", cache_root=d / "cache")


UNCALIBRATED: set[str] = set()


def _calibrate(worker):
    """cost of an ordinary submission under `worker`, measured once per process"""
    if COSTS.get(worker) or worker in UNCALIBRATED:
        return
    d = scratchdir.new("c18cal")
    try:
        c = dict(kind="ordinary", prog=CALIB_PROG, worker=worker, choices=[])
        r = _run(c, d, CPU_FLOOR, WALL_CAP)
        if r["status"] == "ok" and r["result"]["status"] == "outputs":
            COSTS.setdefault(worker, []).append((r["cpu_s"] or 0.0, r["wall_s"]))
        elif r["status"] in ("cpu", "wall"):
            # the machine is too slow right now to say what "normal" costs: budgets cannot be trusted
            UNCALIBRATED.add(worker)
        else:
            raise HarnessError(f"C18 calibration run under {worker!r} did not produce outputs: {r}")
    finally:
        scratchdir.rm(d)


def budgets(worker):
    """-> (cpu budget, wall budget, trusted)"""
    _calibrate(worker)
    if not COSTS.get(worker):
        return CPU_FLOOR, WALL_CAP, False
    cpu = statistics.median(c for c, _ in COSTS[worker])
    wall = statistics.median(w for _, w in COSTS[worker])
    cpu_budget = max(CPU_FLOOR, 100 * cpu)
    wall_budget = max(WALL_FLOOR, 100 * wall)
    return cpu_budget, wall_budget, True


# ------------------------------------------------------------------ classification
def case_class(case):
    if case["kind"] == "backedge":
        g = G18.graph_after(case["prog"], case["edges"])
        return "backedge-cyclic" if G18.has_cycle(g) else "backedge-acyclic"
    return case["kind"]


def surely_rejected(case):
    """Defect-model side condition for cyclic back-edges.  On this tree nothing detects cycles; a late
    connection is refused only incidentally, by `Node.Inputs.__setattr__` ->
    `_check_if_outputs_have_been_used`: a STATELESS target node whose (non-Any typed) output has
    already been type-checked against a typed input.  True = the spec guarantees that situation for
    at least one of the late connections (str-typed T1/T2 target without any split upstream, whose
    output feeds a str-typed field of a T1/T2 node, or which is connected to itself), so the
    construction must raise and can never reach the graph sorting."""
    if case.get("kind") != "backedge" or not case.get("typed"):
        return False
    nodes = {nd["name"]: nd for nd in case["prog"]["nodes"]}

    def stateless(name, seen=()):
        nd = nodes[name]
        if nd.get("split") or nd.get("combine"):
            return False
        for src in nd["in"].values():
            if src[0] in ("split", "splitnode"):
                return False
            if src[0] == "node" and src[1] not in seen and not stateless(src[1], seen + (name,)):
                return False
        return True

    for t, f, s in case["edges"]:
        if nodes[t]["kind"] not in ("T1", "T2") or not stateless(t):
            continue
        feeds_typed = any(src[0] == "node" and src[1] == t and c["kind"] in ("T1", "T2")
                          for c in nodes.values() for src in c["in"].values())
        if t == s or feeds_typed:
            return True
    return False


def check_case(case):
    klass = case_class(case)
    worker = case["worker"]
    cpu_budget, wall_budget, trusted = budgets(worker)
    watchdog = min(wall_budget, WALL_CAP)
    d = scratchdir.new("c18")
    try:
        r = _run(case, d, cpu_budget, watchdog)
        log_tail = ""
        try:
            log_tail = (Path(d) / "child.log").read_text()[-400:]
        except OSError:
            pass
    finally:
        scratchdir.rm(d)
    obs = dict(klass=klass, status=r["status"], cpu_s=r["cpu_s"], wall_s=r["wall_s"], outcome=None,
               failed=False)
    case["_obs"] = obs
    recs = []
    detail = dict(worker=worker, klass=klass, cpu_s=r["cpu_s"], wall_s=r["wall_s"],
                  cpu_budget_s=round(cpu_budget, 1), wall_budget_s=round(wall_budget, 1))
    if r["status"] == "ok":
        res = r["result"]
        failed_calls = res.get("worker_failed_calls") or (res.get("context") or {}).get("worker_failed_calls") or []
        obs["failed"] = bool(failed_calls)
        obs["outcome"] = res["status"]
        if res["status"] == "proof":
            proof = res["proof"]
            if proof["kind"] == "graph-sorting-fixed-point":
                if klass == "backedge-cyclic":
                    cyc = G18.cycle_nodes(G18.graph_after(case["prog"], case["edges"]))
                    if not (cyc and set(proof["unsorted"]) >= set(cyc)):
                        sig = "graph-sorting-never-ends:unsorted-set-differs-from-cycle"
                    elif surely_rejected(case):
                        sig = "cycle-hangs-in-graph-sorting:typed-late-connection-was-accepted"
                    else:
                        sig = "cycle-hangs-in-graph-sorting"
                else:
                    sig = f"graph-sorting-never-ends:{klass}"
            else:
                failed_jobs = dict((res.get("context") or {}).get("failed_jobs") or [])
                stuck = sorted({failed_jobs[c] for c in proof.get("runnable") or [] if c in failed_jobs})
                if klass == "workerfail" and failed_calls and stuck:
                    # defect model: the job whose worker coroutine ended without a result is handed
                    # back as "runnable" for ever while nothing is in flight
                    sig = "worker-ended-without-result:submitter-spins:" + "+".join(stuck)
                else:
                    sig = f"submitter-loop-never-ends:{klass}"
            recs.append(dict(signature=sig, observed=dict(proven_non_termination=proof),
                             expected="the submission ends with outputs or an error", detail=detail))
        elif res["status"] == "outputs":
            if klass == "backedge-cyclic":
                recs.append(dict(signature="cyclic-workflow-returned-outputs",
                                 observed="outputs",
                                 expected="a workflow whose connections form a cycle is reported as an error",
                                 detail=detail))
            elif klass == "ordinary":
                COSTS.setdefault(worker, []).append((r["cpu_s"] or 0.0, r["wall_s"]))
        else:
            obs["how"] = res.get("how")
            obs["exc"] = res.get("exc")
    elif r["status"] in ("cpu", "wall"):
        full = trusted and (r["status"] == "cpu" or watchdog >= wall_budget)
        # which class of defect the timeout belongs to: only where the case construction says that
        # the submission cannot legitimately run for long
        violating = klass in ("backedge-cyclic", "workerfail")
        if klass == "workerfail":
            obs["failed"] = None  # unknown: the child did not report
        if violating and full:
            recs.append(dict(signature=f"no-termination-within-{r['status']}-budget:{klass}",
                             observed=f"still running after {r['cpu_s']} s CPU / {r['wall_s']} s wall",
                             expected="the submission ends with outputs or an error",
                             detail=dict(detail, log_tail=log_tail)))
        else:
            obs["outcome"] = "inconclusive-" + r["status"] + ("" if full else "-capped" if trusted else "-uncalibrated")
    else:
        raise HarnessError(f"C18 child ended abnormally ({r['status']}): {log_tail}")
    return recs


# ------------------------------------------------------------------ exploration
def run(sh):
    def body(case):
        klass = case_class(case)
        un = sh.run_case(case, nontrivial=False, labels=[f"class_{klass}", f"worker_{case['worker']}"],
                         raise_unattributed=True)
        obs = case.pop("_obs", {})
        out = obs.get("outcome")
        sh.count(f"outcome_{klass}_{out or obs.get('status')}")
        if out == "error" and klass.startswith("backedge"):
            sh.count(f"backedge_error_{(obs.get('exc') or 'unknown').split(':')[-1].split('@')[0][:40]}")
        if case.get("typed") is not None and klass.startswith("backedge"):
            sh.count("backedge_typed" if case["typed"] else "backedge_untyped")
            if klass == "backedge-cyclic" and surely_rejected(case):
                sh.count("backedge_cyclic_typed_connection_that_must_be_refused")
        nontrivial = klass == "backedge-cyclic" or (klass == "workerfail" and obs.get("failed"))
        if klass == "workerfail":
            sh.count("workerfail_happened" if obs.get("failed") else "workerfail_ordinal_not_reached")
        if nontrivial:
            sh.record_case(case, True, labels=["nontrivial"])
            sh.evaluations -= 1  # record_case counted it a second time
        return un

    n = sh.budget(64, 1000)
    nb = max(1, n // 2)
    nw = max(1, n // 4)
    no = max(1, n - nb - nw)
    sh.given(G18.ordinary_cases(), body, no, tag="ordinary")
    sh.given(G18.backedge_cases(), body, nb, tag="backedge")
    sh.given(G18.workerfail_cases(), body, nw, tag="workerfail")
    for wk, rows in COSTS.items():
        if rows and sh.index == 0:
            sh.note(f"median cost of ordinary cases under {wk}: "
                    f"{statistics.median(c for c, _ in rows):.2f} s CPU, "
                    f"{statistics.median(w for _, w in rows):.2f} s wall (shard {sh.index})")
