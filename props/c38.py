"""C38  Mount lookup compares whole path components.

A generated mount table is rendered the way `mount` prints it (Linux or macOS flavour), parsed by
MountIndentifier.parse_mount_table, installed with patch_table, and probed:

 L1  get_mount(p) == longest entry of the *parsed* table that is a component prefix of p
     (("/", "ext4") when none); on_cifs / on_same_mount derived from the same reference;
 L2  on_cifs(p) == "the longest generated mount that component-prefixes p is a cifs mount"
     (ground truth from the generated mount list, so a parsing/filtering error is seen too).
"""
from __future__ import annotations

from pathlib import Path

from vlib.gen import mounts as G
from vlib.harness import exception_signature, short
from vlib.ref import mounts as R

ID = "C38"
LEVEL = "exploration"
DESIGN_REF = "5/C38"
TECHNIQUE = "generated mount output + probe paths vs a component-wise reference lookup"
RULE = (
    "cases = (mount output of 1-6 unique mount points, Linux or macOS flavour, generated with "
    "string-prefix siblings (/data, /data2, '/data 2'), nestings, optional cifs root, blank/garbage "
    "lines, shuffled order; 2-5 probe paths (under / exactly / sibling of / parent of / truncated "
    "mount point, str, Path or trailing slash); 1-3 path pairs). Non-trivial = the parsed table is "
    "non-empty and some probe has >=2 component-prefix candidates or a string-prefix-only "
    "candidate; distinct = full case."
)
ASSUMPTIONS = [
    "paths are absolute, normalised (no '..', no doubled slashes) POSIX paths, as every caller passes",
    "mount points are unique within one table (shadowing by a later mount is not stated)",
    "the fall-back for a path below no listed mount is ('/', 'ext4') (table lists only CIFS mounts "
    "and what is mounted below them, by design); on_same_mount is therefore judged against the "
    "parsed table, its divergence from the full mount list is only counted",
    "directory names containing ' type ', ' on /' or ' (' are not generated",
]
KNOWN_SIG = "string-prefix-match-across-component-boundary"


def render(case) -> str:
    lines = []
    for dev, mp, fs, opts in case["mounts"]:
        if case["style"] == "linux":
            lines.append(f"{dev} on {mp} type {fs} ({opts})")
        else:
            lines.append(f"{dev} on {mp} ({fs}{', ' + opts if opts else ''})")
    for pos, text in sorted(case.get("noise", []), key=lambda x: -x[0]):
        lines.insert(min(pos, len(lines)), text)
    return "\n".join(lines) + "\n"


def _arg(p, form):
    return Path(p) if form == "path" else p


def _obs(mount):
    return (str(mount[0]), mount[1])


def analyse(case):
    """(parsed-table entries relevant facts) used for labels, without touching pydra"""
    truth = [(mp, fs) for _, mp, fs, _ in case["mounts"]]
    table = R.cifs_table(truth)
    nested = any(len(R.candidates(table, p)) >= 2 for p, _ in case["paths"])
    confus = any(R.string_prefix_confusable(R.cifs_table_string_prefix(truth), p)
                 for p, _ in case["paths"])
    return truth, table, nested, confus


def check_case(case):
    from pydra.utils.mount_identifier import MountIndentifier as M

    out = []
    seen = set()

    def add(sig, observed, expected, **detail):
        if sig not in seen:
            seen.add(sig)
            out.append(dict(signature=sig, observed=observed, expected=expected, detail=detail))

    truth = [(mp, fs) for _, mp, fs, _ in case["mounts"]]
    text = render(case)
    try:
        parsed = M.parse_mount_table(0, text)
        table = [(str(p), str(t)) for p, t in parsed]
    except Exception as e:  # noqa
        return [dict(signature=exception_signature(e, "parse-raises"), observed=short(e),
                     expected="a table")]
    truth_bug_table = R.cifs_table_string_prefix(truth)
    with M.patch_table(parsed):
        for p, form in case["paths"]:
            arg = _arg(p, form)
            try:
                got = _obs(M.get_mount(arg))
                cifs = M.on_cifs(arg)
            except Exception as e:  # noqa
                add(exception_signature(e, "lookup-raises"), short(e), "a mount", path=p)
                continue
            # L1: against the table pydra itself parsed
            exp = R.lookup(table, p)
            if got != exp:
                model = R.string_prefix_lookup(table, str(arg))
                sig = KNOWN_SIG if got == model else "get_mount-wrong"
                add(sig, list(got), list(exp), path=p, table=table, observer="get_mount")
            if cifs is not (exp[1] == "cifs"):
                model = R.string_prefix_lookup(table, str(arg))
                sig = KNOWN_SIG if cifs is (model[1] == "cifs") and model != exp else "on_cifs-wrong"
                add(sig, cifs, exp[1] == "cifs", path=p, table=table, observer="on_cifs")
            # L2: against the generated mount list
            t_exp = R.lookup(R.cifs_table(truth), p)[1] == "cifs"
            if cifs is not t_exp:
                t_model = R.string_prefix_lookup(truth_bug_table, str(arg))[1] == "cifs"
                sig = KNOWN_SIG if cifs is t_model else "on_cifs-wrong-vs-mount-output"
                add(sig, cifs, t_exp, path=p, mounts=truth, parsed=table, observer="on_cifs/L2")
        for i, j in case["pairs"]:
            (p, fp), (q, fq) = case["paths"][i], case["paths"][j]
            try:
                same = M.on_same_mount(_arg(p, fp), _arg(q, fq))
            except Exception as e:  # noqa
                add(exception_signature(e, "lookup-raises"), short(e), "a bool", paths=[p, q])
                continue
            exp = R.lookup(table, p)[0] == R.lookup(table, q)[0]
            if same is not exp:
                mp_, mq_ = (R.string_prefix_lookup(table, str(_arg(x, f)))[0] for x, f in ((p, fp), (q, fq)))
                sig = KNOWN_SIG if same is (mp_ == mq_) else "on_same_mount-wrong"
                add(sig, same, exp, paths=[p, q], table=table, observer="on_same_mount")
    return out


def same_mount_vs_full_table(case) -> int:
    """how many pairs are 'same mount' for the CIFS-only table but on different real mounts
    (by design of the table; counted, not judged)"""
    truth = [(mp, fs) for _, mp, fs, _ in case["mounts"]]
    table = R.cifs_table(truth)
    n = 0
    for i, j in case["pairs"]:
        p, q = case["paths"][i][0], case["paths"][j][0]
        if (R.lookup(table, p)[0] == R.lookup(table, q)[0]) != (R.lookup(truth, p)[0] == R.lookup(truth, q)[0]):
            n += 1
    return n


def labels_of(case):
    truth, table, nested, confus = analyse(case)
    labels = ["style_" + case["style"]]
    if not table:
        labels.append("table_empty")
    if nested:
        labels.append("nested_candidates")
    if confus:
        labels.append("string_prefix_sibling_probe")
    if any(mp == "/" and fs == "cifs" for mp, fs in truth):
        labels.append("cifs_root")
    if any(" " in mp for mp, _ in table):
        labels.append("space_in_mount_point")
    if any(form == "path" for _, form in case["paths"]):
        labels.append("pathlib_argument")
    if case.get("noise"):
        labels.append("noise_lines")
    if same_mount_vs_full_table(case):
        labels.append("undefined_by_statement:same_mount_on_cifs_only_table_differs_from_full_table")
    return labels, bool(table) and (nested or confus)


def run(sh):
    def body(case):
        labels, nt = labels_of(case)
        sh.run_case(case, nontrivial=nt, labels=labels, raise_unattributed=True)

    sh.given(G.cases(), body, sh.budget(5000, 200000), tag="gen")
    if not sh.quick:
        run_atheris(sh)


def run_atheris(sh):
    """secondary, coverage-guided driver (thorough tier): fuzz/c38_atheris.py feeds libFuzzer's
    byte strings through `hypothesis.fuzz_one_input` of the same strategy into the same
    check_case; a violation it finds is re-executed here so that it is recorded like any other"""
    import json
    import subprocess
    import sys

    from vlib import scratchdir
    from vlib.harness import HOME, HarnessError

    try:
        import atheris  # noqa: F401
    except ImportError:
        sh.note("atheris is not importable: coverage-guided driver skipped")
        return
    runs = sh.budget(0, 480000)
    left = int(sh.time_left()) - 60
    if runs <= 0 or left < 30:
        sh.note("no time left for the coverage-guided driver")
        return
    d = scratchdir.new("c38fz")
    summary = d / "summary.json"
    cmd = [sys.executable, str(HOME / "fuzz" / "c38_atheris.py"), str(summary), *sorted(sh.known),
           "--", f"-runs={runs}", "-max_len=2048", "-len_control=0", f"-seed={sh.seed % 2**31}",
           f"-artifact_prefix={d}/", f"-max_total_time={left}"]
    try:
        p = subprocess.run(cmd, capture_output=True, text=True, timeout=left + 120)
        if not summary.exists():
            raise HarnessError(f"atheris driver left no summary (exit {p.returncode}): "
                               f"{(p.stderr or '')[-400:]}")
        data = json.loads(summary.read_text())
        sh.count("atheris_property_executions", data["executions"])
        sh.count("atheris_known_hits", data["known_hits"])
        if data["violation"]:
            sh.run_case(data["violation"]["case"], nontrivial=True, labels=["found_by_atheris"],
                        raise_unattributed=False)
        elif p.returncode != 0:
            raise HarnessError(f"atheris driver exited {p.returncode}: {(p.stderr or '')[-400:]}")
    finally:
        scratchdir.rm(d)
