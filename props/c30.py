"""C30  Workflow construction caching and repeated runs are transparent.

A history (JSON list of <= 6 operations: construct with a lazy-input set / run into a fresh cache
root / clear the construction cache) is interpreted by a plain loop in this process over a pool of
module-level workflow definitions with value-dependent structure (vlib/tasks_wfcache.py).  Every
construct/run observation (graph signature / outputs) is compared with the observation of the SAME
operation in a fresh helper interpreter whose construction cache was cleared immediately before
and which uses a new task object (vlib/wfcacheserver.py): same code, cache state removed.
"""
from __future__ import annotations

import json
import os
import subprocess
import sys

from vlib import scratchdir
from vlib.gen import wfcache as GW
from vlib.harness import HOME, HarnessError, exception_signature, short
from vlib.ref.wfcache import Interp

ID = "C30"
LEVEL = "exploration"
DESIGN_REF = "5/C30"
TECHNIQUE = "operation histories; differential against a cache-free fresh interpreter"
RULE = (
    "cases = histories of 2-6 operations over 1-2 of 5 workflow definitions (chain whose node count "
    "is an int input, branch chosen by a bool input, split(+combine) over a list input with a "
    "value-dependent tail, a workflow nesting the chain, fan-out with optional inner split): "
    "construct(values, lazy subset of the merely-passed-on inputs, via Workflow.construct or "
    "task.construct), run(values[, whole-workflow split(+combine)]) into a fresh cache root with the "
    "debug worker, clear([task]); each on a new task object, on the earlier object holding the same "
    "values, or on the most recent object updated by attribute assignment; values from pools of 2-4 "
    "per input so that exact / superset / memo hits recur. Non-trivial = an operation was answered "
    "from the construction cache (exact key, superset-of-lazy key or per-task memo; detected by "
    "constructor call counters and object identity) after an earlier operation of the history used "
    "the same definition with different values; distinct = history."
)
ASSUMPTIONS = [
    "only inputs that the constructor merely hands on to nodes are made lazy (structural inputs never)",
    "the fresh interpreter runs the same pydra tree: defects that do not depend on cache state are "
    "invisible here (C03 covers them)",
    "debug worker, one process, no concurrency between operations",
    "graph signature = node names/types in order, edges, node splitters/combiners, node inputs after "
    "resolving workflow-input lazy fields through wf.inputs, workflow outputs; a list given eagerly "
    "to split() (StateArray) and the same list arriving through a lazy input count as equal",
]
SHARDS = {"quick": 16, "thorough": 16}
WALL = {"quick": 300, "thorough": 1500}  # soft per-shard deadline; the budgets below need far less


class Server:
    def __init__(self):
        env = dict(os.environ)
        env["VERIF_WFCACHE_SCRATCH"] = str(scratchdir.root())
        self.p = subprocess.Popen([sys.executable, "-m", "vlib.wfcacheserver"], stdin=subprocess.PIPE,
                                  stdout=subprocess.PIPE, text=True, env=env, cwd=str(HOME))
        self.memo = {}

    def fresh(self, op):
        key = json.dumps({k: op.get(k) for k in ("op", "wf", "values", "lazy", "via", "split")},
                         sort_keys=True)
        if key not in self.memo:
            self.p.stdin.write(json.dumps(dict(op=op)) + "\n")
            self.p.stdin.flush()
            line = self.p.stdout.readline()
            if not line:
                raise HarnessError("C30 fresh-construction server died")
            r = json.loads(line)
            if r.get("cache_entries_before", 0) != 0:
                raise HarnessError(f"fresh server did not start from an empty cache: {r}")
            self.memo[key] = r
        return self.memo[key]

    def close(self):
        try:
            self.p.stdin.close()
            self.p.wait(timeout=10)
        except Exception:
            self.p.kill()


_server = None


def server():
    global _server
    if _server is None:
        _server = Server()
        import atexit

        atexit.register(_server.close)
    return _server


def path_of(op, info):
    """which way the operation's (outer) construction was answered"""
    if op["op"] == "clear":
        return "clear"
    if op.get("split"):
        return "split-run"
    if info.get("calls", {}).get(op["wf"], 0) > 0:
        return "constructed"
    if info.get("memo_before") and (op["op"] == "run" or op.get("via") == "task"):
        return "memo-hit"
    return "exact-hit" if info.get("identity_seen") else "superset-hit"


_last = [None, None]


def interpret(history):
    """-> list of (op, observation | ("raised", sig, text), info, path).  Deterministic for a
    history (cache cleared, counters reset, new task objects), so run() and check_case share one
    interpretation of the same history."""
    key = json.dumps(history, sort_keys=True)
    if _last[0] != key:
        _last[0], _last[1] = key, _interpret(history)
    return _last[1]


def _interpret(history):
    from pydra.engine.workflow import Workflow
    from vlib import tasks_wfcache as TW

    Workflow.clear_cache()
    TW.CALLS.clear()
    it = Interp()
    steps = []
    for op in history:
        try:
            obs = it.do(op)
        except Exception as e:  # compared with the fresh interpreter below
            obs = ("raised", exception_signature(e, "raises"), short(e))
        info = dict(it.info)
        steps.append((op, obs, info, path_of(op, info)))
    return steps


def first_diff(a, b, path="$"):
    if type(a) is not type(b):
        return path
    if isinstance(a, dict):
        for k in sorted(set(a) | set(b)):
            if k not in a or k not in b:
                return f"{path}.{k}"
            d = first_diff(a[k], b[k], f"{path}.{k}")
            if d:
                return d
        return None
    if isinstance(a, list):
        if len(a) != len(b):
            return f"{path}.len"
        for i, (x, y) in enumerate(zip(a, b)):
            d = first_diff(x, y, f"{path}[{i}]")
            if d:
                return d
        return None
    return None if a == b else path


def _generic(path):
    import re

    return re.sub(r"\[\d+\]", "[]", path)


def check_case(history):
    sv = server()
    steps = interpret(history)
    recs = []
    earlier_tokens = set()
    for i, (op, obs, info, path) in enumerate(steps):
        if op["op"] == "clear":
            continue
        own = GW.tokens_of(op["values"]) | GW.tokens_of(op.get("split"))
        ref = sv.fresh(op)
        what = "graph" if op["op"] == "construct" else "outputs"
        rec = None
        if isinstance(obs, tuple):
            if "error" not in ref:
                rec = dict(signature=f"{obs[1]}:only-with-cache-history:{path}", observed=obs[2],
                           expected=ref["obs"])
        elif "error" in ref:
            raise HarnessError(f"fresh interpreter raised on {op}: {ref}")
        elif obs != ref["obs"]:
            foreign = sorted((GW.tokens_of(obs) - own) & earlier_tokens)
            where = _generic(first_diff(obs, ref["obs"]) or "$")
            if info.get("instance") in ("mutated", "reused") and info.get("memo_before") \
                    and info.get("memo_values") not in (None, op["values"]) and path == "memo-hit" \
                    and obs == sv.fresh(dict(op, values=info["memo_values"])).get("obs"):
                # defect model: the task object was updated by attribute assignment (in this or
                # in an earlier operation) after its memo was filled, and the observation is
                # exactly the one of the values it held when the memo was filled
                sig = "stale-construction:task-memo-survives-attribute-update"
            elif foreign:
                sig = f"earlier-values-leak-into-{what}:{path}:{where}"
            else:
                sig = f"{what}-differs-from-fresh-construction:{path}:{where}"
            rec = dict(signature=sig, observed=obs, expected=ref["obs"])
        if rec:
            rec["detail"] = json.dumps(dict(
                op_index=i, op=op, cache_path=path, info=info,
                foreign_tokens=sorted((GW.tokens_of(obs) - own) & earlier_tokens)
                if not isinstance(obs, tuple) else None))
            recs.append(rec)
            if not rec["signature"].endswith(":task-memo-survives-attribute-update"):
                break  # later operations run on a state that may already be wrong
        earlier_tokens |= own
    return recs


def classify(history):
    """(nontrivial, labels) from a dry interpretation in this process"""
    steps = interpret(history)
    labels = []
    nontrivial = False
    seen_values = {}
    for op, obs, info, path in steps:
        labels.append("op_" + (op["op"] if not op.get("split") else "run_split"))
        if op["op"] == "clear":
            continue
        labels.append("path_" + path)
        if info.get("instance") in ("reused", "mutated"):
            labels.append("instance_" + info["instance"])
        if op.get("lazy"):
            labels.append("lazy_construct")
        inner = {k: v for k, v in info.get("calls", {}).items() if k != op["wf"]}
        if op["wf"] == "CNested" and op["op"] == "run" and not inner:
            labels.append("nested_inner_cache_hit")
        different_before = any(v != op["values"] for v in seen_values.get(op["wf"], []))
        if path in ("exact-hit", "superset-hit", "memo-hit") and different_before:
            nontrivial = True
            labels.append("hit_after_different_values_" + path)
        seen_values.setdefault(op["wf"], []).append(op["values"])
    return nontrivial, labels


def run(sh):
    def body(history):
        nt, labels = classify(history)
        sh.run_case(history, nontrivial=nt, labels=sorted(set(labels)), raise_unattributed=True)

    sh.given(GW.histories(), body, sh.budget(128, 2500), tag="histories")
    if _server is not None:
        _server.close()
