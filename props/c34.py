"""C34  File inputs are staged into the job directory according to their copy mode.

A case = (level, copy mode, collation, nested value[s] of File/Directory objects and plain leaves).
Levels (where the staged value is observed):
  job    a python task whose field type is derived from the value; a `pre_run_task` hook reads
         `Job.inputs` of the real job (the documented staging mechanism)
  two    the same with two file fields (sources with equal basenames may sit in different fields)
  body   what a python task body receives (it reports a description of its argument)
  shell  what a shell command receives: `ls -1dU <files>` prints the paths it was given
How the occurrences of one source are written down is a case dimension of its own (`occ`, a cycle of
representations applied to the file leaves in traversal order): the one shared File/Directory object,
a fresh but equal object per occurrence (File(p) built again), or the plain path as str / pathlib.Path
that pydra's coercion turns into its own object.  For the property they all are "the same file
appearing several times".

Multi-path file-sets (`["set", members]` leaves = SetOf[File] over 2-3 files that may live in
different directories) make the collation setting observable: every member path has to satisfy
the demands of the copy mode below, and for collation siblings/adjacent the paths of one
file-set must be handed over in ONE directory (adjacent: relocated paths share a name stem) -
also when the mode (`any`) alone would have allowed leaving the scattered originals in place.

Oracle, applied to the staged value next to the files on disk
  * shape, container types, keys and plain leaves unchanged; File stays File, Directory Directory
  * one source -> exactly one staged path (however often the object occurs), different sources ->
    different staged paths, staged content == source content
  * the physical relation staged/original (left in place | symlink | hard link | copy) is one of
    those the requested CopyMode allows, and staged paths of the last three lie in the job dir
  * behaviour: a copy is independent (writing either side leaves the other unchanged), a link shows
    a later in-place write to the original
  * nothing but the staged entries (and pydra's own `_*` files) is in the job directory
"""
from __future__ import annotations

import os
import re
import typing as ty
from pathlib import Path

from hypothesis import strategies as st

from vlib import scratchdir
from vlib.gen import files3 as G
from vlib.harness import exception_signature, short
from vlib.ref import files3 as R

ID = "C34"
LEVEL = "exploration"
DESIGN_REF = "5/C34"
TECHNIQUE = "generated nested file inputs x copy modes; invariants + write-through probes on disk"
RULE = (
    "cases = (observation level job|two|body|shell, CopyMode in {copy, link, hardlink, symlink, any, "
    "leave, link_or_copy, hardlink_or_copy, symlink_or_copy}, collation, nested value of depth <= 2 "
    "over list/tuple/dict with File/Directory leaves from a small pool of sources with colliding "
    "basenames, repeated objects and plain leaves; representation of each file occurrence drawn from "
    "{the shared object, a fresh equal File/Directory object, the path as str, as pathlib.Path}; "
    "hard links possible | simulated other mount; copy_mode/copy_collation written as the name | "
    "the enum member | left out where it is the default `any`). A second run (a fifth of the budget, levels "
    "job|two|body) draws the leaves also from 1-2 multi-path file-sets SetOf[File] of 2-3 member "
    "files (member names: unique "
    "names+extensions | shared stem | equal extensions | equal basenames | multi-dot/no extension; "
    "member directories: all different | partly | one directory), occurring as the shared object or "
    "as a fresh equal one, with collation any|siblings|adjacent and the leave-allowing modes "
    "any/leave drawn as often as the relocating ones. "
    "Non-trivial = (the mode does not allow leaving files in place and the value holds >= 2 file "
    "paths) or a file-set spread over directories has to be collated; distinct = whole case."
)
ASSUMPTIONS = [
    "field types are derived from the value (narrowest annotation); values that pydra's type "
    "coercion rejects or changes are discarded and counted (coercion is C20/C21's subject)",
    "File/Directory leaves are single-path file-sets: there the collation setting must have no "
    "effect. Multi-path file-sets are fileformats.generic.SetOf[File] only (no formats with side-car "
    "files). What the collation demands is taken from the docstrings of fileformats' "
    "FileSet.CopyCollation / FileSet.copy: siblings|adjacent - the paths of one file-set handed to "
    "the job lie in ONE directory (files are only left in place where that already holds); adjacent "
    "- relocated paths share one name stem and differ in the extension only (first-dot or last-dot "
    "extension, both accepted; paths left in place in one directory under different stems are "
    "counted as undefined); any - no demand on the relative placement. A refusal "
    "(UnsatisfiableCopyModeError) is accepted where those docstrings state a precondition: equal "
    "member names (siblings, adjacent), equal member extensions (adjacent), spread paths with a "
    "mode that only allows leaving them; staged names are not compared with the source names",
    "which staged path belongs to which member of a file-set is decided by content (member "
    "contents are pairwise different)",
    "'a file object appearing several times' is read with fileformats' value semantics (FileSet "
    "equality = type + paths): equal File objects and path strings/Paths naming the same source "
    "inside one field are occurrences of the same file object",
    "other-mount behaviour is simulated by patching MountIndentifier.on_same_mount (debug worker)",
    "level shell uses sources with space-free, pairwise different basenames (clash renaming creates "
    "names with spaces, which the shell argv construction splits: C23/C24 territory)",
]
MODES = ["copy", "link", "hardlink", "symlink", "any", "leave", "link_or_copy", "hardlink_or_copy",
         "symlink_or_copy"]
BITS = dict(leave=1, hardlink=2, symlink=4, copy=8)


OCC = ["shared", "equal", "str", "path"]     # representation of one file-leaf occurrence


def build_value(spec, srcroot, objects, nonce, occ=(0,), counter=None):
    """G.build with the representation of the n-th file-leaf occurrence (traversal order) taken
    from the cycle `occ`: 0 the shared object of that source, 1 a fresh equal object, 2 the path
    as str, 3 as pathlib.Path"""
    counter = [0] if counter is None else counter
    t = spec[0]
    if t in ("file", "dir"):
        obj = G.build(spec, srcroot, objects, nonce)       # creates the source on first use
        how = OCC[occ[counter[0] % len(occ)] % len(OCC)]
        counter[0] += 1
        if how == "shared":
            return obj
        if how == "equal":
            return type(obj)(G.source_path(srcroot, spec))
        return str(G.source_path(srcroot, spec)) if how == "str" else Path(G.source_path(srcroot, spec))
    if t == "set":
        # a multi-path file-set occurrence: the shared SetOf[File] object | a fresh equal one
        obj = G.build(spec, srcroot, objects, nonce)
        how = OCC[occ[counter[0] % len(occ)] % len(OCC)]
        counter[0] += 1
        return obj if how == "shared" else type(obj)(sorted(obj.fspaths))
    if t == "list":
        return [build_value(x, srcroot, objects, nonce, occ, counter) for x in spec[1]]
    if t == "tuple":
        return tuple(build_value(x, srcroot, objects, nonce, occ, counter) for x in spec[1])
    if t == "dict":
        return {k: build_value(x, srcroot, objects, nonce, occ, counter) for k, x in spec[1]}
    return G.build(spec, srcroot, objects, nonce)


def mode_value(name):
    from fileformats.generic import File

    return File.CopyMode[name].value


GIVEN = ["str", "enum", "default"]


def staging_kwargs(case):
    """copy_mode / copy_collation arguments of the field as the case writes them down (`given`):
    the name as str | the enum member | left out where the value is the default (`any`; otherwise
    the enum member)"""
    from fileformats.generic import File

    how = case.get("given", "str")
    mode, coll = case["mode"], case.get("collation", "any")
    if how == "str":
        return dict(copy_mode=mode, copy_collation=coll)
    kw = {}
    if not (how == "default" and mode == "any"):
        kw["copy_mode"] = File.CopyMode[mode]
    if not (how == "default" and coll == "any"):
        kw["copy_collation"] = File.CopyCollation[coll]
    return kw


def describe_body(x):
    from vlib.gen.files3 import describe

    return describe(x)


def describe_body2(x, y):
    from vlib.gen.files3 import describe

    return [describe(x), describe(y)]


def _write_inplace(path, text):
    with open(path, "r+") as f:
        f.seek(0)
        f.write(text)
        f.truncate()


def physical(staged: Path, source: Path, kind: str):
    if staged == source:
        return "leave"
    if not os.path.lexists(staged):
        return "missing"
    if os.path.islink(staged):
        return "symlink" if os.path.realpath(staged) == os.path.realpath(source) else "symlink-elsewhere"
    try:
        a, b = os.stat(G.inner(staged, kind)), os.stat(G.inner(source, kind))
    except OSError:
        return "missing"
    return "hardlink" if (a.st_ino, a.st_dev) == (b.st_ino, b.st_dev) else "copy"


def judge_set(case, leaf, paths, srcroot, nonce, where, recs, notes):
    """One staged multi-path file-set (SetOf[File]): which staged path holds which member is
    decided by the (pairwise different) member contents; then the collation demands.
    -> [(set key, member leaf, staged path)] for the path-by-path checks of the copy mode."""
    members = leaf[1]
    coll = case.get("collation", "any")
    sk = G.source_key(leaf)
    if len(paths) != len(members) or len(set(paths)) != len(paths):
        recs.append(dict(signature="staged-fileset-paths-changed", observed=paths,
                         expected=f"{len(members)} different paths", detail=where))
        return []
    by_content = {G.source_content(m, nonce): m for m in members}
    assigned, used = [], set()
    for p in paths:
        try:
            m = by_content.get(Path(p).read_text())
        except OSError as e:
            recs.append(dict(signature="staged-file-unreadable", observed=short(e),
                             expected="readable", detail=dict(where, staged=p)))
            return []
        if m is None or G.source_key(m) in used:
            recs.append(dict(signature="staged-content-differs:file-set-member", observed=p,
                             expected="each member's content at exactly one staged path",
                             detail=where))
            return []
        used.add(G.source_key(m))
        assigned.append((sk, m, p))
    if len(members) < 2:
        return assigned
    # collation (fileformats, FileSet.CopyCollation / FileSet.copy): `siblings` - the paths handed
    # over are siblings (files may only be left where they are if that satisfies the collation);
    # `adjacent` - relocated paths additionally share one name stem and differ in the extension
    # only; `any` - no demand
    if coll in ("siblings", "adjacent"):
        if len({str(Path(p).parent) for p in paths}) > 1:
            recs.append(dict(signature=f"fileset-paths-not-collated:{coll}:not-siblings",
                             observed=paths, expected="all paths of the file-set in one directory",
                             detail=where))
        elif coll == "adjacent":
            moved = [p for _, m, p in assigned if Path(p) != G.source_path(srcroot, m)]
            if moved and not R.share_a_stem([Path(p).name for p in moved]):
                recs.append(dict(signature="fileset-paths-not-collated:adjacent:different-stems",
                                 observed=moved, expected="one name stem, different extensions",
                                 detail=where))
            elif not moved and not R.share_a_stem([Path(p).name for p in paths]):
                # left in place in one directory under different stems: CopyCollation.adjacent
                # only speaks about "copied paths"
                notes.add("undefined_by_statement:adjacent_left_in_place_with_different_stems")
    return assigned


def judge(case, specs, descs, jobdir, srcroot, nonce, check_extras=True, notes=None):
    """violation records for the staged value(s) `descs` of the fields with value specs `specs`"""
    recs = []
    mode = case["mode"]
    allowed = mode_value(mode)
    if case.get("mount") == "other":
        allowed &= ~BITS["hardlink"]
    classes = []
    staged_top = set()
    all_staged: dict[str, set] = {}
    probes: dict = {}
    set_members: list = []
    notes = set() if notes is None else notes
    for fi, (spec, desc) in enumerate(zip(specs, descs)):
        problems, pairs = G.match(spec, desc)
        for kind, pos, detail in problems:
            recs.append(dict(signature=f"staged-{kind}", observed=detail,
                             expected=G.describe_spec(spec, srcroot),
                             detail=dict(field=fi, position=list(pos))))
        by_source: dict[str, set] = {}
        leaf_of = {}
        by_set: dict[str, set] = {}
        for pos, leaf, cls, paths in pairs:
            want = {"file": "File", "dir": "Directory", "set": G.SETOF_FILE_NAME}[leaf[0]]
            where = dict(field=fi, position=list(pos), source=G.source_key(leaf))
            if cls != want:
                recs.append(dict(signature="staged-file-class-changed", observed=cls, expected=want,
                                 detail=where))
                continue
            if leaf[0] == "set":
                if tuple(paths) not in by_set.setdefault(G.source_key(leaf), set()):
                    by_set[G.source_key(leaf)].add(tuple(paths))
                    set_members += judge_set(case, leaf, paths, srcroot, nonce, where, recs, notes)
                continue
            if len(paths) != 1:
                recs.append(dict(signature="staged-fileset-paths-changed", observed=paths,
                                 expected="one path", detail=where))
                continue
            by_source.setdefault(G.source_key(leaf), set()).add(paths[0])
            leaf_of[G.source_key(leaf)] = leaf
        for k, ps in sorted(by_source.items()):
            if len(ps) > 1:
                recs.append(dict(signature="one-object-staged-at-several-paths", observed=sorted(ps),
                                 expected="one staged path per file object", detail=k))
        for k, pss in sorted(by_set.items()):
            if len(pss) > 1:
                recs.append(dict(signature="one-object-staged-at-several-paths:file-set",
                                 observed=sorted(map(list, pss)),
                                 expected="one staged set of paths per file-set object", detail=k))
        inv: dict[str, set] = {}
        for k, ps in by_source.items():
            for p in ps:
                inv.setdefault(p, set()).add(k)
                all_staged.setdefault(p, set()).add(k)
        for p, ks in sorted(inv.items()):
            if len(ks) > 1:
                recs.append(dict(signature="distinct-sources-share-staged-path", observed=p,
                                 expected="one staged path per source", detail=sorted(ks)))
        todo = [(k, leaf_of[k], Path(sorted(ps)[0]), None) for k, ps in sorted(by_source.items())]
        # the members of the multi-path file-sets: the same demands path by path (a source that
        # is a member of two different file-set objects is legitimately staged once per object)
        todo += [(G.source_key(m), m, Path(sp), sk) for sk, m, sp in set_members]
        set_members = []
        for k, leaf, staged, of_set in todo:
            src = G.source_path(srcroot, leaf)
            cl = physical(staged, src, leaf[0])
            classes.append(cl)
            where = dict(field=fi, source=k, staged=str(staged), physical=cl)
            if of_set:
                where["member_of"] = of_set
                all_staged.setdefault(str(staged), set()).add(k)
            if cl in ("missing", "symlink-elsewhere"):
                recs.append(dict(signature=f"staged-path-{cl}", observed=str(staged),
                                 expected="an existing staged file", detail=where))
                continue
            if not (BITS[cl] & allowed):
                recs.append(dict(signature=f"staged-as-{cl}-not-allowed-by-mode", observed=cl,
                                 expected=f"one of the methods in CopyMode.{mode}", detail=where))
                continue
            if cl != "leave":
                if not staged.is_relative_to(jobdir):
                    recs.append(dict(signature="staged-outside-job-dir", observed=str(staged),
                                     expected=f"inside {jobdir.name}", detail=where))
                    continue
                staged_top.add(staged.relative_to(jobdir).parts[0])
            try:
                content = G.read_source(staged, leaf[0])
            except OSError as e:
                recs.append(dict(signature="staged-file-unreadable", observed=short(e),
                                 expected="readable", detail=where))
                continue
            if content != G.source_content(leaf, nonce):
                recs.append(dict(signature="staged-content-differs", observed=content,
                                 expected=G.source_content(leaf, nonce), detail=where))
                continue
            probes.setdefault(k, (leaf, src, []))[2].append((staged, cl, where))
    # behaviour, once per source over all its staged paths (the probes overwrite the files):
    # a copy is independent of the original in both directions, a link shows a later in-place
    # write to the original
    for k, (leaf, src, staged_list) in sorted(probes.items()):
        o_in = G.inner(src, leaf[0])
        original = G.source_content(leaf, nonce)
        copies = [(G.inner(sp, leaf[0]), w) for sp, cl, w in staged_list if cl == "copy"]
        links = [(G.inner(sp, leaf[0]), cl, w) for sp, cl, w in staged_list if cl in ("symlink", "hardlink")]
        for n, (s_in, where) in enumerate(copies):
            _write_inplace(s_in, f"WRITTEN-TO-STAGED-{n}")
            if o_in.read_text() != original:
                recs.append(dict(signature="copy-not-independent:write-to-staged-changed-original",
                                 observed=o_in.read_text(), expected=original, detail=where))
                original = o_in.read_text()
        if copies or links:
            _write_inplace(o_in, "WRITTEN-TO-ORIGINAL")
        for n, (s_in, where) in enumerate(copies):
            if s_in.read_text() != f"WRITTEN-TO-STAGED-{n}":
                recs.append(dict(signature="copy-not-independent:write-to-original-changed-staged",
                                 observed=s_in.read_text(), expected=f"WRITTEN-TO-STAGED-{n}",
                                 detail=where))
        for s_in, cl, where in links:
            if s_in.read_text() != "WRITTEN-TO-ORIGINAL":
                recs.append(dict(signature=f"link-does-not-show-original:{cl}",
                                 observed=s_in.read_text(), expected="WRITTEN-TO-ORIGINAL",
                                 detail=where))
    for p, ks in sorted(all_staged.items()):
        if len(ks) > 1 and not any(r["signature"] == "distinct-sources-share-staged-path" for r in recs):
            if not all(c == "leave" for c in classes):
                recs.append(dict(signature="distinct-sources-share-staged-path:across-fields",
                                 observed=p, expected="one staged path per source", detail=sorted(ks)))
    if check_extras and jobdir is not None and jobdir.exists():
        extras = {p.name for p in jobdir.iterdir() if not p.name.startswith("_")}
        if extras != staged_top:
            recs.append(dict(signature="job-dir-entries-differ-from-staged-set",
                             observed=sorted(extras), expected=sorted(staged_top)))
    # defect model: a python body that is handed the untouched originals although the mode
    # does not allow leaving files in place
    if (case["level"] == "body" and classes and all(c == "leave" for c in classes)
            and not (allowed & BITS["leave"])
            and recs and all(r["signature"] == "staged-as-leave-not-allowed-by-mode" for r in recs)
            and descs == [G.describe_spec(s, srcroot) for s in specs]):
        return [dict(signature="python-task-body-receives-unstaged-originals",
                     observed=descs, expected=f"inputs staged with CopyMode.{mode}",
                     detail="the function is called with the task's own attribute values")]
    seen, uniq = set(), []
    for r in recs:
        if r["signature"] not in seen:
            seen.add(r["signature"])
            uniq.append(r)
    return uniq


def _strip_counter(name):
    return re.sub(r" \(\d+\)(?=(\.[^.]*)?$)", "", name)


def replay(case):
    from fileformats.core.exceptions import UnsatisfiableCopyModeError
    from fileformats.generic import File
    from pydra.compose import python, shell
    from pydra.engine.hooks import TaskHooks
    from pydra.engine.submitter import Submitter

    info = dict(labels=set(), discarded=None)
    root = scratchdir.new("c34")
    patched = None
    cwd0 = os.getcwd()      # a failing job may leave the process inside its (soon deleted) job dir
    try:
        level, mode, coll = case["level"], case["mode"], case.get("collation", "any")
        specs = case["values"]
        nonce = "@" + root.name
        srcroot = root / "in"
        objects: dict = {}
        occ, counter = list(case.get("occ") or [0]), [0]
        values = [build_value(s, srcroot, objects, nonce, occ, counter) for s in specs]
        cache = root / "cache"
        names = ["x", "y"][: len(specs)]
        cap: dict = {}
        allowed = mode_value(mode) & (~BITS["hardlink"] if case.get("mount") == "other" else 15)
        has_files = any(R.file_leaves(s) or R.set_leaves(s) for s in specs)
        # a refusal that fileformats documents for the collation of one of the file-sets
        unsat = sorted({r for s in specs for _, leaf in R.set_leaves(s)
                        for r in [R.collation_unsatisfiable(leaf, coll, allowed)] if r})

        def hook(job, *a, **k):
            cap["dir"] = job.cache_dir
            cap["inputs"] = [G.describe(job.inputs[n]) for n in names]

        try:
            if level == "shell":
                Tk = shell.define("ls", inputs={
                    "flags": shell.arg(type=str, argstr="", position=1, default="-1dU"),
                    "x": shell.arg(type=list[File], argstr="", position=2, **staging_kwargs(case))})
            else:
                fn = describe_body if len(specs) == 1 else describe_body2
                Tk = python.define(
                    fn,
                    inputs={n: python.arg(type=G.type_of(s), **staging_kwargs(case))
                            for n, s in zip(names, specs)},
                    outputs={"out": python.out(type=ty.Any)})
            task = Tk(**dict(zip(names, values)))
        except Exception as e:  # noqa - defining the task / coercing the value is C20/C21's subject
            info["discarded"] = "rejected_by_definition_or_coercion:" + type(e).__name__
            return [], info
        if [G.describe(getattr(task, n)) for n in names] != [G.describe_spec(s, srcroot) for s in specs]:
            info["discarded"] = "coercion_changed_value"
            return [], info
        if case.get("mount") == "other":
            import pydra.utils.typing as PT

            patched = PT.MountIndentifier.on_same_mount
            PT.MountIndentifier.on_same_mount = classmethod(lambda cls, a, b: False)
        try:
            with Submitter(cache_root=cache, worker="debug") as sub:
                res = sub(task, hooks=TaskHooks(pre_run_task=hook) if level in ("job", "two") else None)
            if res.errored:
                raise RuntimeError(f"job errored: {res.errors}")
            out = res.outputs
        except UnsatisfiableCopyModeError as e:
            if not allowed and has_files:
                info["labels"].add("rejected_unsatisfiable_mode_on_other_mount")
                return [], info
            if unsat:
                info["labels"].add("rejected_unsatisfiable_collation:" + unsat[0])
                return [], info
            return [dict(signature=exception_signature(e, "staging-raises"), observed=short(e),
                         expected="staged inputs")], info
        except Exception as e:  # noqa
            inner = e
            while inner.__cause__ is not None or (inner.__context__ is not None
                                                  and not inner.__suppress_context__):
                inner = inner.__cause__ or inner.__context__
            for ex in (e, inner):
                if isinstance(ex, UnsatisfiableCopyModeError) and not allowed and has_files:
                    info["labels"].add("rejected_unsatisfiable_mode_on_other_mount")
                    return [], info
                if isinstance(ex, UnsatisfiableCopyModeError) and unsat:
                    info["labels"].add("rejected_unsatisfiable_collation:" + unsat[0])
                    return [], info
            msg = f"{e} {inner}"
            m = re.search(r"Destination path '([^']*)' exists", msg)
            if level == "two" and ("FileExistsError" in (type(e).__name__, type(inner).__name__)
                                   or "FileExistsError" in msg) and m:
                base = _strip_counter(Path(m.group(1)).name)
                nx = {_strip_counter(leaf[2]) for _, leaf in R.file_leaves(specs[0])}
                ny = {_strip_counter(leaf[2]) for _, leaf in R.file_leaves(specs[1])}
                if base in nx and base in ny and not (allowed & BITS["leave"]):
                    return [dict(signature="staging-clash-across-fields:FileExistsError",
                                 observed=short(e), expected="both fields staged",
                                 detail=dict(destination=m.group(1)))], info
            return [dict(signature=exception_signature(e, f"staging-raises:{level}"),
                         observed=short(e), expected="staged inputs")], info
        finally:
            if patched is not None:
                PT.MountIndentifier.on_same_mount = patched
                patched = None
        jobdirs = sorted(p for p in cache.iterdir() if p.is_dir() and not p.name.endswith(".lock"))
        jobdir = cap.get("dir") or (jobdirs[0] if len(jobdirs) == 1 else None)
        if level in ("job", "two"):
            if "inputs" not in cap:
                return [dict(signature="harness:pre_run_task-hook-not-called", observed=None,
                             expected="hook call")], info
            descs = cap["inputs"]
        elif level == "body":
            descs = [out.out] if len(specs) == 1 else list(out.out)
        else:
            lines = [ln for ln in out.stdout.split("\n") if ln]
            descs = [["list", [["fs", "File", [ln]] for ln in lines]]]
        recs = judge(case, specs, descs, jobdir, srcroot, nonce, check_extras=(level != "shell"),
                     notes=info["labels"])
        return recs, info
    finally:
        if patched is not None:
            import pydra.utils.typing as PT

            PT.MountIndentifier.on_same_mount = patched
        os.chdir(cwd0)
        scratchdir.rm(root)


def check_case(case):
    return replay(case)[0]


def classify(case):
    leaves = [leaf for s in case["values"] for _, leaf in R.file_leaves(s)]
    keys = [G.source_key(x) for x in leaves]
    by_name: dict = {}
    for x in leaves:
        by_name.setdefault(x[2], set()).add(G.source_key(x))
    labels = [f"level_{case['level']}", f"mode_{case['mode']}", f"collation_{case.get('collation', 'any')}",
              f"mount_{case.get('mount', 'same')}", f"depth_{max(R.depth(s) for s in case['values'])}"]
    given = case.get("given", "str")
    if given == "default":
        given = {0: "enum", 1: "one_left_to_default", 2: "both_left_to_default"}[
            (case["mode"] == "any") + (case.get("collation", "any") == "any")]
    labels.append(f"mode_and_collation_given_as_{given}")
    if any(len(v) > 1 for v in by_name.values()):
        labels.append("basename_clash_between_sources")
    if len(keys) != len(set(keys)):
        labels.append("repeated_object")
    occ = list(case.get("occ") or [0])
    hows = [OCC[occ[i % len(occ)] % len(OCC)] for i in range(len(keys))]
    for h in sorted(set(hows)):
        labels.append(f"occurrence_as_{h}")
    reps: dict = {}
    for k, h in zip(keys, hows):
        reps.setdefault(k, []).append(h)
    if any(len(v) > 1 and any(h != "shared" for h in v) for v in reps.values()):
        labels.append("repeated_source_through_distinct_objects")
    if any(x[0] == "dir" for x in leaves):
        labels.append("has_directory")
    if not leaves:
        labels.append("no_files")
    if any(leaf[0] not in ("file", "dir", "set") for s in case["values"] for _, leaf in R.leaves(s)):
        labels.append("has_plain_leaves")
    must_stage = not (mode_value(case["mode"]) & BITS["leave"])
    # multi-path file-sets: where the collation setting means something
    sets = [leaf for s in case["values"] for _, leaf in R.set_leaves(s)]
    multi = [x for x in sets if len(x[1]) >= 2]
    coll = case.get("collation", "any")
    must_collate = False
    if sets:
        labels.append("has_fileset")
        if len(multi) < len(sets):
            labels.append("fileset_single_path")
        skeys = [G.source_key(x) for x in sets]
        if len(skeys) != len(set(skeys)):
            labels.append("fileset_repeated")
    if multi:
        labels.append(f"fileset_multi_path_collation_{coll}")
        labels.append("fileset_spread_over_directories" if any(R.set_scattered(x) for x in multi)
                      else "fileset_in_one_directory")
        allowed = mode_value(case["mode"]) & (~BITS["hardlink"] if case.get("mount") == "other" else 15)
        for x in multi:
            if (coll != "any" and R.set_scattered(x)
                    and not R.collation_unsatisfiable(x, coll, allowed)):
                must_collate = True
                # the mode alone would allow leaving the files, the collation does not
                if allowed & BITS["leave"] and "fileset_must_be_relocated_for_collation_only" not in labels:
                    labels.append("fileset_must_be_relocated_for_collation_only")
        if must_collate:
            labels.append("fileset_must_be_collated")
    return (must_stage and len(leaves) + sum(len(x[1]) for x in sets) >= 2) or must_collate, labels


@st.composite
def cases(draw, with_sets=False):
    """with_sets: the leaves also include multi-path file-sets (SetOf[File]); there the collation
    is drawn non-trivial more often and the modes that allow leaving files in place (where only
    the collation forces a relocation) are as frequent as the others together"""
    level = draw(st.sampled_from(["job"] * 6 + ["two"] * 2 + ["body"] + ([] if with_sets else ["shell"])))
    mode = draw(st.sampled_from(["copy"] * 3 + ["link"] * 3 + ["hardlink"] * 2 + ["any"] + MODES))
    coll = draw(st.sampled_from(["any", "any", "siblings", "adjacent"]))
    mount = "same"
    if level == "shell":
        # pairwise different, space-free basenames: one fixed directory per basename
        pool = [["file", i % 3, b, f"content of src{i % 3}/{b}"]
                for i, b in enumerate(["a.txt", "b.txt", "data.nii.gz", "x"])]
        n = [3, 2, 4, 1][draw(st.integers(0, 3))]
        values = [["list", [pool[draw(st.integers(0, len(pool) - 1))] for _ in range(n)]]]
    else:
        if with_sets:
            mode = draw(st.sampled_from(["any"] * 4 + ["leave"] + MODES))
            coll = draw(st.sampled_from(["siblings", "adjacent", "any", "siblings", "adjacent"]))
        values = draw(G.nested_values(2 if level == "two" else 1, with_sets=with_sets))
        mount = draw(st.sampled_from(["same", "same", "same", "other"]))
    # representation of the file occurrences: half of the cases the shared objects only, else a
    # cycle of 1-4 representations
    occ = [0]
    if draw(st.integers(0, 1)) == 1:
        occ = draw(st.lists(st.sampled_from([0, 1, 1, 2, 2, 3]), min_size=1, max_size=4))
    given = draw(st.sampled_from(GIVEN))
    return dict(level=level, mode=mode, collation=coll, values=values, mount=mount, occ=occ,
                given=given)


def run(sh):
    def body(case):
        recs, info = replay(case)
        nt, labels = classify(case)
        labels = labels + sorted(info["labels"])
        if info["discarded"]:
            sh.count("discarded_" + info["discarded"])
            nt = False
        sh.record_case(case, nontrivial=nt, labels=labels)
        sh.handle(case, recs, raise_unattributed=True)

    sh.given(cases(), body, sh.budget(288, 7000), tag="stage")
    sh.given(cases(with_sets=True), body, sh.budget(80, 2000), tag="sets")
