"""C04  Splitting nested containers visits every inner element.

Case: nested list of uniform depth D<=3 (inner lengths 0..3, regular or ragged), container_ndim
n in 1..D, split alone or as one operand of a 2-field outer/inner splitter.
Oracle: jobs = elements found at depth n, depth-first (independent flattener below).
"""
from __future__ import annotations

import itertools

from hypothesis import strategies as st

from vlib import scratchdir
from vlib.harness import exception_signature, short

ID = "C04"
LEVEL = "exploration"
DESIGN_REF = "5/C04"
RULE = (
    "cases = (nested list of uniform depth D<=3 with inner lengths 0..3, container_ndim n<=D, "
    "context: alone | outer/inner with a second plain field on either side); L1 (State."
    "prepare_states) enumerates every nesting of depth<=2 (and depth 3 in thorough) for every n, "
    "depth-3 values and contexts are Hypothesis-sampled in quick; L2 runs sampled cases end to end. "
    "Non-trivial = ragged nesting or n>=2; distinct = (level, value, n, context)."
)
ASSUMPTIONS = [
    "mixed-depth values (a leaf above depth n) are outside the statement and not generated",
    "L1 reads State.states_val (internal); skipped with a note if absent",
    "inner context is generated only when the element count equals the other field's length",
]
EXHAUSTIVE_WHEN_COMPLETED = True
EXHAUSTIVE_NOTE = "L1, value alone: all nestings of depth<=2 (quick) / depth<=3 (thorough) x every n"


def at_depth(v, n):
    """elements found at depth n, depth first"""
    if n == 0:
        return [v]
    out = []
    for x in v:
        out.extend(at_depth(x, n - 1))
    return out


def depth_of(v):
    d = 0
    while isinstance(v, list):
        d += 1
        if not v:
            # depth of an empty list is recorded by the generator; callers pass it explicitly
            break
        v = v[0]
    return d


def is_ragged(v):
    def shape(x):
        if not isinstance(x, list):
            return ()
        subs = [shape(i) for i in x]
        if any(s is None for s in subs) or len(set(subs)) > 1:
            return None
        return (len(x),) + (subs[0] if subs else ())

    return shape(v) is None


def label(v):
    """give every atom a distinct tag so that dropped/duplicated elements are visible"""
    c = itertools.count()

    def go(x):
        if isinstance(x, list):
            return [go(i) for i in x]
        return f"x{next(c)}"

    return go(v)


def shapes(depth):
    """all nestings of uniform depth with inner lengths 0..3 (atoms = 0)"""
    if depth == 0:
        yield 0
        return
    subs = list(shapes(depth - 1))
    for k in range(0, 4):
        for combo in itertools.product(subs, repeat=k):
            yield list(combo)


def expected_rows(case):
    v, n, ctx = case["value"], case["ndim"], case.get("ctx")
    elems = at_depth(v, n)
    if not ctx:
        return [dict(a=e) for e in elems]
    other = [f"b{i}" for i in range(ctx["other_len"])]
    if ctx["op"] == "O":
        if ctx["side"] == "L":  # a is the left operand
            return [dict(a=e, b=o) for e in elems for o in other]
        return [dict(a=e, b=o) for o in other for e in elems]
    return [dict(a=e, b=o) for e, o in zip(elems, other)]


def splitter_of(case, prefix=""):
    ctx = case.get("ctx")
    a, b = f"{prefix}a", f"{prefix}b"
    if not ctx:
        return a
    pair = [a, b] if ctx["side"] == "L" else [b, a]
    return pair if ctx["op"] == "O" else tuple(pair)


def observe(case):
    v, n, ctx = case["value"], case["ndim"], case.get("ctx")
    if case["level"] == "L1":
        from pydra.engine.state import State

        s = State("N", splitter=splitter_of(case, "N."), container_ndim={"N.a": n})
        inputs = {"N.a": v}
        if ctx:
            inputs["N.b"] = [f"b{i}" for i in range(ctx["other_len"])]
        s.prepare_states(inputs)
        return [{k.split(".", 1)[1]: x for k, x in row.items()} for row in s.states_val]
    from vlib.tasks import Tag

    d = scratchdir.new("c04")
    try:
        kw = dict(a=v)
        if ctx:
            kw["b"] = [f"b{i}" for i in range(ctx["other_len"])]
        outs = Tag().split(splitter_of(case), container_ndim={"a": n}, **kw)(
            cache_root=d, worker="debug")
        rows = []
        for o in outs.out:
            r = dict(a=_plain(o[0]))
            if ctx:
                r["b"] = o[1]
            rows.append(r)
        return rows
    finally:
        scratchdir.rm(d)


def _plain(x):
    if isinstance(x, (list, tuple)):
        return [_plain(i) for i in x]
    return x


def undefined_inner(case):
    """inner product of a regular multi-dimensional nesting with a flat list: the element counts
    agree but the shapes do not; the statements leave rejection vs pairing open."""
    ctx = case.get("ctx")
    return bool(ctx and ctx["op"] == "I" and case["ndim"] >= 2 and not is_ragged_to(case["value"], case["ndim"]))


def is_ragged_to(v, n):
    """ragged when looking only at the first n levels"""
    def shape(x, d):
        if d == 0:
            return ()
        subs = [shape(i, d - 1) for i in x]
        if any(s is None for s in subs) or len(set(subs)) > 1:
            return None
        return (len(x),) + (subs[0] if subs else ())

    return shape(v, n) is None


def check_case(case):
    exp = expected_rows(case)
    lvl = case["level"].lower()
    try:
        got = observe(case)
    except Exception as e:  # noqa
        if undefined_inner(case):
            return []  # equal element count, different shape: rejection is allowed (see C01)
        return [dict(signature=exception_signature(e, f"{lvl}-valid-nested-split-raises"),
                     observed=short(e), expected=exp[:8])]
    if got != exp:
        ga, ea = sorted(repr(r) for r in got), sorted(repr(r) for r in exp)
        ragged = "ragged" if is_ragged_to(case["value"], case["ndim"]) else "regular"
        if ga == ea:
            sig = f"{lvl}-{ragged}-order"
        elif len(got) < len(exp):
            sig = f"{lvl}-{ragged}-dropped"
        elif len(got) > len(exp):
            sig = f"{lvl}-{ragged}-extra"
        else:
            sig = f"{lvl}-{ragged}-wrong-elements"
        if case.get("ctx"):
            sig += "-in-" + case["ctx"]["op"]
        return [dict(signature=sig, observed=got[:10], expected=exp[:10],
                     detail=f"{len(got)} jobs, expected {len(exp)}")]
    return []


@st.composite
def nested(draw, depth):
    if depth == 0:
        return 0
    k = draw(st.integers(0, 3))
    if depth > 1 and draw(st.integers(0, 2)) == 0 and k:
        # regular: repeat one sub-shape
        sub = draw(nested(depth - 1))
        return [sub for _ in range(k)]
    return [draw(nested(depth - 1)) for _ in range(k)]


@st.composite
def sampled(draw, level, depths=(1, 2, 3)):
    D = draw(st.sampled_from(depths))
    v = label(draw(nested(D)))
    n = draw(st.integers(1, D))
    case = dict(level=level, value=v, ndim=n, depth=D)
    if draw(st.booleans()):
        op = draw(st.sampled_from("OI"))
        cnt = len(at_depth(v, n))
        other_len = cnt if op == "I" else draw(st.integers(0, 3))
        case["ctx"] = dict(op=op, side=draw(st.sampled_from("LR")), other_len=other_len)
    return case


def nontrivial(case):
    return case["ndim"] >= 2 or is_ragged(case["value"])


def labels_of(case):
    out = ["ctx_" + case["ctx"]["op"] if case.get("ctx") else "alone"]
    out.append("ragged_at_ndim" if is_ragged_to(case["value"], case["ndim"]) else "regular_at_ndim")
    if undefined_inner(case):
        out.append("inner_shape_undefined_by_statement")
    return out


def run(sh):
    try:
        from pydra.engine.state import State

        l1_ok = hasattr(State, "prepare_states")
    except Exception:
        l1_ok = False
    if l1_ok:
        completed = True
        i = 0
        for D in ((1, 2) if sh.quick else (1, 2, 3)):
            for shp in shapes(D):
                for n in range(1, D + 1):
                    i += 1
                    if i % sh.n != sh.index:
                        continue
                    if i % 500 == 0 and sh.out_of_time():
                        completed = False
                        break
                    case = dict(level="L1", value=label(shp), ndim=n, depth=D)
                    sh.run_case(case, nontrivial=nontrivial(case), labels=("l1_enum",))
        if completed:
            sh.count("exhaustive_subspaces_completed")

        def body1(case):
            sh.run_case(case, nontrivial=nontrivial(case),
                        labels=["l1_sampled"] + labels_of(case),
                        raise_unattributed=True)

        sh.given(sampled("L1"), body1, sh.budget(4000, 40000), tag="l1s")
    else:
        sh.note("L1 unavailable")

    def body2(case):
        sh.run_case(case, nontrivial=nontrivial(case),
                    labels=["l2"] + labels_of(case), raise_unattributed=True)

    sh.given(sampled("L2"), body2, sh.budget(240, 3000), tag="l2")
