"""C09  File hashes always reflect current file content (never a stale persistent-cache value).

A case is a short history of file operations over four files (colliding basenames in two
directories), one directory (which, per case, also holds a symbolic link to a file outside it and/or
one to a sibling file) and one symbolic link to a file, interleaved with hash computations made in this process (fresh
PersistentCache on the shared location via argument / via PYDRA_HASH_CACHE, one long-lived
PersistentCache object, a task checksum) and in a child process.  `replay` interprets the op list
with a plain loop next to an in-memory content model.

Oracle after every hash op
  (1) differential: hash with the shared persistent cache == hash of the same object with an
      EMPTY persistent cache directory (same code, cache state removed);
  (2) content function: the fresh hash is equal/unequal to the earlier fresh hashes of the same
      target exactly as the model contents are equal/unequal.
A deviation in (1) is classified with a defect model ("the hash stored first under the key
(kind, path, mtime_ns) is served for ever"): if the observed value is what that model predicts the
signature names that root cause, otherwise it stays 'unexplained'.
"""
from __future__ import annotations

import os
import shutil
from pathlib import Path

from hypothesis import strategies as st

from vlib import scratchdir
from vlib.gen import files3 as G
from vlib.harness import exception_signature, short
from vlib.inject import files3 as I
from vlib.ref import files3 as R

ID = "C09"
LEVEL = "exploration"
DESIGN_REF = "5/C09"
TECHNIQUE = "operation histories vs content model; differential against an empty persistent cache"
RULE = (
    "cases = histories (<=12 ops quick, <=30 thorough) over 4 files (same basenames in two "
    "directories), 1 directory and 1 symlink to a file; drawn per case: whether the directory has an "
    "entry that is a symlink to a file OUTSIDE it and/or one to a sibling file (so its content also "
    "changes through writes that touch nothing below it). Ops: write same-size/different-size content, os.utime to an mtime_ns "
    "at which the target was hashed before or to a constant, os.replace over, shutil.copy2 over, and "
    "hash ops (fresh PersistentCache by argument / by PYDRA_HASH_CACHE, one long-lived "
    "PersistentCache object, a task checksum, a child process), all sharing one cache location. "
    "Non-trivial = the history contains a hash taken after a content change while (kind, path, "
    "mtime_ns) equals that of an earlier hash of the same target; distinct = op list."
)
ASSUMPTIONS = [
    "files are small (one chunk); content pool of 6 strings (3 of equal size)",
    "hash of a Directory is expected to depend on the names and contents of the files below it; a "
    "symbolic link below it counts with the content of the file it points to (that is what "
    "fileformats hashes), a dangling one as an entry without content",
    "the defect model (hash stored once per (kind, path, mtime_ns)) only names the root cause of a "
    "deviation; the deviation itself is decided by the differential and the content model",
    "timestamps come from the real file system (tmpfs under /dev/shm); natural mtime collisions "
    "within the clock granularity are possible and handled by the same oracle",
]
SHARDS = {"quick": 16, "thorough": 16}


def _kind(t):
    return "Directory" if t in R.DIRS else "Symlink" if t in R.LINKS else "File"


def replay(case):
    """-> (violation records, info dict for counters)"""
    from fileformats.generic import Directory, File
    from pydra.utils.hash import PersistentCache, hash_function

    info = dict(collisions=0, hashes=0, skipped=0, labels=set())
    recs: list[dict] = []
    root = scratchdir.new("c09")
    try:
        w = root / "w"
        for d in R.DIRS:
            (w / d).mkdir(parents=True)
        for ln, tgt in R.LINKS.items():
            os.symlink(tgt, w / ln)          # relative link inside w
        shared = root / "hashcache"
        shared.mkdir()
        links = list(case.get("links", []))
        for ln in links:
            os.symlink(R.DIRLINKS[ln][1], w / ln)   # relative link text; may dangle for a while
            info["labels"].add("dir_entry_symlink_" + ("outside" if R.DIRLINKS[ln][1].startswith("..")
                                                       else "sibling"))
        model = R.FsModel({p: R.CONTENTS[c] for p, c in case["init"].items()}, links)
        for p, c in model.files.items():
            (w / p).write_text(c)
        pc_obj = PersistentCache(location=shared)
        keymodel = R.KeyCacheModel()
        hashed_at: dict[str, list[int]] = {t: [] for t in R.TARGETS}   # mtimes at hash time
        seen_mtimes: list[int] = []
        seen_keys: dict[tuple, set] = {}           # key -> model contents hashed under it
        fresh_by_target: dict[str, list] = {t: [] for t in R.TARGETS}
        last_op = {t: "init" for t in R.TARGETS}
        n_empty = 0

        def note_mtime(p):
            m = os.lstat(w / p).st_mtime_ns
            if m not in seen_mtimes:
                seen_mtimes.append(m)

        def touch(p, what):
            via = model.via_link(p)
            for t in model.affected(p):
                last_op[t] = what + ("_via_entry_symlink" if t in via else "")

        for step, op in enumerate(case["ops"]):
            k = op[0]
            if k == "write":
                _, p, cid = op
                c = R.CONTENTS[cid]
                if model.exists(p):
                    same = len(c) == len(model.files[p])
                    what = ("write_same_content" if c == model.files[p] else
                            "write_same_size" if same else "write_other_size")
                else:
                    what = "create"
                (w / p).write_text(c)
                model.write(p, c)
                touch(p, what)
                info["labels"].add("op_" + what)
                note_mtime(p)
            elif k in ("utime_seen", "utime_abs"):
                _, t, j = op
                if not model.exists(t):
                    info["skipped"] += 1
                    continue
                if k == "utime_abs":
                    m = R.ABS_MTIMES[j % len(R.ABS_MTIMES)]
                else:
                    pool = hashed_at[t] or seen_mtimes
                    if not pool:
                        info["skipped"] += 1
                        continue
                    m = pool[j % len(pool)]
                st = os.lstat(w / t)
                os.utime(w / t, ns=(st.st_atime_ns, m), follow_symlinks=False)
                last_op[t] = k
                info["labels"].add("op_" + k)
            elif k in ("replace", "copy2"):
                _, src, dst = op
                if not model.exists(src) or src == dst:
                    info["skipped"] += 1
                    continue
                if k == "replace":
                    os.replace(w / src, w / dst)
                    model.replace(src, dst)
                    touch(src, k + "_away")
                else:
                    shutil.copy2(w / src, w / dst)
                    model.copy(src, dst)
                touch(dst, k)
                info["labels"].add("op_" + k)
                note_mtime(dst)
            elif k == "hash":
                _, t, mode = op
                if not model.exists(t) or (mode == "task" and t in R.DIRS):
                    info["skipped"] += 1
                    continue
                kind = _kind(t)
                path = w / t
                mtime = os.lstat(path).st_mtime_ns
                content = model.content(t)
                cls = Directory if kind == "Directory" else File
                n_empty += 1
                empty = root / f"empty{n_empty}"
                empty.mkdir()
                try:
                    if mode == "task":
                        from vlib.tasks_files3 import FileIn

                        with I.hash_cache_env(empty):
                            fresh = FileIn(f=File(path))._checksum
                        with I.hash_cache_env(shared):
                            got = FileIn(f=File(path))._checksum
                        # the defect model lives at the level of the file hash
                        n_empty += 1
                        (root / f"empty{n_empty}").mkdir()
                        plain_fresh = hash_function(File(path), persistent_cache=root / f"empty{n_empty}")
                        plain_got = hash_function(File(path), persistent_cache=shared)
                    else:
                        fresh = hash_function(cls(path), persistent_cache=empty)
                        if mode == "here":
                            got = hash_function(cls(path), persistent_cache=shared)
                        elif mode == "env":
                            with I.hash_cache_env(shared):
                                got = hash_function(cls(path))
                        elif mode == "obj":
                            got = hash_function(cls(path), persistent_cache=pc_obj)
                        elif mode == "child":
                            got = I.child_hash(cls.__name__, path, shared)
                        else:
                            raise ValueError(mode)
                        plain_fresh, plain_got = fresh, got
                except I.HarnessError:
                    raise
                except Exception as e:  # noqa
                    recs.append(dict(signature=exception_signature(e, f"hash-raises:{kind}"),
                                     observed=short(e), expected="a hash", detail=dict(step=step)))
                    break
                info["hashes"] += 1
                info["labels"].add("hash_" + mode)
                info["labels"].add("hash_" + kind)
                key = (kind, t, mtime)
                # task checksums live in their own value space: keep them apart in the models
                space = "task" if mode == "task" else "plain"
                before = seen_keys.setdefault(key, set())
                collision = any(c != content for c in before)
                if collision:
                    info["collisions"] += 1
                    info["labels"].add(f"collision_{kind}_after_{last_op[t]}")
                elif before:
                    info["labels"].add("rehash_same_key_same_content")
                before.add(content)
                predicted = keymodel.predict(key, plain_fresh)
                if got != fresh:
                    if plain_got == predicted and plain_got != plain_fresh:
                        sig = f"stale-hash-served-for-same-(path,mtime_ns)-key:{kind}"
                    else:
                        sig = f"hash-differs-from-fresh-computation:unexplained:{kind}"
                    recs.append(dict(
                        signature=sig, observed=got, expected=fresh,
                        detail=dict(step=step, op=op, target=t, mtime_ns=mtime, mode=mode,
                                    content_now=content, last_op=last_op[t],
                                    contents_hashed_under_this_key_before=sorted(map(repr, before)))))
                    break
                # (2) fresh hashes are a function of content, and an injective one on this pool
                bad = None
                for c0, h0, sp0 in fresh_by_target[t]:
                    if sp0 != space:
                        continue
                    if c0 == content and h0 != fresh:
                        bad = ("fresh-hash-unstable", c0, h0)
                    elif c0 != content and h0 == fresh:
                        bad = ("fresh-hash-collision", c0, h0)
                    if bad:
                        break
                if bad:
                    recs.append(dict(signature=f"{bad[0]}:{kind}", observed=[bad[2], fresh],
                                     expected="equal hashes iff equal content",
                                     detail=dict(step=step, target=t, content_then=bad[1],
                                                 content_now=content)))
                    break
                fresh_by_target[t].append((content, fresh, space))
                if mtime not in hashed_at[t]:
                    hashed_at[t].append(mtime)
                # what the hash of a link / a directory depends on was "seen" at this moment too:
                # the file a link points to and the files below a directory can later be put back
                # to exactly the mtime they had when the link / directory was hashed
                below = [R.LINKS[t]] if t in R.LINKS else [f for f in R.FILES if f.startswith(t + "/")]
                for f in below:
                    try:
                        fm = os.stat(w / f).st_mtime_ns
                    except OSError:
                        continue
                    if fm not in hashed_at[f]:
                        hashed_at[f].append(fm)
                if mtime not in seen_mtimes:
                    seen_mtimes.append(mtime)
            else:
                raise ValueError(f"unknown op {op}")
        return recs, info
    finally:
        scratchdir.rm(root)


def check_case(case):
    return replay(case)[0]


def run(sh):
    def body(case):
        recs, info = replay(case)
        labels = sorted(info["labels"])
        if info["skipped"]:
            sh.count("ops_skipped_target_missing", info["skipped"])
        sh.count("hash_ops", info["hashes"])
        sh.count("hash_ops_same_key_changed_content", info["collisions"])
        sh.record_case(case, nontrivial=info["collisions"] > 0, labels=labels)
        sh.handle(case, recs, raise_unattributed=True)

    steps = 12 if sh.quick else 30
    sh.given(G.histories(max_steps=steps), body, sh.budget(2400, 45000), tag="hist")
    sh.given(restore_scenarios(), body, sh.budget(800, 15000), tag="restore")


@st.composite
def restore_scenarios(draw):
    """Histories built around the pattern the statement singles out - hash, change the content,
    put the timestamp back, hash again - observed through the file itself, a symbolic link to it
    or the directory holding it, with other operations interleaved."""
    f = draw(st.sampled_from(R.FILES))
    views = [f] + [ln for ln, tgt in R.LINKS.items() if tgt == f] + [d for d in R.DIRS if f.startswith(d + "/")]
    view = draw(st.sampled_from(views))
    c0 = draw(st.integers(0, len(R.CONTENTS) - 1))
    c1 = draw(st.integers(0, len(R.CONTENTS) - 1))
    modes = st.sampled_from(G.HASH_MODES)
    core = [["hash", view, draw(modes)], ["write", f, c1],
            draw(st.sampled_from([["utime_seen", f, draw(st.integers(0, 3))],
                                  ["utime_seen", view, draw(st.integers(0, 3))],
                                  ["utime_abs", f, draw(st.integers(0, 2))]])),
            ["hash", view, draw(modes)]]
    noise = draw(G.histories(max_steps=4))
    ops = list(core)
    for op in noise["ops"]:
        ops.insert(draw(st.integers(0, len(ops))), op)
    init = dict(noise["init"])
    init[f] = c0
    return dict(init=init, links=noise.get("links", []), ops=ops)


_ = Path
