"""C11  At-most-once execution per identity; rerun / propagate_rerun; read-only caches.

Case: {"ops": [...]} - a history of submissions and planted leftovers over three cache
locations r0..r2 (vlib/gen/cachehist.py), replayed by a plain interpreter loop against pydra and
against the reference model vlib/ref/cachehist.CacheModel.

  {"op":"submit","task":A|B|C|W|S|N,"root":i,"ro":[j..],"rerun":b,"prop":b,"worker":"debug"|"cf"}
  {"op":"plant","ident":A|B|C|E|W|N,"root":i,"kind":"empty"|"jobonly"|"zero"|"trunc"[,"cut":permille]}
N is a workflow with another workflow (W) as one of its nodes and a task (C) next to it.

Observation points: the O_APPEND execution log (one line per body execution), the returned
outputs, byte-for-byte snapshots of every location other than the cache root, the files of the
cache root.
"""
from __future__ import annotations

import hashlib
import os
from pathlib import Path

from vlib import scratchdir
from vlib.gen import cachehist as gen
from vlib.harness import HarnessError, exception_signature, short
from vlib.ref.cachehist import (COUNTED, EXPECTED_OUT, IDENTS, POOL, CacheModel, all_idents,
                                is_wf)

ID = "C11"
LEVEL = "exploration"
DESIGN_REF = "5/C11"
TECHNIQUE = "generated operation histories vs an explicit cache model (stateful model check)"
RULE = (
    "case = history of 1..8 (thorough: ..10) operations over three cache locations: submit(task in "
    "{3 counter tasks, 2-node chain workflow sharing node identities with two of them, split task, "
    "outer workflow holding that chain workflow as a node next to a task}, "
    "cache root, ordered subset of the other locations as read-only caches, rerun, propagate_rerun, "
    "worker debug|cf) or plant(identity, location, leftover kind: empty dir | dir with only "
    "_job.pklz | zero-byte _result.pklz | non-empty truncated _result.pklz = a proper prefix, cut at a "
    "drawn permille, of a pickle stream). After every submission: per-identity execution counts == "
    "model, outputs correct, every other location byte-identical, executed identities have a "
    "complete result under the cache root. Non-trivial = the history contains a read-only-cache "
    "hit, a rerun of something already cached, or a planted leftover that a later submission "
    "meets; distinct = the op list. Batches: free histories on the debug worker; free histories "
    "with process-pool submissions; follow-up scenarios (one thing submitted, then 1..3 further "
    "submissions of it with drawn rerun/propagate/worker/cache lists, workflows preferred) so that "
    "reruns of cached workflows through the process-pool worker occur in every few cases; leftover "
    "scenarios (one thing submitted to one location, leftovers of identities inside it planted in "
    "the other locations, then submissions rooted there listing the first location read-only) so "
    "that every leftover kind is met BEFORE a complete result in a later listed cache (label "
    "leftover_before_complete_result[:kind]) in every few cases."
)
ASSUMPTIONS = [
    "cache identities (task._checksum) are taken from pydra (trusted here; C06-C09 check them)",
    "propagate_rerun=False is read as: inner tasks are treated like a submission without rerun",
    "whether a result served from a read-only cache is also copied under the cache root is left "
    "open by the statement; the model follows what is observed there",
    "the content of a planted _job.pklz is a pickled None (pydra does not read it on lookup)",
    "a truncated result file is modelled as a proper prefix of a pickle stream of a plain dict "
    "(what a writer that died half-way leaves); arbitrary garbage in _result.pklz is not generated; "
    "pydra re-reads such a file 10 x 0.1 s before giving up; in-process (debug worker) these sleeps "
    "are cut to 1 ms through a stand-in for the `time` module in pydra.engine.result (the planted "
    "file never changes, the outcome cannot depend on the waiting time)",
    "leftover lock files are C10/C12 territory",
]
SHARDS = {"quick": 16, "thorough": 16}

SIG_SHADOW = "incomplete-dir-in-earlier-location-shadows-complete-result-in-later-cache"


# ------------------------------------------------------------------------------- pydra side
def _tasks(log):
    from vlib import tasks_cachehist as T

    sub = dict(
        A=T.Cnt(x=1, log=log), B=T.Cnt(x=2, log=log), C=T.Dbl(x=1, log=log),
        W=T.Chain(x=1, log=log), S=T.Cnt(log=log).split(x=[1, 7]), N=T.Outer(x=1, log=log),
    )
    ident_task = dict(A=sub["A"], B=sub["B"], C=sub["C"], E=T.Cnt(x=7, log=log), W=sub["W"],
                      N=sub["N"])
    return sub, ident_task


LOGLINE = {"A": "cnt:1", "B": "cnt:2", "C": "dbl:1", "E": "cnt:7"}


def _counts(log):
    from vlib.tasks_cachehist import read_lines

    lines = read_lines(log)
    out = {i: lines.count(LOGLINE[i]) for i in COUNTED}
    if sum(out.values()) != len(lines):
        raise HarnessError(f"unexpected log lines {lines}")
    return out


def _snap(root: Path):
    out = {}
    if not root.exists():
        return out
    for dp, dns, fns in os.walk(root):
        rel = os.path.relpath(dp, root)
        out[rel + "/"] = "dir"
        for fn in fns:
            p = Path(dp) / fn
            try:
                out[os.path.join(rel, fn)] = hashlib.sha1(p.read_bytes()).hexdigest()
            except OSError as e:  # pragma: no cover
                out[os.path.join(rel, fn)] = f"unreadable:{e}"
    return out


def _complete(root: Path, ck: str):
    import pickle

    import cloudpickle as cp

    f = root / ck / "_result.pklz"
    if not (f.exists() and f.stat().st_size > 0):
        return False
    try:
        with open(f, "rb") as fp:
            cp.load(fp)
    except (pickle.UnpicklingError, EOFError):  # truncated (planted) result file
        return False
    return True


def _truncated_pickle(cut: int) -> bytes:
    import cloudpickle as cp

    data = cp.dumps({"leftover": list(range(300)), "text": "x" * 300})
    n = min(max(1, len(data) * cut // 1000), len(data) - 1)
    return data[:n]


def _plant(root: Path, ck: str, kind: str, cut: int = 500):
    d = root / ck
    d.mkdir(parents=True)
    if kind in ("jobonly", "zero", "trunc"):
        (d / "_job.pklz").write_bytes(b"\x80\x04N.")
    if kind == "zero":
        (d / "_result.pklz").write_bytes(b"")
    if kind == "trunc":
        (d / "_result.pklz").write_bytes(_truncated_pickle(cut))


def _out_value(name, outputs):
    v = outputs.out
    return list(v) if isinstance(v, (list, tuple)) else v


def _diff(before, after):
    ch = sorted(k for k in set(before) | set(after) if before.get(k) != after.get(k))
    return ch[:6]


class _ShortSleep:
    """stands in for the `time` module inside pydra.engine.result: the retry loop of load_result
    sleeps 10 x 0.1 s per look-up of a truncated result file; the planted file never changes, so
    the waiting time is irrelevant to the outcome and is cut to 1 ms per retry"""

    def __init__(self, real):
        self._real = real

    def sleep(self, seconds):
        self._real.sleep(min(seconds, 0.001))

    def __getattr__(self, name):
        return getattr(self._real, name)


def check_case(case):
    import pydra.engine.result as result_mod

    real_time = result_mod.time
    if any(op.get("kind") == "trunc" for op in case["ops"]):
        result_mod.time = _ShortSleep(real_time)
    try:
        return _check_case(case)
    finally:
        result_mod.time = real_time


def _check_case(case):
    from pydra.engine.submitter import Submitter

    base = scratchdir.new("c11")
    recs = []
    try:
        log = str(base / "log")
        roots = [base / f"r{i}" for i in range(3)]
        for r in roots:
            r.mkdir()
        sub, ident_task = _tasks(log)
        cks = {i: t._checksum for i, t in ident_task.items()}
        if len(set(cks.values())) != len(cks):
            raise HarnessError("pool identities are not distinct")
        model = CacheModel()
        cwd0 = os.getcwd()
        for step, op in enumerate(case["ops"]):
            if len(recs) >= 3:
                break
            if op["op"] == "plant":
                if model.plant(op["ident"], op["root"], op["kind"]):
                    _plant(roots[op["root"]], cks[op["ident"]], op["kind"], op.get("cut", 500))
                continue
            name, R, ro = op["task"], op["root"], list(op["ro"])
            rerun, prop, worker = op["rerun"], op["prop"], op["worker"]
            good = model.clone(shadow=False)
            ev_good = good.submit(name, R, ro, rerun, prop)
            bad = model.clone(shadow=True)
            bad.submit(name, R, ro, rerun, prop)
            before = {i: _snap(r) for i, r in enumerate(roots) if i != R}
            top_before = sorted(os.listdir(base))
            kw = dict(n_procs=1) if worker == "cf" else {}
            where = f"step {step}: {op}"
            try:
                with Submitter(cache_root=roots[R], readonly_caches=[roots[j] for j in ro] or None,
                               worker=worker, propagate_rerun=prop, **kw) as s:
                    res = s(sub[name], rerun=rerun)
                errored, value = res.errored, (None if res.errored else _out_value(name, res.outputs))
            except Exception as e:  # a valid submission of a succeeding task must be accepted
                recs.append(dict(signature=exception_signature(e, "submission-raises"),
                                 observed=short(e), expected="result", detail=where))
                break
            got = _counts(log)
            resync = False
            if errored or value != EXPECTED_OUT[name]:
                recs.append(dict(signature="wrong-result" + (":errored" if errored else ""),
                                 observed=value, expected=EXPECTED_OUT[name], detail=where))
                resync = True
            if got != good.counts:
                if good.counts != bad.counts and got == bad.counts:
                    sig = SIG_SHADOW
                else:
                    over = any(got[i] > good.counts[i] for i in COUNTED)
                    under = any(got[i] < good.counts[i] for i in COUNTED)
                    sig = "execution-count:" + ("rerun" if rerun else "norerun") + (
                        ":prop" if rerun and prop and POOL[name][0] == "wf" else "") + (
                        ":executed-again" if over else "") + (":not-executed" if under else "")
                recs.append(dict(signature=sig, observed=got, expected=good.counts,
                                 detail=f"{where}; model events {ev_good}; complete results "
                                        f"{ {k: sorted(v) for k, v in model.holds.items() if v} }; "
                                        f"leftovers {sorted(model.incomplete)}"))
                resync = True
            # every other location is byte-identical
            for i, snap in before.items():
                after = _snap(roots[i])
                if after != snap:
                    sig = "readonly-cache-modified" if i in ro else "unlisted-location-modified"
                    recs.append(dict(signature=sig, observed=_diff(snap, after),
                                     expected="unchanged", detail=where))
            top_after = sorted(os.listdir(base))
            if top_after != top_before and set(top_after) - set(top_before) - {"log"}:
                recs.append(dict(signature="files-written-outside-cache-root",
                                 observed=top_after, expected=top_before, detail=where))
            if os.getcwd() != cwd0:
                os.chdir(cwd0)
                recs.append(dict(signature="cwd-changed", observed=os.getcwd(), expected=cwd0,
                                 detail=where))
            # executed identities must now be complete under the cache root
            if not resync:
                for e in ev_good:
                    if e[0] == "exec" and e[1] in cks and not _complete(roots[R], cks[e[1]]):
                        recs.append(dict(signature="executed-result-not-under-cache-root",
                                         observed=sorted(os.listdir(roots[R])),
                                         expected=cks[e[1]], detail=where))
                        resync = True
                model = good
                # statement leaves open whether a read-only hit is copied into the cache root
                for e in ev_good:
                    if e[0] == "hit" and e[2] != R and e[1] in cks and _complete(roots[R], cks[e[1]]):
                        model.holds[e[1]].add(R)
                        model.incomplete.pop((e[1], R), None)
            if resync:
                # continue the history from what is on disk (only after a reported violation)
                model = good
                model.counts = dict(got)
                for ident, ck in cks.items():
                    for i, r in enumerate(roots):
                        model.holds[ident].discard(i)
                        model.incomplete.pop((ident, i), None)
                        if _complete(r, ck):
                            model.holds[ident].add(i)
                        elif (r / ck).exists():
                            model.incomplete[(ident, i)] = "leftover"
        return recs
    finally:
        scratchdir.rm(base)


# ------------------------------------------------------------------------------- classification
def describe(case):
    """labels + non-triviality from the model alone (no pydra)"""
    m = CacheModel()
    labels = set()
    for op in case["ops"]:
        if op["op"] == "plant":
            labels.add("planted" if m.plant(op["ident"], op["root"], op["kind"]) else "plant_skipped")
            continue
        name, R, ro = op["task"], op["root"], list(op["ro"])
        caches = [R] + ro
        entry = POOL[name]
        idents = all_idents(name)
        nested = entry[0] == "wf" and any(is_wf(n) for n in entry[2])
        if nested:
            labels.add("wf_with_wf_node")
        if op["rerun"] and any(m.found(i, caches) is not None for i in idents):
            labels.add("rerun_of_cached")
            if entry[0] == "wf":
                lab = "rerun_wf_prop" if op["prop"] else "rerun_wf_noprop"
                labels.add(lab)
                if op["worker"] == "cf":
                    labels.add(lab + "_cf")
                if nested:
                    labels.add(lab.replace("_wf_", "_nested_wf_")
                               + ("_cf" if op["worker"] == "cf" else ""))
        if any((i, r) in m.incomplete for i in idents for r in caches):
            labels.add("meets_leftover")
            shadow = m.clone(shadow=True)
            good = m.clone()
            shadow.submit(name, R, ro, op["rerun"], op["prop"])
            good.submit(name, R, ro, op["rerun"], op["prop"])
            if shadow.counts != good.counts:
                labels.add("leftover_before_complete_result")
                # which kind of leftover stands in front of a complete result
                for i in idents:
                    src = m.found(i, caches)
                    for r in caches[:caches.index(src)] if src is not None else []:
                        if (i, r) in m.incomplete:
                            labels.add("leftover_before_complete_result:" + m.incomplete[(i, r)])
        ev = m.submit(name, R, ro, op["rerun"], op["prop"])
        for e in ev:
            if e[0] == "hit":
                labels.add("ro_hit" if e[2] != R else "root_hit")
                if e[2] != R and len(ro) == 2 and e[2] == ro[1]:
                    labels.add("ro_hit_second_listed")
            if e[0] == "hit" and entry[0] == "wf" and e[1] != entry[1]:
                labels.add("wf_node_hit")
        if op["worker"] == "cf":
            labels.add("cf")
    nontrivial = bool(labels & {"ro_hit", "rerun_of_cached", "meets_leftover"})
    return nontrivial, sorted(labels)


def run(sh):
    max_ops = 8 if sh.quick else 10

    def body(case):
        nt, labels = describe(case)
        sh.run_case(case, nontrivial=nt, labels=labels, raise_unattributed=True)

    # debug-worker histories (cheap), then a smaller batch in which half of the submissions go
    # through the process-pool worker (a pool start/stop costs ~1 s)
    sh.given(gen.c11_history(max_ops=max_ops, cf_weight=0), body, sh.budget(400, 6000), tag="hist")
    if sh.index % 4 == 1:
        sh.given(gen.c11_history(max_ops=4 if sh.quick else 6, cf_weight=5), body,
                 3 if sh.quick else 60, tag="cf")
    # follow-up scenarios: the same thing submitted again with drawn rerun / propagate / worker
    sh.given(gen.c11_followups(cf_weight=8), body, 2 if sh.quick else 40, tag="followcf")
    sh.given(gen.c11_followups(cf_weight=0), body, sh.budget(160, 2400), tag="follow")
    # leftover scenarios: an incomplete directory (every kind) in front of a complete result
    sh.given(gen.c11_leftover_scenarios(), body, sh.budget(96, 1600), tag="leftover")
