"""C21  Accepted lazy connections are honoured at run time.

L1  pairs (S, T) of type specs: when TypeParser(T, superclass_auto_cast=False).check_type(S)
    passes (the static check made when an upstream output of type S is connected to an input of
    type T, without the permissive super-to-sub-class rule), every generated value of S must be
    accepted by the converter of a field declared T (what attrs.evolve applies when the lazy
    value is resolved at run time).  A refusal explained by a fixed-length tuple position meeting
    a collection of another length is set aside by rule (vlib/ref/conforms.arity_excuse).
L2  sample: a two-node workflow Src(-> S) -> Capture(x: T) built and run with the debug worker;
    if it can be constructed (and the L1 static check passes) the run must succeed.
"""
from __future__ import annotations

import json

from hypothesis import strategies as st

from vlib import scratchdir
from vlib.gen import types as G
from vlib.harness import exception_signature, short
from vlib.ref import conforms as R

ID = "C21"
LEVEL = "exploration"
DESIGN_REF = "5/C21, 3.4"
TECHNIQUE = "static type check vs runtime converter, differential over generated type pairs"
RULE = (
    "cases = (S, T, values): S from the C20 type grammar (depth<=3, top-level Any excluded), T "
    "derived from S by local widenings / container swaps / union edits (int->float, X->Optional[X], "
    "list<->tuple<->set<->Sequence<->MultiInputObj, tuple arity, dict<->Mapping, str<->Path<->File) or "
    "drawn independently; 5 values of S per pair (L1) or one value run through a two-node workflow "
    "(L2). Non-trivial = S != T and the static check accepted the pair; distinct = the case."
)
ASSUMPTIONS = [
    "values of S are drawn by values_of(S) and satisfy the independent conforms() predicate",
    "a str is not offered as a value of Sequence[str] nor bytes as Sequence[int] in the checked "
    "part (pydra deliberately refuses to treat str as a sequence; those cases are only counted)",
    "when T mentions File every str/Path value names an existing scratch file (a str flowing into "
    "a File input names a file: precondition of every real caller)",
    "S = Any at top level is out of scope (Any is unchecked by design)",
    "the runtime converter is the one make_converter builds for a field (superclass_auto_cast=True)",
    "L2 uses the debug worker",
]
SHARDS = {"quick": 16, "thorough": 16}
WALL = {"quick": 400, "thorough": 1500}  # ~25-40 s on an idle 16-core machine; import-bound under load

LAST: dict = {}


def _static_ok(S, T):
    from pydra.utils.typing import TypeParser

    try:
        TypeParser(G.build_type(T), superclass_auto_cast=False).check_type(G.build_type(S))
    except Exception as e:  # noqa: BLE001 - any exception = connection refused when building
        return False, e
    return True, None


def _converter(T):
    """the converter attrs applies to a field declared T"""
    tp = G.build_type(T)
    try:
        from pydra.compose import python
        from pydra.compose.base.builder import make_converter

        return make_converter(python.arg(name="x", type=tp), "Capture")
    except ImportError:
        from pydra.utils.typing import TypeParser

        return TypeParser(tp, superclass_auto_cast=True, label="x")


def _accepts(T, x):
    try:
        _converter(T)(x)
        return True
    except Exception:  # noqa: BLE001
        return False


def _plain_accepts(T, x):
    from pydra.utils.typing import TypeParser

    try:
        TypeParser(G.build_type(T), superclass_auto_cast=True, label="x")(x)
        return True
    except Exception:  # noqa: BLE001
        return False


def culprits(T, x):
    """candidate (declared kind <- value class) positions at which the converter of T refuses x,
    most specific first; a MultiInputObj position is read both ways (items / one wrapped item)"""
    k = T[0]
    here = [f"{k}<-{type(x).__name__}"]
    if k in ("Optional", "Union"):
        members = [m for m in ([T[1]] if k == "Optional" else T[1]) if m[0] != "None"]
        deep, shallow = [], []
        for m in members:
            for c in culprits(m, x):
                (shallow if c == f"{m[0]}<-{type(x).__name__}" else deep).append(c)
        return deep + (shallow if len(members) == 1 else here + shallow)
    if k in ("list", "tuplevar", "set", "frozenset", "Sequence", "Multi"):
        out = []
        if isinstance(x, (list, tuple, set, frozenset)):
            for e in x:
                if not _accepts(T[1], e):
                    out += culprits(T[1], e)
                    break
        if k == "Multi":
            out += culprits(T[1], x)
        return out + here
    if k == "tuple":
        if isinstance(x, (list, tuple)) and len(x) == len(T[1]):
            for e, m in zip(x, T[1]):
                if not _accepts(m, e):
                    return culprits(m, e) + here
        return here
    if k in ("dict", "Mapping"):
        if isinstance(x, dict):
            for a, b in x.items():
                if not _accepts(T[1], a):
                    return ["key:" + c for c in culprits(T[1], a)] + here
                if not _accepts(T[2], b):
                    return culprits(T[2], b) + here
        return here
    return here


def _relies_on_collection_to_bytes(S, T):
    """the static check accepts (S, T) only through 'list/tuple/Set -> bytes is coercible'"""
    import collections.abc as cabc

    from pydra.utils.typing import TypeParser

    nc = list(TypeParser.NOT_COERCIBLE_DEFAULT) + [(list, bytes), (tuple, bytes), (cabc.Set, bytes),
                                                   (cabc.Sequence, bytes)]
    try:
        TypeParser(G.build_type(T), not_coercible=nc, superclass_auto_cast=False).check_type(
            G.build_type(S))
    except Exception:  # noqa: BLE001
        return True
    return False


def signature_of(S, T, x):
    """root-cause names.  Two defect models: (1) the refusing position declares Sequence and the
    value there is a set/frozenset (an abstract Sequence cannot be instantiated); (2) the refusing
    position declares bytes, the value there is a list/tuple/set/frozenset, and the static check
    accepted the pair only through the collection->bytes coercion rule (bytes is a Sequence)."""
    if not _accepts(T, x) and _plain_accepts(T, x):
        # defect model (3): the TypeParser of the field accepts the value, the converter pipeline
        # built by make_converter does not (it puts ensure_list in front for MultiInputObj[File],
        # which wraps any non-list collection into a one-element list)
        pre = "ensure_list" if T in (["Multi", ["File"]],) and not isinstance(x, list) else "other"
        return "runtime-rejects:field-converter-refuses-what-its-TypeParser-accepts:" + pre
    cands = culprits(T, x)
    for c in cands:
        kind, _, cls = c.rpartition("<-")
        if kind == "Sequence" and cls in ("set", "frozenset"):
            return "runtime-rejects:abstract-Sequence<-Set"
        if kind.endswith("bytes") and cls in ("list", "tuple", "set", "frozenset") \
                and _relies_on_collection_to_bytes(S, T):
            return "runtime-rejects:bytes<-collection"
    return "runtime-rejects:" + cands[0]


def check_l1(case, d):
    S, T = case["S"], case["T"]
    ok, why = _static_ok(S, T)
    if not ok:
        LAST.update(static="rejected", exc=type(why).__name__)
        return []
    LAST.update(static="accepted", excused=0, accepted=0)
    conv = _converter(T)
    recs = []
    for vs in case["vals"]:
        x = G.build_value(vs, d)
        if not R.conforms(x, S):
            raise AssertionError(f"generator produced a value outside S: {vs} / {S}")
        try:
            conv(x)
            LAST["accepted"] += 1
        except Exception as e:  # noqa: BLE001
            if R.arity_excuse(x, T):
                LAST["excused"] += 1
                continue
            recs.append(dict(
                signature=signature_of(S, T, x),
                observed=f"check_type({G.render(S)}) passes for {G.render(T)}, value {x!r:.80}: {short(e, 200)}",
                expected="every value of the accepted upstream type is accepted at run time"))
            break
    return recs


def check_l2(case, d):
    from pydra.engine.workflow import Workflow

    from vlib import tasks_typing as TT

    S, T, vs = case["S"], case["T"], case["v"]
    wf = TT.PairWF(S=S, T=T, v=vs, scratch=str(d))
    try:
        Workflow.construct(wf)
    except Exception as e:  # noqa: BLE001 - refused when the workflow is built
        LAST.update(static="rejected", exc=type(e).__name__)
        return []
    ok, _ = _static_ok(S, T)
    if not ok:
        LAST.update(static="only_by_supercast")
        return []
    x = G.build_value(vs, d)
    try:
        from pydra.utils.typing import TypeParser

        TypeParser(G.build_type(S), superclass_auto_cast=True)(x)
    except Exception:  # noqa: BLE001 - the upstream output field refuses its own value: not C21
        LAST.update(static="accepted", run="src_refuses_value")
        return []
    LAST.update(static="accepted")
    TT.CAPTURED.clear()
    try:
        wf(cache_root=d / "cache", worker="debug")
    except Exception as e:  # noqa: BLE001
        if R.arity_excuse(x, T):
            LAST.update(run="excused")
            return []
        if not _accepts(T, x):
            sig = signature_of(S, T, x)
        else:
            sig = exception_signature(e, "wf-run-fails-though-converter-accepts")
        return [dict(signature=sig,
                     observed=f"workflow {G.render(S)} -> {G.render(T)} built, value {x!r:.80}: {short(e, 200)}",
                     expected="the run succeeds")]
    if not TT.CAPTURED:
        return [dict(signature="wf-downstream-body-not-executed", observed="no call recorded",
                     expected="downstream body runs once")]
    LAST.update(run="ok")
    return []


def check_case(case):
    LAST.clear()
    need = case["level"] == "L2" or any(G.contains_file(v) for v in case.get("vals", []))
    d = scratchdir.new("c21") if need else None
    try:
        if case["level"] == "L2":
            return check_l2(case, d)
        return check_l1(case, d)
    finally:
        if d is not None:
            scratchdir.rm(d)


# ------------------------------------------------------------------ generation
@st.composite
def pairs(draw, level):
    S = draw(G.types(max_depth=3).filter(lambda t: t[0] != "Any"))
    how = draw(st.sampled_from(["related", "related", "related", "same", "independent"]))
    if how == "related":
        T = draw(G.related_type(S))
    elif how == "same":
        T = S
    else:
        T = draw(G.types(max_depth=2))
    ex = "File" in G.kinds(T)
    case = dict(level=level, S=S, T=T, how=how)
    if level == "L1":
        case["vals"] = [draw(G.values_of(S, existing_paths=ex)) for _ in range(5)]
    else:
        case["v"] = draw(G.values_of(S, existing_paths=ex).filter(G.hash_safe))
    return case


def _differs(S, T):
    return json.dumps(G._strip_spelling(S)) != json.dumps(G._strip_spelling(T))


def run(sh):
    def body(case):
        differs = _differs(case["S"], case["T"])
        ok = _static_ok(case["S"], case["T"])[0]
        labels = [case["level"], f"{case['level']}_{case['how']}",
                  f"{case['level']}_static_{'accepted' if ok else 'rejected'}"]
        if ok and differs:
            labels.append(f"{case['level']}_accepted_S_ne_T")
            labels.append(f"accepted_{case['S'][0]}_to_{case['T'][0]}")
        sh.run_case(case, nontrivial=ok and differs, labels=labels, raise_unattributed=True)
        if case["level"] == "L1" and LAST.get("static") == "accepted":
            sh.count("l1_values_accepted", LAST.get("accepted", 0))
            sh.count("l1_values_tuple_arity_excused", LAST.get("excused", 0))
        if case["level"] == "L2":
            sh.count(f"l2_{LAST.get('static', 'violation')}_{LAST.get('run', '-')}")

    sh.given(pairs("L1"), body, sh.budget(3000, 60000), tag="l1")
    sh.given(pairs("L2"), body, sh.budget(160, 2400), tag="l2")
