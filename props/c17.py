"""C17  Workflow results do not depend on worker or schedule.

The same generated program (C03 generator, incl. nested workflows and workflow-level splits) is
run under: debug; cf with 1, 2 and 8 processes; the schedule-owning worker with two different
generated completion orders; with concurrency limits.  Differential oracle: all configurations
give the same outputs (or all fail alike); where the reference interpreter defines the program
and the runs succeed, they also equal the reference.
"""
from __future__ import annotations

from hypothesis import strategies as st

from vlib import scratchdir, schedcase
from vlib.gen import workflows as G
from vlib.harness import short
from vlib.ref import workflow as RW

ID = "C17"
LEVEL = "exploration"
DESIGN_REF = "5/C17"
TECHNIQUE = "property-based differential testing across workers, process counts, limits and schedules"
WALL = {"quick": 120, "thorough": 1500}
RULE = (
    "cases = (workflow program from the C03 generator, list of 3 (quick) or 4-5 (thorough) configurations drawn from "
    "{debug, cf n_procs in 1/2/8, sched with generated completion orders} x max_concurrent in "
    "{none,1,2}). Non-trivial = the program has >=3 jobs and at least two jobs that can run "
    "concurrently; distinct = (program, configurations)."
)
ASSUMPTIONS = [
    "each configuration runs in its own fresh cache root",
    "a configuration that raises is compared by exception type; 'all configurations raise the same "
    "type' is consistent behaviour for this property (C03 owns correctness)",
]


def outcome(obs):
    if obs.timed_out:
        return ["timed_out"]
    if obs.exception is not None:
        return ["raised", obs.exception_type]
    if obs.errored:
        return ["errored"]
    return ["ok", obs.outputs]


def check_case(case):
    prog = case["prog"]
    d = scratchdir.new("c17")
    try:
        outs = []
        for i, cfg in enumerate(case["configs"]):
            obs = schedcase.run_case(dict(prog=prog, **cfg), d / f"cfg{i}")
            o = outcome(obs)
            if o[0] in ("raised", "errored"):  # normalise: a failed workflow is a failed workflow
                o = ["failed"]
            outs.append(o)
        if ["timed_out"] in outs:  # inconclusive configuration (C18 owns termination): not compared
            case["_timed_out"] = True
            return []
        base = outs[0]
        for i, o in enumerate(outs[1:], 1):
            if o != base:
                a, b = case["configs"][0], case["configs"][i]
                kinds = sorted({a["worker"], b["worker"]})
                return [dict(signature="outputs-differ-between:" + "+".join(kinds),
                             observed={str(case["configs"][j]): outs[j] for j in (0, i)},
                             expected="identical outputs in every configuration")]
        try:
            exp = RW.evaluate_program(prog)
        except RW.Undefined:
            exp = None
        case["_agree"] = exp is not None and base == ["ok", exp]
        return []
    finally:
        scratchdir.rm(d)


@st.composite
def configs(draw, full=False):
    """quick tier: debug + cf-or-sched + sched (3 runs per program); thorough: 4-5 runs"""
    sched = lambda: dict(worker="sched", choices=draw(st.lists(st.integers(0, 7), max_size=30)),  # noqa: E731
                         k=draw(st.sampled_from([None, None, 1, 2])))
    cf = lambda: dict(worker="cf", n_procs=draw(st.sampled_from([1, 2, 8])),  # noqa: E731
                      k=draw(st.sampled_from([None, 1, 2])))
    out = [dict(worker="debug", k=None)]
    if full:
        out += [cf(), sched(), sched()]
        if draw(st.booleans()):
            out.append(cf())
    else:
        out += [cf() if draw(st.booleans()) else sched(), sched()]
    return out


@st.composite
def cases(draw, full=False):
    prog = draw(st.one_of(
        G.mixed_programs(max_nodes=4),
        # shapes in which the order of job completions could leak into grouped/merged values
        G.template_programs(shapes=["combine_then_consume", "fan_in_independent", "three_way_join",
                                    "two_upstreams_own_split_combine", "own_plus_upstream_combine"])))
    return dict(prog=prog, configs=draw(configs(full)))


def run(sh):
    def body(case):
        try:
            jobs = schedcase.expected_jobs(case["prog"])
        except RW.Undefined:
            jobs = {}
        from props.c16 import width

        nt = len(jobs) >= 3 and (width(case["prog"]) >= 2 if jobs else False)
        sh.run_case(case, nontrivial=nt, labels=["shape_" + lb for lb in RW.labels(case["prog"])],
                    raise_unattributed=True)
        if case.pop("_agree", False):
            sh.count("all_configs_equal_reference")
        if case.pop("_timed_out", False):
            sh.count("inconclusive_timed_out")

    sh.given(cases(full=not sh.quick), body, sh.budget(48, 700), tag="diff")
