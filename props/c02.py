"""C02  Combine groups job outputs into an exact, ordered partition.

L1: State(name, splitter, combiner).prepare_states -> final_combined_ind_mapping, exhaustively
    over trees with <= 3 fields x lengths 1..3 x every non-empty combiner subset (quick) and all
    4-field trees x lengths {1,2,3} (thorough; sampled in quick).
L2: Task.split(...).combine(...)(...) called directly and as a workflow node whose combined
    output feeds an identity node (LazyOutField path).
Oracle: vlib/ref/splitter.groups + the multiset law (concatenated groups are a permutation of
    the uncombined outputs).
"""
from __future__ import annotations

import itertools

from hypothesis import strategies as st

from vlib import scratchdir
from vlib.harness import exception_signature, short
from vlib.ref import splitter as R
from props.c01 import tree_strategy, vals

ID = "C02"
LEVEL = "exploration"
DESIGN_REF = "5/C02, 3.1"
RULE = (
    "cases = (splitter tree over fields a..d, length vector 1..3 on which the splitter is valid, "
    "non-empty combiner subset of its fields); L1 enumerates all of them for <=3 fields (and 4 "
    "fields in thorough) against State.final_combined_ind_mapping; L2 runs Hypothesis-sampled "
    "cases end to end, directly and through a workflow identity node. Non-trivial = the combiner "
    "names a field that is inner-linked or lies below a nested node, or leaves some axis "
    "uncombined in a >=3-field tree; distinct = (level, tree, lengths, combiner)."
)
ASSUMPTIONS = [
    "L1 reads State.final_combined_ind_mapping (internal); skipped with a note if absent",
    "cases whose splitter the reference leaves undefined/rejects are not generated",
    "debug worker for L2",
]
EXHAUSTIVE_WHEN_COMPLETED = True
EXHAUSTIVE_NOTE = "L1 sub-space only; L2 is sampled"


def nontrivial(tree, comb):
    fs = R.fields_of(tree)
    if len(fs) < 2:
        return False
    return R.has_inner(tree) or R.has_nested(tree) or (len(fs) >= 3 and len(comb) < len(fs))


def l1_groups(tree, lens, comb):
    from pydra.engine.state import State

    stt = State("N", splitter=R.to_py(tree), combiner=list(comb))
    inputs = {f"N.{f}": vals(f, n) for f, n in lens.items()}
    stt.prepare_states(inputs)
    return [v for k, v in sorted(stt.final_combined_ind_mapping.items())]


def defect_missing_members(got, exp):
    """Defect model for finding C02-F1: some groups lose members (and nothing else is wrong):
    every got group is a subsequence of the expected group at the same position."""
    if len(got) != len(exp):
        return False

    def subseq(a, b):
        it = iter(b)
        return all(x in it for x in a)

    return all(subseq(g, e) for g, e in zip(got, exp)) and got != exp


def check_l1(tree, lens, comb):
    exp, partial = R.groups(tree, lens, comb)
    try:
        got = l1_groups(tree, lens, comb)
    except Exception as e:  # noqa
        return [dict(signature=exception_signature(e, "l1-valid-combine-raises"),
                     observed=short(e), expected=exp[:8])]
    if got != exp:
        flat_g = sorted(i for g in got for i in g)
        flat_e = sorted(i for g in exp for i in g)
        if flat_g != flat_e:
            sig = "l1-lost-or-duplicated"
        elif sorted(map(sorted, got)) == sorted(map(sorted, exp)):
            sig = "l1-group-order"
        else:
            sig = "l1-wrong-group"
        return [dict(signature=sig, observed=got[:8], expected=exp[:8])]
    return []


def partial_inner(axes, comb):
    """some inner-linked axis class holds both combined and uncombined fields"""
    c = set(comb)
    return any(len(ax) >= 2 and (ax & c) and (ax - c) for ax in axes)


def check_l2(tree, lens, comb, via):
    from vlib.tasks import Tag

    d = scratchdir.new("c02")
    try:
        fields = R.fields_of(tree)
        consts = {f: f.upper() for f in "abcd" if f not in fields}
        axes, rows, _ = R.ev(tree, lens)
        exp_groups, partial = R.groups(tree, lens, comb)
        job_out = [[f"{f}{r[f]}" if f in r else f.upper() for f in "abcd"] for r in rows]
        exp = [[job_out[i] for i in g] for g in exp_groups]
        if not partial:
            exp = exp[0] if exp else []
        try:
            if via == "direct":
                task = Tag(**consts).split(R.to_py(tree), **{f: vals(f, lens[f]) for f in fields})
                task = task.combine(list(comb))
                outs = task(cache_root=d / "cache", worker="debug")
                got = outs.out
            else:
                from vlib.tasks import CombineWF

                outs = CombineWF(
                    spl=R.to_py(tree), comb=list(comb), consts=consts,
                    lists={f: vals(f, lens[f]) for f in fields},
                )(cache_root=d / "cache", worker="debug")
                got = outs.out
            got = _plain(got)
        except Exception as e:  # noqa
            sig = exception_signature(e, f"l2-{via}-valid-combine-raises")
            if (via == "workflow" and sig.endswith("AttributeError@workflow.py:_create_graph")
                    and not partial and partial_inner(axes, comb)):
                # defect model F-C02-1: the combiner names only part of an inner-linked group and
                # combines every axis; the node's final splitter is stale at graph construction
                sig = "wf-partial-inner-combiner:AttributeError@_create_graph"
            return [dict(signature=sig, observed=short(e), expected=exp[:6])]
        if got != exp:
            fg = sorted(map(repr, _leaves(got)))
            fe = sorted(map(repr, _leaves(exp)))
            if fg != fe:
                sig = f"l2-{via}-lost-or-duplicated"
            else:
                sig = f"l2-{via}-wrong-grouping-or-order"
            return [dict(signature=sig, observed=got[:6], expected=exp[:6])]
        return []
    finally:
        scratchdir.rm(d)


def _plain(x):
    if isinstance(x, (list, tuple)) or type(x).__name__ == "StateArray":
        return [_plain(i) for i in x]
    return x


def _leaves(x):
    """job records are 4-lists of str"""
    if isinstance(x, list) and len(x) == 4 and all(isinstance(i, str) for i in x):
        return [x]
    out = []
    if isinstance(x, list):
        for i in x:
            out.extend(_leaves(i))
    else:
        out.append(x)
    return out


def check_case(case):
    if case["level"] == "L1":
        return check_l1(case["tree"], case["lens"], case["comb"])
    return check_l2(case["tree"], case["lens"], case["comb"], case.get("via", "direct"))


def subsets(fs):
    for r in range(1, len(fs) + 1):
        yield from itertools.combinations(fs, r)


def l1_space(tier):
    for nf in (1, 2, 3, 4):
        if nf == 4 and tier != "thorough":
            continue
        for t in R.all_trees(nf):
            fs = R.fields_of(t)
            for lv in itertools.product(range(1, 4), repeat=nf):
                lens = dict(zip(fs, lv))
                if R.verdict(t, lens)[0] != "ok":
                    continue
                for comb in subsets(sorted(fs)):
                    yield t, lens, list(comb)


@st.composite
def sampled_case(draw, level):
    tree = draw(tree_strategy())
    fs = R.fields_of(tree)
    # choose lengths on which the splitter is valid: by construction, equal lengths below inner
    # nodes are obtained by trying a common length first
    n = draw(st.integers(1, 3))
    lens = {f: n for f in fs}
    if not R.has_inner(tree):
        lens = {f: draw(st.integers(1, 3)) for f in fs}
    else:
        # vary lengths of fields that are not below any inner node
        free = _fields_outside_inner(tree)
        for f in free:
            lens[f] = draw(st.integers(1, 3))
    if R.verdict(tree, lens)[0] != "ok":
        lens = {f: n for f in fs}
        if R.verdict(tree, lens)[0] != "ok":
            lens = None
    comb = draw(st.lists(st.sampled_from(sorted(fs)), min_size=1, max_size=len(fs), unique=True))
    case = dict(level=level, tree=tree, lens=lens, comb=sorted(comb))
    if level == "L2":
        case["via"] = draw(st.sampled_from(["direct", "workflow"]))
    return case


def _fields_outside_inner(t, under=False):
    if R.is_leaf(t):
        return [] if under else [t]
    out = []
    for k in t[1]:
        out.extend(_fields_outside_inner(k, under or t[0] == "I"))
    return out


def run(sh):
    try:
        from pydra.engine.state import State

        l1_ok = hasattr(State, "prepare_states")
    except Exception:
        l1_ok = False
    if l1_ok:
        completed = True
        for i, (t, lens, comb) in enumerate(l1_space(sh.tier)):
            if i % sh.n != sh.index:
                continue
            if sh.out_of_time():
                completed = False
                break
            case = dict(level="L1", tree=t, lens=lens, comb=comb)
            sh.run_case(case, nontrivial=nontrivial(t, comb), labels=("l1",))
        if completed:
            sh.count("exhaustive_subspaces_completed")

        if sh.quick:
            def body1(case):
                if case["lens"] is None:
                    sh.count("discarded_invalid_splitter")
                    return
                sh.run_case(case, nontrivial=nontrivial(case["tree"], case["comb"]),
                            labels=("l1_sampled_4field",), raise_unattributed=True)

            sh.given(sampled_case("L1"), body1, sh.budget(3000, 0), tag="l1s")
    else:
        sh.note("L1 unavailable: State.prepare_states not found")

    def body(case):
        if case["lens"] is None:
            sh.count("discarded_invalid_splitter")
            return
        sh.run_case(case, nontrivial=nontrivial(case["tree"], case["comb"]),
                    labels=(f"l2_{case['via']}",), raise_unattributed=True)

    sh.given(sampled_case("L2"), body, sh.budget(320, 16000), tag="l2")
