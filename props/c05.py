"""C05  Equivalent splitter spellings agree; ill-formed split/combine is rejected early.

(a) differential: tree vs a respelling obtained by rewrites the statement declares equivalent
    (leaf <-> one-element list/tuple, re-bracketing of a chain of outer resp. inner products);
    both are run (L1 State, L2 end to end) and must give identical jobs/inputs/order, or both
    be rejected.
(b) malformed requests obtained by perturbing a valid one must raise before any job runs.
"""
from __future__ import annotations

import copy

from hypothesis import strategies as st

from vlib import scratchdir
from vlib.harness import exception_signature, short
from vlib.ref import splitter as R
from props.c01 import tree_strategy, vals

ID = "C05"
LEVEL = "exploration"
DESIGN_REF = "5/C05"
RULE = (
    "cases = (a) pairs (tree, respelling) where the respelling is produced by 1-4 rewrites "
    "(wrap a sub-tree in a one-element list or tuple; splice a same-operator child into its parent; "
    "group >=2 consecutive operands of an n-ary node into a same-operator child) plus lengths 0..3; "
    "(b) malformed requests of five kinds (duplicate field, missing values, stray values, combiner "
    "not split, combine without split) derived from a valid request. Non-trivial = the two spellings "
    "differ structurally and have >=2 fields, or any malformed request; distinct = full case."
)
ASSUMPTIONS = [
    "pairs whose meaning the reference leaves undefined (equal count, different shape under an "
    "inner node) are counted and not compared",
    "L1 reads State.states_val (internal)",
    "debug worker for L2",
]

MALFORMED = ["duplicate_field", "missing_values", "stray_values", "combiner_not_split",
             "combine_without_split"]


# ------------------------------------------------------------------ rewrites
def subtrees(t, path=()):
    yield path, t
    if not R.is_leaf(t):
        for i, k in enumerate(t[1]):
            yield from subtrees(k, path + (i,))


def replace(t, path, new):
    if not path:
        return new
    t = [t[0], list(t[1])]
    t[1][path[0]] = replace(t[1][path[0]], path[1:], new)
    return t


def get(t, path):
    for i in path:
        t = t[1][i]
    return t


def apply_rewrite(t, kind, pick, op, lo, hi):
    """pick/lo/hi are integers reduced modulo the number of candidates"""
    nodes = list(subtrees(t))
    if kind == "wrap":
        path, sub = nodes[pick % len(nodes)]
        return replace(t, path, [op, [sub]])
    if kind == "splice":
        cands = [(p, n) for p, n in nodes if not R.is_leaf(n)
                 and any((not R.is_leaf(k)) and k[0] == n[0] for k in n[1])]
        if not cands:
            return t
        path, n = cands[pick % len(cands)]
        kids = []
        done = False
        for k in n[1]:
            if not done and (not R.is_leaf(k)) and k[0] == n[0]:
                kids.extend(k[1])
                done = True
            else:
                kids.append(k)
        return replace(t, path, [n[0], kids])
    if kind == "group":
        cands = [(p, n) for p, n in nodes if not R.is_leaf(n) and len(n[1]) >= 3]
        if not cands:
            return t
        path, n = cands[pick % len(cands)]
        m = len(n[1])
        a = lo % (m - 1)
        b = a + 2 + (hi % (m - a - 1)) if m - a - 1 > 0 else a + 2
        b = min(b, m)
        if a == 0 and b == m:
            b = m - 1
        kids = n[1][:a] + [[n[0], n[1][a:b]]] + n[1][b:]
        return replace(t, path, [n[0], kids])
    return t


def respell(tree, rewrites):
    t = copy.deepcopy(tree)
    for rw in rewrites:
        t = apply_rewrite(t, *rw)
    return t


# ------------------------------------------------------------------ observation
def run_l1(tree, lens):
    from pydra.engine.state import State

    try:
        s = State("N", splitter=_prefix(R.to_py(tree), "N."))
        s.prepare_states({f"N.{f}": vals(f, n) for f, n in lens.items()})
        return "ok", [{k.split(".", 1)[1]: v for k, v in row.items()} for row in s.states_val]
    except Exception as e:  # noqa
        return "raised", short(e, 120)


def _prefix(s, p):
    if isinstance(s, str):
        return p + s
    return type(s)(_prefix(k, p) for k in s)


def run_l2(tree, lens, d):
    from vlib.tasks import Tag, read_log

    log = str(d / "log.jsonl")
    fields = R.fields_of(tree)
    consts = {f: f.upper() for f in "abcd" if f not in fields}
    try:
        outs = Tag(log=log, **consts).split(R.to_py(tree), **{f: vals(f, lens[f]) for f in fields})(
            cache_root=d / "cache", worker="debug")
        return "ok", [o for o in outs.out], read_log(log)
    except Exception as e:  # noqa
        return "raised", short(e, 120), read_log(log)


def check_equiv(case):
    tree, lens = case["tree"], case["lens"]
    alt = respell(tree, case["rewrites"])
    kind, _ = R.verdict(tree, lens)
    if kind == "undef":
        return []
    out = []
    if case["level"] == "L1":
        a, b = run_l1(tree, lens), run_l1(alt, lens)
        if a[0] != b[0]:
            out.append(dict(signature=f"l1-spellings-disagree-on-acceptance:{_shape_of_rewrites(case)}",
                            observed=dict(original=a, respelled=b, respelling=R.to_py(alt)),
                            expected="same verdict"))
        elif a[0] == "ok" and a[1] != b[1]:
            out.append(dict(signature=f"l1-spellings-differ:{_shape_of_rewrites(case)}",
                            observed=dict(original=a[1][:8], respelled=b[1][:8],
                                          respelling=repr(R.to_py(alt))),
                            expected="identical jobs"))
        return out
    d1, d2 = scratchdir.new("c05a"), scratchdir.new("c05b")
    try:
        a, b = run_l2(tree, lens, d1), run_l2(alt, lens, d2)
        if a[0] != b[0]:
            out.append(dict(signature=f"l2-spellings-disagree-on-acceptance:{_shape_of_rewrites(case)}",
                            observed=dict(original=a[:2], respelled=b[:2], respelling=repr(R.to_py(alt))),
                            expected="same verdict"))
        elif a[0] == "ok" and (a[1] != b[1] or a[2] != b[2]):
            out.append(dict(signature=f"l2-spellings-differ:{_shape_of_rewrites(case)}",
                            observed=dict(original=a[1][:8], respelled=b[1][:8],
                                          respelling=repr(R.to_py(alt))),
                            expected="identical outputs and executions"))
        return out
    finally:
        scratchdir.rm(d1)
        scratchdir.rm(d2)


def _shape_of_rewrites(case):
    return "+".join(sorted({rw[0] for rw in case["rewrites"]}))


def check_malformed(case):
    from vlib.tasks import Tag, read_log

    tree, lens, kind = case["tree"], case["lens"], case["kind"]
    fields = R.fields_of(tree)
    d = scratchdir.new("c05m")
    try:
        log = str(d / "log.jsonl")
        kw = {f: vals(f, lens[f]) for f in fields}
        spl = R.to_py(tree)
        stage = "none"
        try:
            stage = "construct"
            if kind == "duplicate_field":
                dup = fields[case["pick"] % len(fields)]
                where = case["pick2"] % 3
                spl = [spl, dup] if where == 0 else ((spl, dup) if where == 1 else [dup, spl])
                task = Tag(log=log).split(spl, **kw)
            elif kind == "missing_values":
                drop = fields[case["pick"] % len(fields)]
                kw.pop(drop)
                task = Tag(log=log).split(spl, **kw)
            elif kind == "stray_values":
                free = [f for f in "abcd" if f not in fields]
                if not free:
                    return []
                kw[free[case["pick"] % len(free)]] = ["s0", "s1"]
                task = Tag(log=log).split(spl, **kw)
            elif kind == "combiner_not_split":
                free = [f for f in "abcd" if f not in fields]
                if not free:
                    return []
                comb = [free[case["pick"] % len(free)]]
                if case["pick2"] % 2:
                    comb = [fields[0]] + comb
                task = Tag(log=log).split(spl, **kw).combine(comb)
            elif kind == "combine_without_split":
                task = Tag(log=log, **{f: kw[f][0] if kw[f] else "v" for f in fields}).combine(
                    fields[case["pick"] % len(fields)])
            else:
                raise AssertionError(kind)
            stage = "submit"
            if case.get("route") == "submitter":  # explicit Submitter instead of calling the task
                from pydra.engine.submitter import Submitter

                with Submitter(cache_root=d / "cache", worker="debug") as sub:
                    res = sub(task, raise_errors=True)
                outs = res.outputs
            else:
                outs = task(cache_root=d / "cache", worker="debug")
            ran = read_log(log)
            return [dict(signature=f"malformed-accepted:{kind}",
                         observed=dict(outputs=repr(outs)[:300], executed=len(ran)),
                         expected="an error before any job is executed")]
        except Exception as e:  # noqa
            ran = read_log(log)
            if ran:
                return [dict(signature=f"malformed-rejected-after-jobs-ran:{kind}",
                             observed=dict(error=short(e), executed=ran[:5], stage=stage),
                             expected="no job executed")]
            return []
    finally:
        scratchdir.rm(d)


def check_case(case):
    if case["mode"] == "equiv":
        return check_equiv(case)
    return check_malformed(case)


# ------------------------------------------------------------------ generators
def lens_for(draw, tree):
    fs = R.fields_of(tree)
    n = draw(st.integers(0, 3))
    lens = {f: n for f in fs}
    if draw(st.booleans()):
        for f in fs:
            if draw(st.booleans()):
                lens[f] = draw(st.integers(0, 3))
    return lens


@st.composite
def equiv_case(draw, level):
    tree = draw(tree_strategy())
    lens = lens_for(draw, tree)
    rws = draw(st.lists(
        st.tuples(st.sampled_from(["wrap", "splice", "group"]), st.integers(0, 20),
                  st.sampled_from("OI"), st.integers(0, 5), st.integers(0, 5)),
        min_size=1, max_size=4))
    return dict(mode="equiv", level=level, tree=tree, lens=lens, rewrites=[list(r) for r in rws])


@st.composite
def malformed_case(draw):
    tree = draw(tree_strategy(max_fields=3))
    fs = R.fields_of(tree)
    n = draw(st.integers(1, 3))
    lens = {f: n for f in fs}
    return dict(mode="malformed", kind=draw(st.sampled_from(MALFORMED)), tree=tree, lens=lens,
                pick=draw(st.integers(0, 7)), pick2=draw(st.integers(0, 7)),
                route=draw(st.sampled_from(["call", "submitter"])))


def run(sh):
    def body(case):
        alt = respell(case["tree"], case["rewrites"])
        differs = alt != case["tree"]
        kind, _ = R.verdict(case["tree"], case["lens"])
        labels = [f"{case['level'].lower()}_{kind}", "respelled" if differs else "identity_rewrite"]
        labels += ["rw_" + k for k in {rw[0] for rw in case["rewrites"]}]
        sh.run_case(case, nontrivial=differs and len(R.fields_of(case["tree"])) >= 2,
                    labels=labels, raise_unattributed=True)

    sh.given(equiv_case("L1"), body, sh.budget(6000, 400000), tag="l1")
    sh.given(equiv_case("L2"), body, sh.budget(200, 12000), tag="l2")

    def bodym(case):
        sh.run_case(case, nontrivial=True, labels=("malformed_" + case["kind"], "route_" + case["route"]),
                    raise_unattributed=True)

    sh.given(malformed_case(), bodym, sh.budget(400, 16000), tag="mal")
