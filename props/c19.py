"""C19  Task execution cannot silently alter its recorded inputs.

Case: {"task": mutator|file_any|file_copy|sh_any|sh_copy, "value": <value spec (vlib/gen/values)>,
       "prog": [path, action], "worker": "debug"|"cf"}

mutator   python task `Mutator(x: Any, prog, log)`: walks `path` into x and applies `action` in
          place (append/pop/setitem/delitem/add/discard/clear/setattr/arr_set) or only reads.
file_any  python task with a `File` input (default copy mode), body appends to / rewrites / reads
          the file it is given;  file_copy: the same with copy_mode="copy".
sh_any / sh_copy   shell task `sh script <x> <log>` whose script appends to (or reads) its file.
file_two / sh_two  python / shell task with TWO file fields a, b:
          {..., "modes": [mode of a, mode of b] (any|copy, as declared), "same": bool (both fields
          are given the SAME file), "write": 0|1 (the body works on the file it received through
          field a / b)}

Whether a case mutates is *derived*: the program is applied to a twin of the value first.
"""
from __future__ import annotations

import logging
import math
import os

from vlib import scratchdir
from vlib.gen import cachehist as gen
from vlib.harness import HarnessError, exception_signature, short

ID = "C19"
LEVEL = "exploration"
DESIGN_REF = "5/C19"
TECHNIQUE = "enumerated mutation pool + generated values; twin-object comparison and cache-dir invariant"
RULE = (
    "enumerated in both tiers: 11 pool values (list, dict, set, attrs object, plain object, int and "
    "float numpy arrays, list inside tuple, list inside dict, dict inside object, set inside attrs "
    "inside list) x every applicable in-place action on the (innermost) mutable target + one "
    "read-only program, and 4 file tasks (python/shell x copy mode any/copy) x {append, rewrite, "
    "read}, and 2 tasks (python/shell) with two file fields x declared copy modes (any,copy | copy,any | "
    "copy,copy - python only) x {two files, the same file given to both fields} x field whose file the body works "
    "on x {append, rewrite, read}, each under the debug and the cf worker (210 cases; quick tier 147: "
    "cf gets the first action + read per value, and of the two-field tasks the appends to a shared file); plus Hypothesis-generated values of "
    "the section 3.3 grammar (depth <= 3, arrays included) with a random mutable target and action. "
    "Oracle: the caller's object / file is compared with an untouched twin; a changed non-copy "
    "input must be reported as an error, a copy-mode file must keep its bytes (two fields: when the "
    "body works on what it received through a copy-mode field, every original keeps its bytes), an unmodified input "
    "must not produce an error, and the only job directory created is named by the checksum "
    "computed before the run. Non-trivial = the program mutates; distinct = (task, value, "
    "program, worker)."
)
ASSUMPTIONS = [
    "structural equality of Python objects is decided by obj_same() below (type-sensitive, "
    "nan-aware, dtype/shape for arrays)",
    "input files get an old mtime before the run, so a modification is never hidden by the "
    "mtime-keyed hash cache of C09",
    "'reported as an error' = the call raises; under cf a modification that only happened to the "
    "pool process's copy of a non-file value is still required to be reported (statement: 'an "
    "in-place modification of any other input value is reported as an error', quantifier: "
    "'under the sequential and pool workers'); such cases carry their own signature",
    "a copy-mode shell task that modifies its private copy may or may not raise (left open)",
    "an identity mismatch (job directory name != checksum computed before the run) is reported "
    "only when it recurs on an immediate re-execution of the same case; a single non-reproducible "
    "mismatch for an unmodified value was seen once in ~3400 cf cases (cause unknown, identity "
    "determinism is C06/C07 territory)",
]
SHARDS = {"quick": 16, "thorough": 16}
EXHAUSTIVE_WHEN_COMPLETED = True
EXHAUSTIVE_NOTE = ("the mutation pool: values x actions x workers, file tasks x actions x workers, two-field "
                   "file tasks x modes x same/different file x written field x actions x workers (210 cases; "
                   "quick tier: 147 - under cf only the first action and the read per value, two-field "
                   "tasks: appends to a shared file)")

SIG_CF = "inplace-mutation-error-swallowed-under-cf:successful-result-already-saved"
SIG_PYCOPY = "copy-mode-ignored-for-python-task:body-receives-original-file"


# ------------------------------------------------------------------------------- twin comparison
def _fsame(a, b):
    if a != a or b != b:
        return a != a and b != b
    return a == b and math.copysign(1.0, a) == math.copysign(1.0, b)


def obj_same(a, b):
    import attrs
    import numpy as np

    if type(a) is not type(b):
        return False
    if isinstance(a, float):
        return _fsame(a, b)
    if isinstance(a, complex):
        return _fsame(a.real, b.real) and _fsame(a.imag, b.imag)
    if isinstance(a, (list, tuple)):
        return len(a) == len(b) and all(obj_same(x, y) for x, y in zip(a, b))
    if isinstance(a, dict):
        if len(a) != len(b):
            return False
        tb = {(type(k).__name__, k): v for k, v in b.items()}
        return all((type(k).__name__, k) in tb and obj_same(v, tb[(type(k).__name__, k)])
                   for k, v in a.items())
    if isinstance(a, (set, frozenset)):
        return a == b and sorted(type(x).__name__ for x in a) == sorted(type(x).__name__ for x in b)
    if isinstance(a, np.ndarray):
        if a.dtype != b.dtype or a.shape != b.shape:
            return False
        return bool(np.array_equal(a, b, equal_nan=a.dtype.kind in "fc"))
    if isinstance(a, slice):
        return all(obj_same(x, y) for x, y in ((a.start, b.start), (a.stop, b.stop), (a.step, b.step)))
    if attrs.has(type(a)):
        return all(obj_same(getattr(a, f.name), getattr(b, f.name)) for f in attrs.fields(type(a)))
    if type(a).__module__ == "vlib.gen.values" and hasattr(a, "__dict__"):
        return obj_same(a.__dict__, b.__dict__)
    return a == b


class _Catch(logging.Handler):
    def __init__(self):
        super().__init__(level=logging.ERROR)
        self.records = []

    def emit(self, record):
        self.records.append(record.getMessage())


def _jobdirs(root):
    if not os.path.isdir(root):
        return []
    return sorted(d for d in os.listdir(root) if os.path.isdir(os.path.join(root, d)))


def _target_kind(value, path):
    spec = value
    for kind, step in path:
        if kind == "i":
            spec = spec[1][step]
        elif kind == "k":
            spec = [v for k, v in spec[1] if gen._key_of(k) == step][0]
        else:
            spec = spec[2][step]
    return spec[0]


IDENTITY_SIGS = ("job-directory-under-other-identity", "no-result-under-original-identity")


def check_case(case):
    """The identity records are kept only when they recur on an immediate second execution of
    the same case: a defect of the property's mechanism (identity taken after the body ran,
    result saved elsewhere) is deterministic, whereas a one-off disagreement between two
    computations of the identity of equal inputs belongs to C06/C07 (identity determinism)."""
    recs = _check_once(case)
    if any(r["signature"] in IDENTITY_SIGS for r in recs):
        again = {r["signature"] for r in _check_once(case)}
        recs = [r for r in recs if r["signature"] not in IDENTITY_SIGS or r["signature"] in again]
    return recs


def _check_once(case):
    from vlib import tasks_cachehist as T
    from vlib.gen import values as V
    from vlib.tasks_cachehist import read_lines

    base = scratchdir.new("c19")
    recs = []
    try:
        root, log = base / "root", str(base / "log")
        task_kind, worker, prog = case["task"], case["worker"], case["prog"]
        is_file = task_kind != "mutator"
        two = task_kind in gen.TWO_FILE_TASKS
        if two:
            from fileformats.generic import File

            content = bytes.fromhex(case["value"][2])
            modes, wr, action = case["modes"], case["write"], prog[1]
            fpaths = [base / "in" / case["value"][1]]
            fpaths.append(fpaths[0] if case["same"] else base / "in2" / case["value"][1])
            contents = {}
            for i, fp in enumerate(fpaths):
                if fp not in contents:
                    fp.parent.mkdir(parents=True)
                    contents[fp] = content + (b"" if i == 0 else b"-second")
                    fp.write_bytes(contents[fp])
                    os.utime(fp, (1_000_000_000, 1_000_000_000))
            suffix = {"any": "Any", "copy": "Copy"}
            name = "Two" + suffix[modes[0]] + suffix[modes[1]]
            if task_kind == "sh_two":
                script = base / "s.sh"
                script.write_text(T.SH_TWO_READ if action[0] == "read" else T.SH_TWO_APPEND)
                task = getattr(T, "Sh" + name)(script=str(script), a=File(fpaths[0]),
                                                 b=File(fpaths[1]), w=str(wr), log=log)
            else:
                task = getattr(T, name)(a=File(fpaths[0]), b=File(fpaths[1]), w=wr, prog=prog,
                                        log=log)
            mutates = action[0] != "read"
        elif is_file:
            content = bytes.fromhex(case["value"][2])
            fpath = base / "in" / case["value"][1]
            fpath.parent.mkdir(parents=True)
            fpath.write_bytes(content)
            os.utime(fpath, (1_000_000_000, 1_000_000_000))
            from fileformats.generic import File

            action = prog[1]
            if action[0] == "file_append":
                expect_after = content + bytes.fromhex(action[1])
            elif action[0] == "file_rewrite":
                expect_after = bytes.fromhex(action[1])
            else:
                expect_after = content
            if task_kind.startswith("sh_"):
                script = base / "s.sh"
                script.write_text(T.SH_READ if action[0] == "read" else T.SH_APPEND)
                if action[0] == "file_append":
                    expect_after = content + b"ZZ"
                cls = T.ShAppendCopy if task_kind == "sh_copy" else T.ShAppendAny
                task = cls(script=str(script), x=File(fpath), log=log)
            else:
                cls = T.FileCopy if task_kind == "file_copy" else T.FileAny
                task = cls(x=File(fpath), prog=prog, log=log)
            mutates = expect_after != content
        else:
            v = V.build(case["value"], str(base / "v"))
            twin = V.build(case["value"], str(base / "v"))
            if not obj_same(v, twin):
                raise HarnessError(f"twin differs for {case['value']}")
            sim = V.build(case["value"], str(base / "v"))
            T.apply_prog(sim, prog)
            mutates = not obj_same(sim, twin)
            task = T.Mutator(x=v, prog=prog, log=log)
        pre = task._checksum
        catch = _Catch()
        lg = logging.getLogger("pydra.submitter")
        lg.addHandler(catch)
        kw = dict(n_procs=1) if worker == "cf" else {}
        raised, out = None, None
        try:
            out = task(cache_root=root, worker=worker, **kw)
        except Exception as e:
            raised = e
        finally:
            lg.removeHandler(catch)
        swallowed = [m for m in catch.records if "Task execution failed" in m]
        runs = len(read_lines(log))
        dirs = _jobdirs(root)
        where = f"{task_kind}/{worker} prog={prog} mutates={mutates}"

        if runs != 1:
            # the body must have been entered exactly once for the observations to mean anything
            if runs == 0 and raised is not None:
                # a valid submission was rejected before the body ran
                sig = exception_signature(raised, "valid-input-rejected-before-body")
            else:
                sig = f"body-executed-{runs}-times"
            recs.append(dict(signature=sig, observed=short(raised) if raised else runs,
                             expected="body executed once", detail=where))
            return recs
        if two:
            now = {fp: fp.read_bytes() for fp in contents}
            changed = sorted(fp.parent.name for fp in contents if now[fp] != contents[fp])
            received = list(out.out) if out is not None and task_kind == "file_two" else None
            tag = f"{task_kind}:{modes[0]}-{modes[1]}:{'same' if case['same'] else 'different'}-file"
            where += (f"; modes={modes} same={case['same']} body works on field {'ab'[wr]}; body "
                      f"received {received!r}; raised: {short(raised) if raised else None}")
            if modes[wr] == "copy":
                # the body only ever touched what a copy-mode field handed to it
                if changed:
                    recs.append(dict(signature="copy-mode-original-file-modified:" + tag,
                                     observed={k.parent.name: v.hex() for k, v in now.items()},
                                     expected="every original file keeps its bytes", detail=where))
                elif raised is not None and not mutates:
                    recs.append(dict(signature=exception_signature(raised, "unmodified-input-raises"),
                                     observed=short(raised), expected="no error", detail=where))
            else:
                if changed and raised is None:
                    sig = (SIG_CF if worker == "cf" and swallowed else
                           f"inplace-file-modification-not-reported:{worker}:{tag}")
                    recs.append(dict(signature=sig, observed=f"changed originals {changed}, call returned",
                                     expected="an error", detail=where))
                if not changed and raised is not None:
                    recs.append(dict(signature=exception_signature(raised, "unmodified-input-raises"),
                                     observed=short(raised), expected="no error", detail=where))
        elif is_file:
            now = fpath.read_bytes()
            changed = now != content
            received = None
            if out is not None and not task_kind.startswith("sh_"):
                received = out.out
            if task_kind.endswith("_copy"):
                if changed:
                    sig = "copy-mode-original-file-modified:" + task_kind
                    if task_kind == "file_copy" and now == expect_after:
                        sig = SIG_PYCOPY  # the body was handed the caller's path, not a copy
                    recs.append(dict(signature=sig, observed=now.hex(), expected=content.hex(),
                                     detail=where + f"; body received {received!r}; raised: "
                                            f"{short(raised) if raised else None}"))
                elif raised is not None and not mutates:
                    recs.append(dict(signature=exception_signature(raised, "unmodified-input-raises"),
                                     observed=short(raised), expected="no error", detail=where))
            else:
                if changed and raised is None:
                    sig = (SIG_CF if worker == "cf" and swallowed else
                           f"inplace-file-modification-not-reported:{worker}:{task_kind}")
                    recs.append(dict(signature=sig, observed=f"file now {now.hex()}, call returned",
                                     expected="an error", detail=where))
                if not changed and raised is not None:
                    recs.append(dict(signature=exception_signature(raised, "unmodified-input-raises"),
                                     observed=short(raised), expected="no error", detail=where))
        else:
            caller_changed = not obj_same(v, twin)
            if not mutates:
                if caller_changed:
                    raise HarnessError(f"read-only program changed the value: {case}")
                if raised is not None:
                    recs.append(dict(signature=exception_signature(raised, "unmodified-input-raises"),
                                     observed=short(raised), expected="no error", detail=where))
            elif raised is None:
                tk = _target_kind(case["value"], prog[0])
                if worker == "cf" and not caller_changed and swallowed:
                    sig = SIG_CF
                elif caller_changed:
                    sig = f"caller-object-silently-modified:{worker}:{tk}"
                else:
                    sig = f"inplace-mutation-not-reported:{worker}:{tk}"
                recs.append(dict(signature=sig, observed=f"call returned {out!r}"[:200],
                                 expected="an error reporting the changed input",
                                 detail=where + f"; caller's object changed: {caller_changed}; "
                                        f"logged: {[m[:80] for m in swallowed]}"))
        # results are stored under the identity of the original inputs
        extra = [d for d in dirs if d != pre]
        if extra:
            recs.append(dict(signature="job-directory-under-other-identity", observed=dirs,
                             expected=[pre], detail=where))
        elif raised is None and pre not in dirs:
            recs.append(dict(signature="no-result-under-original-identity", observed=dirs,
                             expected=[pre], detail=where))
        return recs
    finally:
        scratchdir.rm(base)


# ------------------------------------------------------------------------------- exploration
def _labels(case):
    act = case["prog"][1][0]
    mut = act not in ("read", "noop")
    labels = [case["task"], case["worker"], "mutating" if mut else "reading"]
    if case["task"] in gen.TWO_FILE_TASKS:
        labels.append("two_fields_" + ("same_file" if case["same"] else "different_files"))
        labels.append("body_works_on_" + case["modes"][case["write"]] + "_mode_field")
    if case["task"] == "mutator":
        labels.append("target_" + _target_kind(case["value"], case["prog"][0]))
        labels.append("nested_target" if case["prog"][0] else "root_target")
    return mut, labels


def run(sh):
    pool = gen.c19_pool(full=not sh.quick)
    pool.sort(key=lambda c: c["worker"])  # debug cases first, then cf
    completed = True
    for i, case in enumerate(pool):
        if i % sh.n != sh.index:
            continue
        if sh.out_of_time():
            completed = False
            break
        mut, labels = _labels(case)
        sh.run_case(case, nontrivial=mut, labels=["pool"] + labels)
    if completed:
        sh.count("exhaustive_subspaces_completed")

    def body(case):
        mut, labels = _labels(case)
        sh.run_case(case, nontrivial=mut, labels=["generated"] + labels, raise_unattributed=True)

    sh.given(gen.c19_value_case("debug"), body, sh.budget(480, 8000), tag="gen")
    if sh.index % 8 == 3:
        sh.given(gen.c19_value_case("cf"), body, 4 if sh.quick else 80, tag="gen-cf")
