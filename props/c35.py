"""C35  Job lifecycle leaves the process and the cache directory consistent.

(a) fault enumeration: for every line event k of the job path (vlib/inject/linefault.py) an ordinary
    exception is raised at event k of a submission that has counting hooks installed;
(b) the four TaskHooks themselves raise;
(c) generated histories of cached / uncached / rerun submissions (succeeding and failing tasks, a
    two-node workflow, debug and cf workers) into one cache root with counting hooks.
Where a job can fail is a dimension of the task kinds: in its body (python_fail, shell_fail, a
workflow node) or BEFORE its body, while its file inputs are staged into the job directory (a set
of files that cannot be made siblings / cannot be hard-linked: stagefail_*; python_files is the
same task with a value that can be staged).

Oracle, evaluated in the process that made the call, right after the call returned or raised:
  * os.getcwd() is what it was before the call;
  * no `*_info.json` and no `*.lock` file is left below the cache root;
  * if a body was entered, the directory of that job holds `_job.pklz` and `_result.pklz`
    (left open when the injected exception *is* the failure of the final save itself); without an
    injected fault (histories, the un-faulted reference runs) EVERY job directory holds both,
    whatever made the job fail;
  * `pre_run_task` and `post_run_task` were each called exactly once per body execution of that job
    and not at all for a cache hit (an attempt that was aborted before its body - by an injected
    fault or because its inputs could not be staged - is neither: counted, not judged, but never
    more than one call).
"""
from __future__ import annotations

import inspect
import os
from pathlib import Path

from hypothesis import strategies as st

from vlib import scratchdir
from vlib.gen import faults as G
from vlib.harness import HarnessError
from vlib.inject import linefault as LF

ID = "C35"
LEVEL = "fault_enumeration"
DESIGN_REF = "5/C35, 4.1"
TECHNIQUE = "sys.monitoring line-event exception injection + raising hooks + stateful-style histories"
RULE = (
    "cases = (task kind, event index k): an InjectedError(Exception) is raised at the k-th executed "
    "line event of the job path (Job.run / run_async / _populate_filesystem, result.save / "
    "record_error, Audit.start_audit / finalize_audit, task _run) for EVERY k of a dry run - quick: "
    "python task succeeding and failing; thorough: also shell tasks, the two-node workflow under "
    "debug and cf and a python task whose file inputs cannot be staged; plus (kind, raising hook) "
    "for the four hooks; plus generated histories (2-6 submissions of 13 task kinds - python/shell "
    "succeeding and failing in the body, python with a set of files that can be staged | fails to "
    "be staged (equal names, other device), workflow; debug and cf - x inputs x rerun flag into one "
    "cache root); plus an un-faulted reference run of every file-staging kind. Non-trivial = the fault "
    "fired at the expected (function, line) / the hook raised / the history contains a cache hit and "
    "a real execution; distinct = the case spec."
)
ASSUMPTIONS = [
    "an exception at a line event models 'the statement on that line raised before having any effect'; "
    "line events of bare `try:` keywords are not statements and are skipped; "
    "a hook whose own call line is the injection point counts as called",
    "the cwd clause is evaluated in the submitting process (cwd of cf pool workers is not observed)",
    "hooks are installed on the task (single tasks) resp. on both nodes (workflows)",
    "a job whose input staging fails is a failed run (cwd, bookkeeping files, job record + result "
    "are demanded); whether it is an 'actual execution' for the hooks is left open (0 or 1 call each)",
    "the other-device staging failure uses an existing read-only file outside the scratch area as "
    "input (it is only read)",
]
SHARDS = {"quick": 16, "thorough": 16}
WALL = {"quick": 200, "thorough": 1200}
EXHAUSTIVE_WHEN_COMPLETED = True
EXHAUSTIVE_NOTE = "all executed line events of the job path for the listed kinds, exception mode"

QUICK_KINDS = ["python", "python_fail"]
THOROUGH_KINDS = ["python", "python_fail", "shell", "shell_fail", "wf_debug", "wf_cf",
                  "stagefail_names"]
STAGE_KINDS = ["python_files", "stagefail_names", "stagefail_mount", "python_files_cf",
               "stagefail_names_cf"]
RUN_TIMEOUT = 300.0     # upper bound; see timeout_for()
DRY_WALL: dict = {}     # kind -> wall seconds of an un-faulted run in this process
X = 3


def timeout_for(kind):
    """>= 60 s and >= 60x the measured cost of a plain run of the kind (default 120 s when the kind
    was not measured).  A call that does not return is C18's subject, here it is only counted."""
    w = DRY_WALL.get(kind)
    if w is None:
        return 120.0
    return min(RUN_TIMEOUT, max(60.0, 60 * w))
LAST: dict = {}


# ------------------------------------------------------------------------------- observation
def observe(cd: G.CaseDir) -> dict:
    """what the cache root looks like (called inside the child, after the call)"""
    left = []
    for p in sorted(cd.cache.rglob("*")):
        if p.is_file() and (p.name.endswith("_info.json") or p.name.endswith(".lock")):
            left.append(str(p.relative_to(cd.cache)))
    import cloudpickle as cp

    dirs = []
    for dp in sorted(cd.cache.iterdir()):
        if not dp.is_dir() or dp.name == "pkl_files":
            continue
        name = None
        try:
            with open(dp / "_job.pklz", "rb") as fp:
                name = cp.load(fp).name
        except Exception:
            pass
        dirs.append(dict(name=name, dir=dp.name, job=(dp / "_job.pklz").exists(),
                         result=(dp / "_result.pklz").exists()))
    return dict(leftovers=left, dirs=dirs, bodies=cd.body_counts(), hooks=cd.hook_counts())


def tag_job(tag):
    return "main" if tag in ("P", "S") else tag


def run_regions():
    """line numbers of the structural statements of Job.run / Job.run_async (L1; None if the source
    cannot be matched)"""
    from pydra.engine.job import Job

    out = {}
    for fn in (Job.run, getattr(Job, "run_async", None)):
        if fn is None:
            continue
        try:
            src, first = inspect.getsourcelines(fn)
        except (OSError, TypeError):
            return None
        marks = {}
        for i, ln in enumerate(src):
            s = ln.strip()
            if s.startswith("self._populate_filesystem()") and "populate" not in marks:
                marks["populate"] = first + i
            elif s == "try:" and "populate" in marks and "try" not in marks:
                marks["try"] = first + i
            elif s == "finally:" and "try" in marks and "finally" not in marks:
                marks["finally"] = first + i
            elif s.startswith("os.chdir(cwd)") and "finally" in marks and "chdir_back" not in marks:
                marks["chdir_back"] = first + i
        if set(marks) != {"populate", "try", "finally", "chdir_back"}:
            return None
        out[fn.__code__.co_qualname] = marks
    return out


def region_of(trace, k, regions):
    """region of the innermost active Job.run/run_async at event k:
    before | setup | try | finally | after | unknown"""
    if regions is None:
        return "unknown"
    for i in range(min(k, len(trace) - 1), -1, -1):
        fn, line = trace[i][2], trace[i][3]
        if fn in regions:
            m = regions[fn]
            if line < m["populate"]:
                # the `with lock:` line is revisited when the block is left: that is after the finally
                return "before"
            if line <= m["try"]:
                return "setup"
            if line < m["finally"]:
                return "try"
            if line <= m["chdir_back"]:
                return "finally"
            return "after"
    return "unknown"


def judge(kind, obs, res, region, fired=None, raising_hook=None, expect_exec=None):
    """the C35 oracle.  `expect_exec` (histories): {job: executions expected in this call}."""
    recs = []
    issues = []
    if res["cwd_after"] != res["cwd_before"]:
        issues.append("cwd-not-restored")
    if any(n.endswith("_info.json") for n in obs["leftovers"]):
        issues.append("info-file-left")
    if any(n.endswith(".lock") for n in obs["leftovers"]):
        issues.append("lock-file-left")
    in_final_save = bool(fired) and (
        fired["function"] in ("save", "copyfile_workflow") or "save(" in (fired.get("source") or "")
    )
    if expect_exec is not None or (fired is None and region == "none"):
        # history / un-faulted run: every call has returned, so every job directory must be complete
        if any(not (e["job"] and e["result"]) for e in obs["dirs"]):
            issues.append("job-dir-incomplete-after-body" if sum(obs["bodies"].values())
                          else "job-dir-incomplete-after-attempt-without-body")
    else:
        for tag, n in obs["bodies"].items():
            job = tag_job(tag)
            ok = any(e["name"] == job and e["job"] and e["result"] for e in obs["dirs"])
            if n >= 1 and not ok:
                if in_final_save and region == "finally":
                    LAST["undefined"] = True
                else:
                    issues.append("job-dir-incomplete-after-body")
    # the step that is itself the injected failure cannot be expected to have had its effect
    src = (fired or {}).get("source") or ""
    if "_info.json" in src and ".unlink(" in src and "info-file-left" in issues:
        issues.remove("info-file-left")
        LAST["undefined_cleanup_step"] = True
    if src.startswith("os.chdir(cwd)") and "cwd-not-restored" in issues:
        issues.remove("cwd-not-restored")
        LAST["undefined_cleanup_step"] = True
    detail = dict(region=region, fired=fired, raised=res.get("raised"), leftovers=obs["leftovers"],
                  dirs=obs["dirs"], bodies=obs["bodies"], hooks=obs["hooks"],
                  cwd=[res["cwd_before"], res["cwd_after"]])
    cleanup_issues = [i for i in issues if i != "lock-file-left"]
    if cleanup_issues and region in ("setup", "finally"):
        # defect model: setup steps run outside the try block / the steps of the finally block are
        # not protected from one another -> what follows the failing step is skipped
        where = {"setup": "exception-in-setup-before-try", "finally": "exception-inside-finally"}[region]
        recs.append(dict(signature=f"cleanup-skipped:{where}", observed=cleanup_issues,
                         expected="cwd restored, info file removed, result saved", detail=detail))
    else:
        for i in cleanup_issues:
            recs.append(dict(signature=f"{i}:region-{region}", observed=i, expected="clean",
                             detail=detail))
    if "lock-file-left" in issues:
        recs.append(dict(signature=f"lock-file-left:region-{region}", observed=obs["leftovers"],
                         expected="no lock file", detail=detail))
    # hooks
    hook_line = None
    if fired and "self.hooks." in (fired.get("source") or ""):
        hook_line = fired["source"].split("self.hooks.")[1].split("(")[0]
    jobs = sorted({tag_job(t) for t in G.KINDS[kind]["tags"]})
    exempt_used = False
    for job in jobs:
        tags = [t for t in G.KINDS[kind]["tags"] if tag_job(t) == job]
        body = sum(obs["bodies"].get(t, 0) for t in tags)
        if expect_exec is not None and body != expect_exec.get(job, 0):
            recs.append(dict(signature="executions-differ-from-cache-model",
                             observed={job: body}, expected={job: expect_exec.get(job, 0)},
                             detail=detail))
        for h in ("pre_run_task", "post_run_task"):
            n = obs["hooks"].get(f"{h} {job}", 0)
            if body == 0:
                attempt = expect_exec is not None and job in expect_exec   # staging failed: open
                if n > 1 or (expect_exec is not None and n != 0 and not attempt):
                    recs.append(dict(signature=f"hook-called-without-execution:{h}", observed={job: n},
                                     expected=0 if expect_exec is not None else "<= 1", detail=detail))
                elif n == 1:
                    LAST["aborted_attempt_with_hook"] = True
                continue
            if n == body:
                continue
            if h == hook_line and n == body - 1 and not exempt_used:
                exempt_used = True  # the injection stands for this very call
                continue
            recs.append(dict(signature=f"hook-count-differs-from-executions:{h}:region-{region}",
                             observed={job: n}, expected={job: body}, detail=detail))
    return recs


# ------------------------------------------------------------------------------- fault cases
def _spec(kind, hooks="count"):
    return {"kind": kind, "x": X, "hooks": hooks}


def dry_run(kind, d: Path):
    cd = G.CaseDir(d)

    def go():
        with LF.Session(d / "mon"):
            r = G.submit(_spec(kind), cd)
        r["obs"] = observe(cd)
        return r

    r = LF.run_forked(go, 900.0, d / "dry.json", d / "dry.log")
    if r["status"] != "ok":
        raise HarnessError(f"dry run of kind {kind} failed: {r}")
    DRY_WALL[kind] = max(DRY_WALL.get(kind, 0.0), r["wall_s"])
    recs = judge(kind, r["result"]["obs"], r["result"], "none")
    return LF.read_trace(d / "mon"), recs, r["result"]


def _source_line(fn_qual, line):
    codes, _ = LF.target_codes()
    for c, name in codes.items():
        if name == fn_qual:
            try:
                import linecache

                return linecache.getline(c.co_filename, line).strip()
            except Exception:
                return ""
    return ""


def non_statement(src: str) -> bool:
    """`try:` gets a line event of its own (a NOP *in front of* the protected range): an exception
    'raised by the try keyword' is not something a program can do and is, by construction, outside
    the try/finally it introduces - such points are not exception points."""
    return src.rstrip().rstrip(":").strip() in ("try", "else", "finally")


def resolve(case):
    """cases may name the point by source text ("at_source") instead of by event index"""
    if "event_index" in case:
        return case
    dd = scratchdir.new("c35loc")
    try:
        trace, _, _ = dry_run(case["kind"], dd)
    finally:
        scratchdir.rm(dd)
    row = LF.locate(trace, case["at_source"])
    if row is None:
        return None
    return dict(case, event_index=row[0], expect=[row[2], row[3]])


def check_fault(case):
    case = resolve(case)
    if case is None:
        LAST["outcome"] = "point_not_found"
        return []
    kind, k = case["kind"], case["event_index"]
    exp = case.get("expect")
    if exp and non_statement(_source_line(exp[0], exp[1])):
        LAST["outcome"] = "skipped_non_statement"
        return []
    d = scratchdir.new("c35")
    try:
        cd = G.CaseDir(d)

        def go():
            sess = LF.Session(d / "mon", fault=(k, "raise"), trace=True).install()
            try:
                r = G.submit(_spec(kind), cd)
            finally:
                sess.uninstall()
            r["obs"] = observe(cd)
            return r

        r = LF.run_forked(go, timeout_for(kind), d / "run.json", d / "run.log")
        if r["status"] == "timeout":
            LAST["outcome"] = f"timeout_inconclusive:{kind}"
            return []
        if r["status"] != "ok":
            raise HarnessError(f"C35 child ended {r['status']}: {(d / 'run.log').read_text()[-1500:]}")
        res = r["result"]
        fired = LF.read_fired(d / "mon")
        LAST["fired"] = fired is not None
        trace = LF.read_trace(d / "mon")
        if fired is None:
            LAST["outcome"] = "not_fired"
            return judge(kind, res["obs"], res, "none")
        exp = case.get("expect")
        LAST["mismatch"] = bool(exp) and [fired["function"], fired["line"]] != list(exp)
        fired["source"] = _source_line(fired["function"], fired["line"])
        if non_statement(fired["source"]):
            LAST.update(outcome="skipped_non_statement", fired=False)
            return []
        region = region_of(trace, k, run_regions())
        LAST.update(outcome="fired", region=region, where=fired["function"],
                    raised=(res.get("raised") or {}).get("type"))
        return judge(kind, res["obs"], res, region, fired=fired)
    finally:
        scratchdir.rm(d)


HOOK_REGION = {"pre_run": "before", "pre_run_task": "setup", "post_run_task": "finally",
               "post_run": "after"}


def check_hook(case):
    kind, hook = case["kind"], case["hook"]
    d = scratchdir.new("c35h")
    try:
        cd = G.CaseDir(d)

        def go():
            r = G.submit(_spec(kind, f"raise:{hook}"), cd)
            r["obs"] = observe(cd)
            return r

        r = LF.run_forked(go, timeout_for(kind), d / "run.json", d / "run.log")
        if r["status"] == "timeout":
            LAST["outcome"] = f"timeout_inconclusive:{kind}"
            return []
        if r["status"] != "ok":
            raise HarnessError(f"C35 child ended {r['status']}: {(d / 'run.log').read_text()[-1500:]}")
        res = r["result"]
        jobs = {tag_job(t) for t in G.KINDS[kind]["tags"]}
        LAST["fired"] = any(res["obs"]["hooks"].get(f"{hook} {j}", 0) for j in jobs)
        LAST.update(outcome="hook_raised" if LAST["fired"] else "hook_not_reached",
                    region=HOOK_REGION[hook], raised=(res.get("raised") or {}).get("type"))
        return judge(kind, res["obs"], res, HOOK_REGION[hook])
    finally:
        scratchdir.rm(d)


# ------------------------------------------------------------------------------- histories
HIST_KINDS = ["python", "python_fail", "shell", "shell_fail", "wf_debug", "python_cf", "wf_cf",
              "python_fail_cf"] + STAGE_KINDS


def model_step(cache: set, kind, x, rerun):
    """reference cache model -> {job: executions expected}, updates `cache` (successful job keys)"""
    k = G.KINDS[kind]
    t = k["task"]
    if t in ("FInc", "ShOk"):
        key = (t, x)
        if key in cache and not rerun:
            return {}
        cache.add(key)
        return {"main": 1}
    if t in ("FBoom", "ShFail"):
        return {"main": 1}  # failures are never cached as success
    if t == "FStage":
        if k["stage"] != "ok":
            return {"main": 0}  # an attempt (never a cache hit) that fails before its body
        key = (t, x)
        if key in cache and not rerun:
            return {}
        cache.add(key)
        return {"main": 1}
    if t == "FWf":
        if ("W", x) in cache and not rerun:
            return {}
        out = {}
        for job, key in (("A", ("A", x)), ("B", ("B", x + 1))):
            if key in cache and not rerun:  # propagate_rerun defaults to True
                continue
            cache.add(key)
            out[job] = 1
        cache.add(("W", x))
        return out
    raise HarnessError(kind)


def check_history(case):
    ops = case["ops"]
    d = scratchdir.new("c35s")
    try:
        cd = G.CaseDir(d)

        def go():
            out = []
            for op in ops:
                spec = {"kind": op["kind"], "x": op["x"], "hooks": "count"}
                r = G.submit(spec, cd, rerun=bool(op.get("rerun")))
                r["obs"] = observe(cd)
                out.append(r)
            return out

        r = LF.run_forked(go, RUN_TIMEOUT * 2, d / "run.json", d / "run.log")
        if r["status"] == "timeout":
            LAST["outcome"] = "timeout_inconclusive"
            return []
        if r["status"] != "ok":
            raise HarnessError(f"C35 child ended {r['status']}: {(d / 'run.log').read_text()[-1500:]}")
        cache: set = set()
        prev_b: dict = {}
        prev_h: dict = {}
        recs = []
        hits = execs = 0
        for i, (op, res) in enumerate(zip(ops, r["result"])):
            exp = model_step(cache, op["kind"], op["x"], bool(op.get("rerun")))
            execs += bool(exp)
            hits += not exp
            obs = res["obs"]
            delta = dict(obs)
            delta["bodies"] = {t: n - prev_b.get(t, 0) for t, n in obs["bodies"].items()
                               if n - prev_b.get(t, 0)}
            delta["hooks"] = {t: n - prev_h.get(t, 0) for t, n in obs["hooks"].items()
                              if n - prev_h.get(t, 0)}
            prev_b, prev_h = obs["bodies"], obs["hooks"]
            # only the jobs of this op's kind are judged; directories are the cumulative state
            step = judge(op["kind"], delta, res, f"history-step", expect_exec=exp)
            for s in step:
                s["detail"]["step"] = i
                s["detail"]["op"] = op
            recs += step
            if recs:
                break
        LAST.update(outcome="history", fired=bool(hits and execs), hits=hits, execs=execs)
        return recs
    finally:
        scratchdir.rm(d)


def check_case(case):
    LAST.clear()
    mode = case["mode"]
    if mode == "raise":
        return check_fault(case)
    if mode == "hook":
        return check_hook(case)
    if mode == "history":
        return check_history(case)
    raise HarnessError(f"unknown mode {mode}")


# ------------------------------------------------------------------------------- exploration
def run(sh):
    kinds = QUICK_KINDS if sh.quick else THOROUGH_KINDS
    run_histories(sh, sh.budget(32, 400), "hist1")  # first, so that a short time budget reaches them
    base = scratchdir.new("c35dry")
    cases = []
    for kind in kinds:
        trace, recs, _ = dry_run(kind, base / kind)
        if recs:
            # an un-faulted run already violates the invariants: report it as a case of its own
            sh.handle(dict(kind=kind, mode="raise", event_index=10 ** 6), recs)
        if sh.index == 0:
            sh.count(f"trace_events:{kind}", len(trace))
        step = 3 if kind == "wf_cf" else 1   # points inside pool workers mostly end in C18's hang
        for row in trace:
            if non_statement(_source_line(row[2], row[3])):
                sh.count("skipped_non_statement_points(try:)")
                continue
            if row[0] % step == sh.base_seed % step:
                cases.append(dict(kind=kind, mode="raise", event_index=row[0], expect=[row[2], row[3]]))
    for kind in THOROUGH_KINDS:
        if sh.quick and kind == "wf_cf":
            continue  # a node hook raising under cf never returns on this tree (C18): thorough only
        for hook in ("pre_run", "pre_run_task", "post_run_task", "post_run"):
            cases.append(dict(kind=kind, mode="hook", hook=hook))
    # un-faulted reference run of every kind that is not enumerated above (one-step history)
    for kind in hist_kinds():
        if kind not in kinds:
            cases.append(dict(mode="history", kind=kind, ops=[dict(kind=kind, x=X, rerun=False)]))
    scratchdir.rm(base)
    if run_regions() is None:
        sh.note("L1 unavailable: Job.run structure not recognised; regions reported as 'unknown'")

    from props.c12 import interleave

    cases = interleave(cases)
    done_all = True
    for i, case in enumerate(cases):
        if i % sh.n != sh.index:
            continue
        if sh.out_of_time():
            done_all = False
            break
        recs = check_case(case)
        info = dict(LAST)
        nontrivial = bool(info.get("fired")) and not info.get("mismatch")
        if case["mode"] == "history":
            nontrivial = True       # a reference run: the kind ran un-faulted and was judged
        labels = [f"mode:{case['mode']}", f"kind:{case['kind']}", f"outcome:{info.get('outcome')}",
                  f"region:{info.get('region')}"]
        if info.get("where"):
            labels.append(f"at:{info['where']}")
        if info.get("mismatch"):
            labels.append("trace_mismatch")
        if info.get("undefined"):
            labels.append("undefined_by_statement:result-after-failed-final-save")
        if info.get("undefined_cleanup_step"):
            labels.append("undefined_by_statement:effect-of-the-clean-up-step-that-failed")
        if info.get("aborted_attempt_with_hook"):
            labels.append("undefined_by_statement:hook-called-for-attempt-aborted-before-body")
        sh.record_case(case, nontrivial, labels=labels)
        sh.handle(case, recs, raise_unattributed=False)
    if done_all:
        sh.count("exhaustive_subspaces_completed")

    run_histories(sh, sh.budget(64, 1200), "hist2")


def hist_kinds(sh=None):
    """HIST_KINDS, without the other-device staging failure where the scratch area offers none"""
    if G.other_device_file(scratchdir.root()) is not None:
        return list(HIST_KINDS)
    if sh is not None:
        sh.note("no file on another device than the scratch area: kind stagefail_mount left out")
    return [k for k in HIST_KINDS if k != "stagefail_mount"]


def run_histories(sh, budget, tag):
    op = st.fixed_dictionaries(dict(
        kind=st.sampled_from(hist_kinds(sh)),
        x=st.integers(min_value=0, max_value=2),
        rerun=st.sampled_from([False, False, False, True]),
    ))
    strat = st.lists(op, min_size=2, max_size=6)

    def body(ops):
        case = dict(mode="history", ops=ops)
        recs = check_case(case)
        info = dict(LAST)
        labels = ["mode:history", f"outcome:{info.get('outcome')}",
                  "history_with_hit_and_execution" if info.get("fired") else "history_one_sided"]
        stages = {G.KINDS[o["kind"]].get("stage") for o in ops} - {None}
        if stages - {"ok"}:
            labels.append("history_with_staging_failure")
        if "ok" in stages:
            labels.append("history_with_staged_files")
        sh.record_case(case, bool(info.get("fired")), labels=labels)
        sh.count("history_cache_hits", info.get("hits", 0))
        sh.count("history_executions", info.get("execs", 0))
        sh.handle(case, recs, raise_unattributed=True)

    sh.given(strat, body, budget, tag=tag)
