"""C16  The max_concurrent limit is never exceeded.

Workflow programs with many independent / chained gated jobs run under the schedule-owning worker
with `max_concurrent=k`; at every quiescent point the number of task bodies that are blocked
inside their body IS the number of jobs executing at that instant (exact, not timing based).
"""
from __future__ import annotations

from hypothesis import strategies as st

from vlib import scratchdir, schedcase
from vlib.gen import workflows as G
from vlib.harness import short
from vlib.ref import workflow as RW

ID = "C16"
LEVEL = "exploration"
DESIGN_REF = "5/C16, 4.2"
TECHNIQUE = "property-based testing over generated schedules: exact concurrency count at quiescent points"
WALL = {"quick": 120, "thorough": 1500}
RULE = (
    "cases = (workflow program without nested workflows having >=2 jobs, limit k in 1..number of "
    "jobs, completion-order choice list) under the schedule-owning worker. Non-trivial = the "
    "program has more jobs that could run at once than k (some antichain of the job dependence "
    "order is larger than k); distinct = full case."
)
ASSUMPTIONS = [
    "concurrency is observed at task-body granularity: a job counts as executing while its body "
    "is blocked inside the gate",
    "when the harness could not establish quiescence (counted) the observed number is a lower bound",
    "nested workflows are excluded (the statement speaks of the jobs of one workflow)",
]


def width(prog):
    """size of the largest set of jobs with no dependence among them reachable at one time
    (cheap lower bound: the largest number of jobs in one 'level' of the dependence order)"""
    jobs = schedcase.expected_jobs(prog)
    level = {}

    def lv(t):
        if t not in level:
            level[t] = 1 + max([lv(d) for d in jobs.get(t, ()) if d in jobs] or [0])
        return level[t]

    counts = {}
    for t in jobs:
        counts[lv(t)] = counts.get(lv(t), 0) + 1
    return max(counts.values()) if counts else 0


def check_case(case):
    d = scratchdir.new("c16")
    try:
        obs = schedcase.run_case(dict(case, worker="sched"), d)
        if obs.timed_out and obs.max_blocked <= case["k"]:  # inconclusive (C18 owns termination)
            case["_obs"] = dict(timed_out=True)
            return []
        case["_obs"] = dict(max_blocked=obs.max_blocked, timeouts=obs.settle_timeouts)
        if obs.max_blocked > case["k"]:
            return [dict(signature="limit-exceeded",
                         observed=dict(k=case["k"], executing_at_once=obs.max_blocked,
                                       blocked_counts=[r[1] for r in obs.releases][:40]),
                         expected=f"<= {case['k']} jobs executing at any instant",
                         detail=obs.exception)]
        return []
    finally:
        scratchdir.rm(d)


@st.composite
def cases(draw):
    prog = draw(G.programs(max_nodes=4, allow_nested=False, allow_wf_split=False, allow_inner=False))
    try:
        n = len(schedcase.expected_jobs(prog))
    except RW.Undefined:
        return None
    if n < 2:
        return None
    return dict(prog=prog, k=draw(st.integers(1, min(n, 10))),
                choices=draw(st.lists(st.integers(0, 7), max_size=40)))


def run(sh):
    def body(case):
        if case is None:
            sh.count("discarded_fewer_than_two_jobs")
            return
        w = width(case["prog"])
        sh.run_case(case, nontrivial=w > case["k"], labels=[f"k_{min(case['k'], 5)}{'+' if case['k'] > 5 else ''}",
                                                            "width_gt_k" if w > case["k"] else "width_le_k"],
                    raise_unattributed=True)
        obs = case.pop("_obs", {})
        if obs.get("timed_out"):
            sh.count("inconclusive_timed_out")
        if obs.get("timeouts"):
            sh.count("settle_timeouts", obs["timeouts"])

    sh.given(cases(), body, sh.budget(64, 2000), tag="limit")
