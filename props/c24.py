"""C24  The displayed command line is a faithful shell rendering of the executed argv.

C22 definitions (all field kinds, positions, list executables, append_args) with values from the
mild (words and blanks), safe (shell metacharacters) and hostile (C23) alphabets; hostile strings
also go into list/tuple executables and append_args, which reach argv verbatim; one run gives those
verbatim arguments a dense quoting alphabet (' " backslash blank $ ` !) over safe field values.
Oracle: shlex.split(task.cmdline, posix=True) == the argv handed to
`pydra.environments.base.execute` when the same task is run (round trip; no reference model).
Defect model for attribution: "cmdline is the executed argv joined by blanks where only arguments
containing a space are wrapped in single quotes and nothing is escaped".
"""
from __future__ import annotations

import shlex

from hypothesis import strategies as st

from vlib import scratchdir
from vlib.gen import shellspec as G
from vlib.harness import exception_signature, short
from vlib.inject import shellargv as OBS
from vlib.ref import argv as R

ID = "C24"
LEVEL = "exploration"
DESIGN_REF = "5/C24, 3.5"
TECHNIQUE = "round trip shlex.split(cmdline) vs recorded argv (defect model: naive quoting)"
RULE = (
    "cases = (C22 definition of 1-5 fields incl. positions and list executables, value assignment "
    "and append_args drawn from one alphabet: mild [word chars, space], safe [metacharacters "
    "without blanks/quotes/backslash, unicode letters, non-POSIX whitespace such as U+00A0 U+3000 "
    "FF] or hostile [space, tab, quotes, backslash, metacharacters, unicode]; executable parts and "
    "append_args use the same alphabet; a fourth run draws the field values from the safe alphabet "
    "(so that the command is always executed) and the arguments that reach argv verbatim -- "
    "executable parts, executable given at instantiation, append_args -- from the quoting "
    "alphabet [a b ' \\ \" blank $ ` !, length 1-5], dense in the combinations quoting rules "
    "distinguish; multi-part executables are given as list or tuple, definitions in the functional "
    "or the class form). Non-trivial = a non-word character occurs in a string that reaches the "
    "command and the task executed an argv; distinct = canonical case."
)
ASSUMPTIONS = [
    "POSIX word splitting is taken from the standard library (shlex.split, posix=True); expansion "
    "($x, *, ~) by a real shell is not part of the statement and not checked",
    "cases in which running the task raises (no argv executed) are vacuous and counted "
    "(no_argv_executed); cmdline raising while the run succeeds is a violation",
    "cmdline is read before the run, on the same task object, in the shard's working directory",
    "empty strings, braces, brackets, NUL and newline are not generated",
]
SHARDS = {"quick": 16, "thorough": 16}
SIG_NAIVE = "cmdline-quotes-only-arguments-with-spaces-and-escapes-nothing"
LAST = {}  # outcome of the most recent check_case, read by run() for the counters only


def check_case(case):
    d = scratchdir.new("c24")
    LAST.clear()
    try:
        spec = case["spec"]
        try:
            T = G.build(spec)
        except ValueError as e:
            if "overlapping positions" in str(e):
                LAST["outcome"] = "definition_rejected_overlap"
                return []
            return [dict(signature=exception_signature(e, "define-raises"), observed=short(e),
                         expected="a task class")]
        try:
            task = G.make_task(case, d / "in", T)
        except Exception as e:  # noqa
            return [dict(signature=exception_signature(e, "construct-raises"), observed=short(e),
                         expected="a task")]
        try:
            cmdline, cexc = task.cmdline, None
        except Exception as e:  # noqa
            cmdline, cexc = None, e
        try:
            got, rexc = OBS.recorded(task, d / "cache"), None
        except OBS.HarnessError:
            raise
        except Exception as e:  # noqa
            got, rexc = None, e
        if rexc is not None:
            LAST["outcome"] = "no_argv_executed:" + type(rexc).__name__ + (
                "+cmdline_raises_too" if cexc is not None else "")
            return []  # nothing was executed: vacuous (counted by run())
        if cexc is not None:
            return [dict(signature=exception_signature(cexc, "cmdline-raises-but-task-runs"),
                         observed=short(cexc), expected=got)]
        if not isinstance(cmdline, str):
            return [dict(signature="cmdline-not-a-string", observed=repr(cmdline), expected=got)]
        try:
            back = shlex.split(cmdline, posix=True)
        except ValueError as e:
            back = f"ValueError: {e}"
        if back == got:
            LAST["outcome"] = "held"
            LAST["quoted"] = any(" " in a for a in got)
            return []
        if all(isinstance(a, str) for a in got) and cmdline == R.naive_cmdline(got):
            sig = SIG_NAIVE
            detail = "cmdline equals the naive rendering of the executed argv"
        else:
            sig = "cmdline-is-not-a-rendering-of-the-executed-argv"
            detail = "cmdline differs from the naive rendering of the executed argv as well"
        return [dict(signature=sig, observed=dict(cmdline=cmdline, split=back), expected=got,
                     detail=detail)]
    finally:
        scratchdir.rm(d)


@st.composite
def c24_case(draw, alpha, verbatim=None):
    """`verbatim`: alphabet for the strings that reach argv without passing through an argstr
    (executable parts, append_args); default: the alphabet of the field values"""
    valpha = alpha if verbatim is None else verbatim
    exes = ["tool", ["tool", "sub"]]
    e = draw(st.lists(G.text(valpha), min_size=1, max_size=2))
    if not any(x.startswith(("-", "<")) for x in e):  # the template parser owns '-' and '<'
        exes.append(["tool"] + e)
    case = draw(G.cases(alpha, executables=tuple(exes), verbatim=verbatim,
                        styles=("function", "function", "class"), exe_seqs=("list", "tuple")))
    case["alphabet"] = alpha["name"] + ("" if verbatim is None else "+" + verbatim["name"])
    return case


def strings_of(case):
    spec = G.effective_spec(case)
    out = list(spec["executable"]) if isinstance(spec["executable"], list) else [spec["executable"]]
    for f in spec["fields"]:
        v = case["values"].get(f["name"], f.get("default"))
        if f["type"] in ("str", "file", "list[str]", "multi[str]") and v is not None \
                and f.get("argstr") is not None:
            out += v if isinstance(v, list) else [v]
    return out + list(case.get("append_args") or [])


def verbatim_of(case):
    """the strings that reach argv as they are: executable parts and append_args"""
    exe = G.effective_spec(case)["executable"]
    return (list(exe) if isinstance(exe, list) else [exe]) + list(case.get("append_args") or [])


def run(sh):
    for alpha, verbatim, (q, t) in ((G.MILD, None, (600, 13000)), (G.SAFE, None, (600, 13000)),
                                    (G.HOSTILE, None, (700, 18000)),
                                    (G.SAFE, G.QUOTING, (500, 12000))):
        def body(case):
            strs = strings_of(case)
            special = G.has_special(strs)
            labels = [f"alphabet_{case['alphabet']}"]
            exe = G.effective_spec(case)["executable"]
            if G.has_special(exe if isinstance(exe, list) else [exe]):
                labels.append("special_chars_in_executable")
            if case.get("executable_override") is not None:
                labels.append("executable_given_at_instantiation")
            if G.has_special(case.get("append_args") or []):
                labels.append("special_chars_in_append_args")
            if any(" " in s for s in strs):
                labels.append("has_space")
            if any("'" in s for s in strs):
                labels.append("has_single_quote")
            form = G.executable_form(case)
            if form != "str":
                labels.append("executable_" + form)
            if case["spec"].get("style") == "class":
                labels.append("definition_style_class")
            if G.has_uws(strs):
                labels.append("has_nonposix_whitespace")
            # classes of verbatim arguments by what a quoting rule has to get right
            for a in verbatim_of(case):
                kinds = [k for k, c in (("squote", "'"), ("dquote", '"'), ("backslash", "\\"),
                                        ("blank", " "), ("dollar_backtick_bang", "$`!"))
                         if any(ch in a for ch in c)]
                labels += [f"verbatim_arg_mixes_{k}+{m}" for i, k in enumerate(kinds)
                           for m in kinds[i + 1:]]
                if a.endswith("\\"):
                    labels.append("verbatim_arg_ends_with_backslash")
                if "\\\\" in a:
                    labels.append("verbatim_arg_has_doubled_backslash")
            labels = sorted(set(labels))
            sh.run_case(case, nontrivial=special, labels=labels, raise_unattributed=True)
            if LAST.get("outcome"):
                sh.count(LAST["outcome"])
                if LAST["outcome"] == "held" and special:
                    sh.count("held_with_special_chars")
                if LAST.get("quoted"):
                    sh.count("held_with_quoted_argument")

        sh.given(c24_case(alpha, verbatim), body, sh.budget(q, t),
                 tag=alpha["name"] + ("" if verbatim is None else "+" + verbatim["name"]))
