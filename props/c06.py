"""C06  A cache hit returns what executing the task now would return.

A case is a family of 2-3 deterministic task variants that differ in exactly one semantically
relevant aspect, plus a submission history (<= 6 submissions) into ONE cache root.
Oracle (observational, no checksums involved): every submission returns exactly what the same
task returns in a FRESH cache root.  Families:
  pyfunc  python tasks built from source: body constant / closure cell / referenced global /
          parameter default differs
  shell   argv-echo shell tasks: executable / argstr / position / separator / formatter differs
  input   one task, `Any` input differing by a one-aspect mutation of the value grammar
"""
from __future__ import annotations

import sys

from hypothesis import strategies as st

from vlib import scratchdir
from vlib.gen import values as V
from vlib.harness import exception_signature, short

ID = "C06"
LEVEL = "exploration"
DESIGN_REF = "5/C06"
RULE = (
    "cases = (family, base variant, 1-2 one-aspect mutants, submission history of length 2..6 over "
    "the variants into one cache root); every submission is compared with the same task run in a "
    "fresh root. Non-trivial = some variant is submitted after a *different* sibling already ran in "
    "the shared root (so that a wrong cache hit is possible); distinct = (family, variants, history)."
)
ASSUMPTIONS = [
    "tasks are deterministic by construction (pure functions / argv echo)",
    "outputs are compared by a type-sensitive canonical form (repr + type names; arrays by dtype, "
    "shape and bytes)",
    "debug worker",
]
TECHNIQUE = "property-based testing: differential (shared cache root vs fresh cache root)"

ECHO = "import sys,json;print(json.dumps(sys.argv[1:]))"
ECHO2 = "import sys,json;print(json.dumps(sys.argv[1:][::-1]))"


# ------------------------------------------------------------------ canonical outputs
def canon_out(x):
    try:
        import numpy as np

        if isinstance(x, np.ndarray):
            return ["ndarray", str(x.dtype), list(x.shape), x.tobytes(order="C").hex()]
    except ImportError:
        pass
    if isinstance(x, (list, tuple)):
        return [type(x).__name__, [canon_out(i) for i in x]]
    if isinstance(x, slice):
        return ["slice", [canon_out(x.start), canon_out(x.stop), canon_out(x.step)]]
    if isinstance(x, dict):
        return ["dict", sorted((repr(k), canon_out(v)) for k, v in x.items())]
    if isinstance(x, (set, frozenset)):
        return [type(x).__name__, sorted(repr(canon_out(i)) for i in x)]
    if callable(x) and hasattr(x, "__code__"):
        return ["func", x(0)]
    if hasattr(x, "__dict__") and type(x).__module__.startswith("vlib"):
        return [type(x).__name__, sorted((k, canon_out(v)) for k, v in vars(x).items())]
    if hasattr(x, "__attrs_attrs__"):
        import attrs

        return [type(x).__name__, sorted((k, canon_out(v)) for k, v in attrs.asdict(x, recurse=False).items())]
    return [type(x).__name__, repr(x)]


# ------------------------------------------------------------------ variants -> tasks
def make_task(family, variant, d):
    """-> (task instance, function extracting the comparable output)"""
    if family == "pyfunc":
        from pydra.compose import python

        fn = V.build_func(variant["template"], variant["params"], d / "src")
        Task = python.define(fn)
        return Task(x=variant["x"]), lambda o: canon_out(o.out)
    if family == "input":
        from vlib.tasks import Ident

        return Ident(a=V.build(variant["value"], d / "vals")), lambda o: canon_out(o.out)
    if family == "shell":
        from pydra.compose import shell

        inputs = {}
        for f in variant["fields"]:
            kw = dict(argstr=f["argstr"], position=f["position"])
            if f["type"] == "list":
                kw.update(type=list[str], sep=f["sep"])
            else:
                kw.update(type=str)
            if f.get("formatter") is not None:
                kw["formatter"] = make_formatter(f["name"], f["formatter"], d)
                kw["argstr"] = None if f["formatter"].get("no_argstr") else f["argstr"]
            inputs[f["name"]] = shell.arg(**kw)
        sdir = scratchdir.root() / "c06scripts"
        sdir.mkdir(exist_ok=True)
        script = sdir / f"echo{int(bool(variant['exe']))}.py"
        if not script.exists():
            script.write_text((ECHO2 if variant["exe"] else ECHO) + "\n")
        exe = [sys.executable, str(script)]
        Task = shell.define(exe, inputs=inputs, name="EchoArgv")
        return Task(**variant["values"]), lambda o: ["stdout", o.stdout.strip()]
    raise ValueError(family)


def make_formatter(fname, spec, d):
    """formatter source with a body constant or a closure-captured prefix"""
    if spec["kind"] == "body":
        src = f"def make(p):\n    def fmt({fname}):\n        return '{spec['prefix']}' + str({fname})\n    return fmt\n"
    else:
        src = f"def make(p):\n    def fmt({fname}):\n        return p + str({fname})\n    return fmt\n"
    (d / "src").mkdir(parents=True, exist_ok=True)
    V._func_counter[0] += 1
    path = d / "src" / f"fmt_{V._func_counter[0]}.py"
    path.write_text(src)
    ns = {"__name__": "verif_dyn_fmt"}
    exec(compile(src, str(path), "exec"), ns)
    return ns["make"](spec["prefix"])


def run_in(task, root):
    return task(cache_root=root, worker="debug")


def check_case(case):
    family, variants, history = case["family"], case["variants"], case["history"]
    d = scratchdir.new("c06")
    try:
        # reference: each variant in its own fresh root
        ref = []
        for i, v in enumerate(variants):
            try:
                t, ext = make_task(family, v, d / f"mk{i}")
                ref.append(("ok", ext(run_in(t, _mk(d / f"fresh{i}")))))
            except Exception as e:  # noqa
                if family != "input":
                    from vlib.harness import HarnessError

                    raise HarnessError(f"reference run of a {family} variant failed: {short(e)}") from e
                ref.append(("raised", type(e).__name__))
        shared = _mk(d / "shared")
        recs = []
        seen = set()
        for step, i in enumerate(history):
            try:
                t, ext = make_task(family, variants[i], d / f"h{step}")
                got = ("ok", ext(run_in(t, shared)))
            except Exception as e:  # noqa
                got = ("raised", type(e).__name__)
            if got != ref[i]:
                stale = [j for j in seen if j != i and ref[j] == got]
                if stale:
                    sig = f"stale-cache-hit:{family}:{_diff_label(case, i, stale[0])}"
                else:
                    sig = f"differs-from-fresh-run:{family}"
                recs.append(dict(signature=sig, observed=dict(step=step, variant=i, got=got),
                                 expected=ref[i],
                                 detail=dict(served_from_variant=stale[:1])))
                break
            seen.add(i)
        return recs
    finally:
        scratchdir.rm(d)


def _diff_label(case, i, j):
    """label of the mutation that separates variants i and j (variant 0 is the base)"""
    labs = case["labels"]
    if i == 0 or j == 0:
        return labs[max(i, j) - 1]
    return "+".join(sorted({labs[i - 1], labs[j - 1]}))


def _mk(p):
    p.mkdir(parents=True, exist_ok=True)
    return p


# ------------------------------------------------------------------ generators
@st.composite
def pyfunc_family(draw):
    tpl = draw(st.sampled_from(["closure", "const", "global", "stmt", "stmt1", "mls"]))
    base = dict(template=tpl, params=dict(k=draw(st.integers(0, 3)), d=draw(st.integers(0, 2)),
                                          g=draw(st.integers(0, 3))), x=draw(st.integers(0, 5)))
    rel = {"closure": "k", "const": "k", "global": "g", "stmt": "k", "stmt1": "k", "mls": "k"}[tpl]
    lab = {"closure": "func-closure", "const": "func-body", "global": "func-global", "stmt": "func-body-stmt",
           "stmt1": "func-body-first-stmt", "mls": "func-body"}[tpl]
    variants, labels = [base], []
    n = draw(st.integers(1, 2))
    for j in range(n):
        kind = draw(st.sampled_from(["rel", "rel", "input", "default"]))
        v = dict(base, params=dict(base["params"]))
        if kind == "rel":
            v["params"][rel] = base["params"][rel] + 1 + j
            labels.append(lab)
        elif kind == "default":
            v["params"]["d"] = base["params"]["d"] + 1 + j
            labels.append("func-default-same-result")
        else:
            v["x"] = base["x"] + 1 + j
            labels.append("input-value")
        variants.append(v)
    return "pyfunc", variants, labels


WORDS = ["a", "bb", "c1", "dd2", "e"]


@st.composite
def shell_family(draw):
    nf = draw(st.integers(1, 3))
    names = ["x", "y", "z"][:nf]
    positions = draw(st.permutations([1, 2, 3]))[:nf]
    fields, values = [], {}
    for nme, pos in zip(names, positions):
        typ = draw(st.sampled_from(["str", "str", "list"]))
        f = dict(name=nme, type=typ, argstr=draw(st.sampled_from(["-" + nme, "--" + nme, ""])),
                 position=pos, sep=draw(st.sampled_from([",", ":"])), formatter=None)
        if typ == "str" and draw(st.integers(0, 3)) == 0:
            f["formatter"] = dict(kind=draw(st.sampled_from(["body", "closure"])),
                                  prefix=draw(st.sampled_from(["P", "Q"])), no_argstr=True)
        fields.append(f)
        values[nme] = (draw(st.lists(st.sampled_from(WORDS), min_size=2, max_size=3))
                       if typ == "list" else draw(st.sampled_from(WORDS)))
    base = dict(fields=fields, values=values, exe=0)
    variants, labels = [base], []
    for j in range(draw(st.integers(1, 2))):
        v = dict(base, fields=[dict(f, formatter=dict(f["formatter"]) if f["formatter"] else None)
                               for f in fields], values=dict(values))
        k = draw(st.integers(0, nf - 1))
        f = v["fields"][k]
        choices = ["exe", "argstr"]
        if nf >= 2:
            choices.append("position")
        if f["type"] == "list":
            choices.append("sep")
        if f["formatter"]:
            choices.append("formatter")
        kind = draw(st.sampled_from(choices))
        if kind == "exe":
            v["exe"] = 1
        elif kind == "argstr":
            f["argstr"] = {"-" + f["name"]: "--" + f["name"], "--" + f["name"]: "-" + f["name"] + str(j),
                           "": "-" + f["name"]}.get(f["argstr"], "-q" + str(j))
            if f["formatter"]:
                kind = "argstr-unused-by-formatter"
        elif kind == "position":
            o = v["fields"][(k + 1) % nf]
            f["position"], o["position"] = o["position"], f["position"]
        elif kind == "sep":
            f["sep"] = ";" if j else ("," if f["sep"] == ":" else ":")
        elif kind == "formatter":
            f["formatter"]["prefix"] = f["formatter"]["prefix"] + "z" * (j + 1)
            kind = "formatter-" + f["formatter"]["kind"]
        labels.append("shell-" + kind)
        variants.append(v)
    return "shell", variants, labels


@st.composite
def input_family(draw):
    base = draw(V.values(max_leaves=8))
    variants, labels = [dict(value=base)], []
    for _ in range(draw(st.integers(1, 2))):
        m = draw(V.mutation_of(base))
        if m is None:
            continue
        lab, w = m
        if any(V.same(w, v["value"]) for v in variants):
            continue
        variants.append(dict(value=w))
        labels.append("input-" + lab)
    if len(variants) < 2:
        return None
    return "input", variants, labels


@st.composite
def cases(draw, fam):
    r = draw({"pyfunc": pyfunc_family, "shell": shell_family, "input": input_family}[fam]())
    if r is None:
        return None
    family, variants, labels = r
    n = len(variants)
    hist = draw(st.lists(st.integers(0, n - 1), min_size=2, max_size=6))
    if len(set(hist)) < 2:  # make sure two different variants meet in the shared root
        hist = hist + [(hist[-1] + 1) % n]
    return dict(family=family, variants=variants, labels=labels, history=hist)


def run(sh):
    for fam, (q, t) in {"pyfunc": (250, 4000), "shell": (130, 2000), "input": (500, 8000)}.items():
        def body(case, fam=fam):
            if case is None:
                sh.count("discarded_no_mutation")
                return
            labels = [f"family_{fam}"] + [f"mut_{lb}" for lb in case["labels"]]
            sh.run_case(case, nontrivial=len(set(case["history"])) >= 2, labels=labels,
                        raise_unattributed=True)

        sh.given(cases(fam), body, sh.budget(q, t), tag=fam)
