"""C03  Workflow state propagation matches a nested-loop reference evaluation.

Generated workflow programs (vlib/gen/workflows.py) are rendered to source, executed by pydra
(debug worker) and every workflow output is compared with the reference interpreter
vlib/ref/workflow.py (provenance strings).  Programs whose meaning the statement does not fix are
counted (`undefined_by_statement`) and not checked.
"""
from __future__ import annotations

from vlib import scratchdir
from vlib.gen import wfmin as M
from vlib.gen import workflows as G
from vlib.harness import exception_signature, short
from vlib.ref import workflow as RW

ID = "C03"
LEVEL = "exploration"
DESIGN_REF = "5/C03, 3.2"
RULE = (
    "cases = workflow programs of 1-5 nodes (python tasks T1/T2 returning provenance strings, L "
    "returning a list, nested workflows Sub1/Sub2) whose inputs are constants, workflow inputs, "
    "outputs of earlier nodes, node-level splits over workflow-input lists (outer/inner) or inner "
    "splits over an upstream list output; optional combiners over own or upstream-originating axes; "
    "optional workflow-level split(+combine); 1-2 workflow outputs. Non-trivial = a node with >=2 "
    "stateful upstreams (independent or sharing an origin), a combiner, an inner split, an own split "
    "below a split, a nested workflow or a workflow-level split; distinct = program."
)
ASSUMPTIONS = [
    "debug worker (C17 covers other workers/schedules)",
    "row order of a node = upstream axes slowest (first-connection order), own splitter fastest",
    "programs the reference refuses (ambiguous inner-split combinations) are counted, not checked",
]


def shape_key(prog):
    return "+".join(RW.labels(prog))


def observe(prog):
    """-> None (agrees with the reference) | (core signature, observed, expected)"""
    try:
        exp = RW.evaluate_program(prog)
    except RW.Undefined:
        return None
    d = scratchdir.new("c03")
    try:
        try:
            from pydra.engine.workflow import Workflow

            wf = G.build(prog, d / "src")
            outs = wf(cache_root=d / "cache", worker="debug")
            got = G.outputs_of(prog, outs)
            if _counter_tick():
                Workflow.clear_cache()
        except Exception as e:  # noqa
            return exception_signature(e, "valid-workflow-raises"), short(e), exp
        if got != exp:
            kind = "order" if _multiset(got) == _multiset(exp) else "values"
            return f"wrong-{kind}", got, exp
        return None
    finally:
        scratchdir.rm(d)


# ---- structural predicates over a *minimised* failing program (defect models by shape)
def p_combiner_upstream_axis_with_own_split(prog):
    return any(nd.get("split") is not None and any("." in c for c in nd.get("combine") or [])
               for nd in prog["nodes"])


def p_fan_in_shared_origin(prog):
    return "fan_in_shared_origin" in RW.labels(prog)


def p_upstream_split_and_whole(prog):
    for nd in prog["nodes"]:
        sn = {s[1] for s in nd["in"].values() if s[0] == "splitnode"}
        wh = {s[1] for s in nd["in"].values() if s[0] == "node"}
        if sn & wh:
            return True
    return False


def p_partial_inner_combiner(prog):
    """a combiner names only part of an inner-linked (zipped) field group, own or upstream"""
    from vlib.ref import splitter as S

    groups = {}  # (node, field) -> frozenset of the fields zipped with it
    for nd in prog["nodes"]:
        t = nd.get("split")
        if t is None or S.is_leaf(t):
            continue
        axes, _, _ = S.ev(t, {f: 1 for f in S.fields_of(t)})
        for ax in axes:
            for f in ax:
                groups[(nd["name"], f)] = frozenset(ax)
    for nd in prog["nodes"]:
        named = set()
        for c in nd.get("combine") or []:
            named.add(tuple(c.split(".", 1)) if "." in c else (nd["name"], c))
        for node, f in named:
            g = groups.get((node, f), frozenset())
            if len(g) >= 2 and any((node, o) not in named for o in g):
                return True
    return False


def p_inner_split_over_multi_axis_upstream(prog):
    try:
        _, res = RW.evaluate(prog)
    except Exception:
        return False
    for nd in prog["nodes"]:
        for s in nd["in"].values():
            if s[0] == "splitnode" and len(res[s[1]]["axes"]) >= 2:
                return True
    return False


def p_same_upstream_twice_next_to_other_state(prog):
    try:
        _, res = RW.evaluate(prog)
    except Exception:
        return False
    for nd in prog["nodes"]:
        ups = [s[1] for s in nd["in"].values() if s[0] == "node" and res[s[1]]["axes"]]
        twice = {u for u in ups if ups.count(u) >= 2}
        if twice and set(ups) - twice:
            return True
    return False


def p_inner_split_over_combined_upstream(prog):
    nodes = {nd["name"]: nd for nd in prog["nodes"]}
    return any(s[0] == "splitnode" and nodes[s[1]].get("combine")
               for nd in prog["nodes"] for s in nd["in"].values())


def p_empty_inner_split_combined(prog):
    kinds = {nd["name"]: nd["kind"] for nd in prog["nodes"]}
    for nd in prog["nodes"]:
        if nd.get("combine") and any(s[0] == "splitnode" and kinds.get(s[1]) == "LE"
                                     for s in nd["in"].values()):
            return True
    return False


CLASSES = [
    ("ValueError@state.py:_add_current_groups", p_combiner_upstream_axis_with_own_split,
     "combiner-names-upstream-axis-on-node-with-own-split"),
    ("TypeError@state.py:_remove_repeated", p_fan_in_shared_origin, "fan-in-of-shared-origin"),
    ("wrong-values", p_upstream_split_and_whole, "upstream-output-both-split-over-and-passed-whole"),
    ("AttributeError@workflow.py:_create_graph", p_partial_inner_combiner,
     "combiner-names-part-of-an-inner-linked-group"),
    ("AssertionError@lazy.py:split", p_inner_split_over_multi_axis_upstream,
     "inner-split-over-output-of-node-with-two-or-more-state-axes"),
    ("wrong-values", p_fan_in_shared_origin, "fan-in-of-shared-origin-multiplied-instead-of-aligned"),
    ("KeyError@state.py:combine_final_groups", p_fan_in_shared_origin,
     "combiner-below-fan-in-of-shared-origin"),
    ("wrong-values", p_same_upstream_twice_next_to_other_state,
     "same-stateful-upstream-in-two-fields-next-to-another-stateful-upstream"),
    ("wrong-values", p_inner_split_over_combined_upstream, "inner-split-over-combined-upstream-output"),
    ("wrong-order", p_empty_inner_split_combined, "empty-group-of-combined-inner-split-lost-in-workflow-output"),
    ("IndexError@lazy.py:group_values", p_fan_in_shared_origin,
     "fan-in-of-shared-origin-with-one-branch-combined"),
]


def classify(core, small):
    if p_partial_inner_combiner(small):
        # one root cause (the final splitter of the combined node is stale until prepare_states
        # runs) surfaces as exceptions at several places of graph construction / state merging
        # and, depending on what was constructed before in the process, as wrong values
        return "combiner-names-part-of-an-inner-linked-group:stale-final-splitter"
    for suffix, pred, name in CLASSES:
        if core.endswith(suffix) and pred(small):
            return f"{core}:{name}"
    if (core.startswith("valid-workflow-raises:") and ("@state.py:" in core or "@lazy.py:" in core)
            and p_fan_in_shared_origin(small)):
        # the merged state of a fan-in of a shared origin is inconsistent (state.py marks these paths
        # "not tested"); depending on what else the node does the inconsistency raises at many places
        # of state.py / lazy.py (seen: _remove_repeated, combine_final_groups, group_values,
        # _add_state_history, map_splits) - one root cause, one signature
        return "valid-workflow-raises:state-merging-error:fan-in-of-shared-origin"
    return f"{core}:{M.essential_shape(small)}"


def check_case(prog):
    r = observe(prog)
    if r is None:
        return []
    core = r[0]
    small = M.minimize(prog, lambda p: (observe(p) or [None])[0] == core)
    r2 = observe(small) or r
    return [dict(signature=classify(core, small), observed=r2[1], expected=r2[2],
                 detail=dict(minimized=small, source=G.render(small)[0]))]


_n = [0]


def _counter_tick():
    _n[0] += 1
    return _n[0] % 50 == 0


def _multiset(x):
    def leaves(v):
        if isinstance(v, list):
            for i in v:
                yield from leaves(i)
        else:
            yield v

    return sorted(map(str, leaves(x)))


def run(sh):
    def body(prog):
        try:
            RW.evaluate_program(prog)
            defined = True
        except RW.Undefined:
            defined = False
        labels = ["shape_" + lb for lb in RW.labels(prog)]
        if not defined:
            sh.count("undefined_by_statement")
            return
        sh.run_case(prog, nontrivial=RW.nontrivial(prog), labels=labels, raise_unattributed=True)

    sh.given(G.mixed_programs(), body, sh.budget(480, 8000), tag="programs")
