"""C27  Container environments run the native command with remapped, mounted paths.

Each case = a generated shell definition (vlib/gen/envs.py: flags, str/int options, File inputs
in several directories with copy modes, list[File]/MultiInputObj[File], outarg outputs with
templated or explicit paths, append_args) x a Docker or Singularity environment (image, tag,
root, xargs).  The task is run twice end to end with `pydra.environments.base.execute` replaced by
a recorder: once natively, once (same cache root path, emptied in between, hence the same job
cache directory) in the container environment.  Oracle (vlib/ref/envs.py, from the statement):

  container argv = runtime prefix + xargs + options + image:tag + tail
  tail           = native argv with every host path p (inputs as the job sees them, outputs)
                   replaced by <root>p
  options        = one bind `host:<root>host:mode` for the parent directory of every such path
                   (rw if the directory holds a copied input or an output, else ro), the cache
                   root bound rw, exactly one working-directory option = <root><job cache dir>.
Option order is free, additional binds are tolerated (counted), paths are compared modulo
repeated slashes.
"""
from __future__ import annotations

import os
import shutil
from pathlib import Path

from hypothesis import strategies as st

from vlib import scratchdir
from vlib.gen import envs as G
from vlib.harness import HarnessError, exception_signature, short
from vlib.inject.envs import run_recorded
from vlib.ref import envs as R

ID = "C27"
LEVEL = "exploration"
DESIGN_REF = "5/C27, 3.5, 4.4"
TECHNIQUE = "differential (native vs container argv) against a path-mapping reference"
RULE = (
    "cases = generated shell definition (1-5 fields of kinds flag/str/int/File/list-of-File with "
    "argstr forms -x, --xx, --xx={f}, positional, '...', none; positions; File inputs placed in 1-4 "
    "directories incl. nested ones and names with a space; copy modes any/copy/symlink/hardlink; 0-2 "
    "outarg outputs with templated or explicit paths; append_args incl. File) x environment "
    "(docker|singularity, image, tag, root in {default,/mnt/x/,/r,/,/data/deep/root}, xargs as list "
    "or string) x cache-root name (plain or with a space). Non-trivial = at least one host path is "
    "part of the case (File input, output or File in append_args); distinct = full case."
)
ASSUMPTIONS = [
    "no container runtime exists: only the argument vector handed to environments.base.execute is "
    "observed (the recorder fabricates a successful return and creates the declared output files)",
    "the native argv of the same task is the reference for the command tail (C22 checks the native "
    "argv itself); when the native argv itself splits a path at a space (C23/C24) the tail is not "
    "compared and the case is counted as tail_unchecked_native_splits_path",
    "a directory that holds both a copied-input/output and a plain input must be bound rw",
    "File inputs that are not rendered on the command line (argstr=None) count as input paths",
    "a File passed in append_args is a plain string by the time the job runs (list[str | File] "
    "coerces to str): accepted mapped or unmapped, counted as undefined_by_statement",
    "paths are compared modulo repeated '/' (root '/mnt/x/' + '/d' == '/mnt/x/d')",
]
SHARDS = {"quick": 16, "thorough": 16}

DEFAULT_ROOT = "/mnt/pydra"
ROOTS = [None, None, "/mnt/x/", "/r", "/", "/data/deep/root"]
XARGS = [[], [], ["--rm"], ["-e", "A=1"], ["--net=none", "--rm"]]

_stats: list[str] = []     # labels produced while checking a case, drained by run()


def _note(label):
    _stats.append(label)


# ------------------------------------------------------------------ running
def _make_env(e):
    from pydra.environments import docker, singularity

    mod = docker if e["kind"] == "docker" else singularity
    kw = dict(image=e["image"])
    if e.get("tag") is not None:
        kw["tag"] = e["tag"]
    if e.get("root") is not None:
        kw["root"] = e["root"]
    if e.get("xargs"):
        kw["xargs"] = " ".join(e["xargs"]) if e.get("xargs_as_str") else list(e["xargs"])
    return mod.Environment(**kw)


def _run(built, cache_root: Path, environment):
    argv, kwargs, cache_dir = run_recorded(built, cache_root, environment)
    if kwargs:
        _note("execute_kwargs_present")
    return argv, cache_dir


def host_paths(built, cache_dir: Path):
    """[(path as the job sees it, needs_rw, source, rendered)] from the case, not from pydra."""
    out = []
    for _name, kind, mode, origs, rendered in built.inputs:
        for p in origs:
            if kind == "append":
                out.append((p, False, "append", True))
            elif mode == "any":
                out.append((p, False, "input", rendered))
            else:
                out.append((cache_dir / p.name, mode == "copy", "input", rendered))
    for _name, explicit, resolved in built.outs:
        out.append((explicit if explicit is not None else cache_dir / resolved, True, "output", True))
    return out


def check_case(case):
    base = scratchdir.new("c27")
    try:
        return _check(case, base)
    finally:
        scratchdir.rm(base)


def _check(case, base):
    from pydra.environments import native

    e = case["env"]
    cache_root = base / case.get("cache", "cache")
    cache_root.mkdir()
    built = G.materialise(case["defn"], base / "in", special={"@cache": cache_root})
    keep = set(os.listdir(cache_root))  # input files placed directly in the cache root
    try:
        native_argv, cache_dir = _run(built, cache_root, native.Environment())
    except HarnessError:
        raise
    except Exception as ex:  # noqa: the definition is not runnable natively: not C27's business
        _note("native_raised:" + type(ex).__name__)
        return []
    for entry in set(os.listdir(cache_root)) - keep:  # same cache root, emptied of the first run
        q = cache_root / entry
        shutil.rmtree(q) if q.is_dir() and not q.is_symlink() else q.unlink()
    infos = host_paths(built, cache_dir)
    joined_native = " ".join(native_argv)
    for p, _rw, source, rendered in infos:
        if rendered and str(p) not in joined_native:
            raise HarnessError(f"predicted host path {p} ({source}) is not in the native argv "
                               f"{native_argv}")
    has_files_list = any(k == "files" for _n, k, _m, _o, _r in built.inputs)
    try:
        argv, cache_dir2 = _run(built, cache_root, _make_env(e))
    except HarnessError:
        raise
    except Exception as ex:  # noqa
        if (isinstance(ex, AttributeError) and "'list' object has no attribute 'parent'" in str(ex)
                and has_files_list):
            sig = "container-run-raised:list-of-files-taken-for-one-fileset"
        else:
            sig = exception_signature(ex, "container-run-raised")
        return [dict(signature=sig, observed=short(ex), expected="the command is executed",
                     detail=f"native argv {native_argv}")]
    if cache_dir2 != cache_dir:
        raise HarnessError(f"job cache dir changed between runs: {cache_dir} / {cache_dir2}")

    root = e["root"] if e.get("root") is not None else DEFAULT_ROOT
    image_ref = f"{e['image']}:{e['tag'] if e.get('tag') is not None else 'latest'}"
    recs: dict[str, dict] = {}

    def rec(sig, observed, expected, detail=None):
        recs.setdefault(sig, dict(signature=sig, observed=observed, expected=expected,
                                  detail=detail or f"container argv {argv}"))

    problem, options, tail = R.split_command(e["kind"], argv, image_ref, e.get("xargs") or [])
    if problem:
        rec(problem, argv, f"{R.RUNTIME[e['kind']]['prefix']} {e.get('xargs')} ... {image_ref} ...")
        return list(recs.values())

    # ---- tail
    all_paths = [p for p, _rw, _s, _r in infos]
    if any(" " in str(p) for p, _rw, _s, r in infos if r):
        _note("tail_unchecked_native_splits_path")
    else:
        _note("tail_checked")
        exp_tail = R.expected_tail(native_argv, all_paths, root)
        tail_n = [R.squeeze(t) for t in tail]      # '<root>p' modulo repeated slashes
        if tail_n != exp_tail:
            # a File given in append_args reaches the job as a plain string (the field type is
            # list[str | File] and str wins the coercion): whether that is an "input path" is not
            # decided by the statement -> accepted mapped or unmapped
            no_app = [p for p, _rw, s, _r in infos if s != "append"]
            if len(no_app) != len(infos) and tail_n == R.expected_tail(native_argv, no_app, root):
                _note("undefined_by_statement:file_in_append_args_left_unmapped")
            else:
                rec("argv-tail-differs", tail, exp_tail)

    # ---- options
    parsed = R.parse_options(e["kind"], options)
    if parsed is None:
        parsed = R.parse_options_joined(e["kind"], options)
        if parsed is None:
            rec("container-options-malformed", options, "mount and working-directory options")
            return list(recs.values())
        rec("mount-option-split-on-whitespace", options,
            "each bind specification passed as one argument")
    mounts, wds = parsed
    req = R.required_mounts([(p, rw, s) for p, rw, s, _r in infos if s != "append"], cache_root,
                            root)
    by_host: dict[str, set] = {}
    for h, t, m in mounts:
        by_host.setdefault(R.norm(h), set()).add((R.norm(t), m))
    for d, want in req.items():
        got = by_host.get(d)
        if not got:
            rec("bind-missing", sorted(by_host), f"{d} bound ({sorted(want['sources'])})")
            continue
        if len(got) > 1:
            rec("bind-duplicated-inconsistently", sorted(got), f"one bind for {d}")
            continue
        (t, m), = got
        if t != want["target"]:
            rec("bind-target-wrong", f"{d} -> {t}", want["target"])
        if m != want["mode"]:
            if want["conflict"] and m == "ro":
                rec("bind-ro-for-directory-holding-copied-input-or-output", f"{d}:{m}",
                    f"{d}:rw  (sources {sorted(want['sources'])})")
            else:
                rec(f"bind-mode-wrong:{want['mode']}-expected", f"{d}:{m}", f"{d}:{want['mode']}")
    if any(want["conflict"] for want in req.values()):
        _note("dir_with_rw_and_ro_paths")
    extra = set(by_host) - set(req)
    if extra:
        _note("extra_binds")
    if len(wds) != 1:
        rec("workdir-option-count", wds, "exactly one working-directory option")
    elif R.norm(wds[0]) != R.in_container(root, cache_dir):
        rec("workdir-wrong", wds[0], R.in_container(root, cache_dir))
    return list(recs.values())


# ------------------------------------------------------------------ generation
@st.composite
def cases(draw):
    defn = draw(G.definition())
    env = dict(
        kind=draw(st.sampled_from(["docker", "singularity"])),
        image=draw(st.sampled_from(["img", "repo.example/org/tool"])),
        tag=draw(st.sampled_from([None, "1.2", "dev"])),
        root=draw(st.sampled_from(ROOTS)),
        xargs=draw(st.sampled_from(XARGS)),
        xargs_as_str=draw(st.booleans()),
    )
    cache = draw(st.sampled_from(["cache"] * 11 + ["cache root"]))
    return dict(defn=defn, env=env, cache=cache)


def labels_of(case):
    d, e = case["defn"], case["env"]
    lb = [e["kind"], "root_default" if e["root"] is None else
          "root_" + (e["root"].strip("/").replace("/", "_") or "slash")]
    files = [f for f in d["fields"] if f["kind"] in ("file", "files") and f["value"]]
    for f in files:
        lb.append("copy_" + f["copy_mode"])
    if any(f["kind"] == "files" for f in files):
        lb.append("has_file_list")
    if any(f["kind"] == "file" and f["argstr"] is None for f in files):
        lb.append("has_unrendered_file")
    if d["outs"]:
        lb.append("has_outarg")
    if any(o["explicit"] for o in d["outs"]):
        lb.append("has_explicit_output_path")
    if any(isinstance(a, dict) for a in d["append"]):
        lb.append("has_file_in_append_args")
    if G.has_space(d):
        lb.append("dir_with_space")
    if " " in case["cache"]:
        lb.append("cache_root_with_space")
    if e["xargs"]:
        lb.append("xargs_str" if e["xargs_as_str"] else "xargs_list")
    if len({f["value"]["dir"] for f in files if f["kind"] == "file"}
           | {v["dir"] for f in files if f["kind"] == "files" for v in f["value"]}) >= 2:
        lb.append("inputs_in_2plus_dirs")
    return sorted(set(lb))


def has_host_path(case):
    d = case["defn"]
    return bool(d["outs"]) or any(isinstance(a, dict) for a in d["append"]) or any(
        f["kind"] in ("file", "files") and f["value"] for f in d["fields"])


def run(sh):
    def body(case):
        _stats.clear()
        try:
            sh.run_case(case, nontrivial=has_host_path(case), labels=labels_of(case),
                        raise_unattributed=True)
        finally:
            for lb in _stats:
                sh.count(lb)
            _stats.clear()

    sh.given(cases(), body, sh.budget(600, 10000), tag="c27")
