"""C25  Command-line templates define the task they spell out.

A template is generated *by construction* from the documented token forms (<name>, <name:type>,
?, +, *, =default, <out|name>, $path-template, `--opt <name>`, `-f<flag>`, <modify|name>)
together with the field table it spells (vlib/ref/shelltmpl.py).  The class returned by
`shell.define(template)` must have exactly those fields (type, optionality, multiplicity,
default, option string, output/path template), and for generated values the argument vector
handed to the operating system must be the executable followed by the options and arguments in
template order.
"""
from __future__ import annotations

from pathlib import Path

from vlib import scratchdir
from vlib.gen import shelltmpl as G
from vlib.harness import exception_signature, short
from vlib.inject import shelltmpl as I
from vlib.ref import shelltmpl as R

ID = "C25"
LEVEL = "exploration"
WALL = {"quick": 300, "thorough": 1500}
DESIGN_REF = "5/C25, 3.5"
TECHNIQUE = "grammar-by-construction generation against an independent field-table/argv model"
RULE = (
    "cases = (executable of 1-3 words, 0..6 template fields each instantiating a documented form: "
    "positional <x[:type]>, `--opt <x[:type]>`, `-f<flag[=bool]>`, <out|x[:type]>, `--opt <out|x>`, "
    "<modify|x:type>; types int/float/str, generic and MIME-like file types, fixed and `...` tuples; "
    "modifiers ?, +, *, =literal (numbers, tuples, quoted strings - 1 in 8 with punctuation such as "
    "= $ : , ? + *), $path-template (optionally referencing an int/str field, rarely containing '='); plus one "
    "value assignment: set/unset optionals, 0..3 elements for multi fields, files/directories "
    "created on disk, True or an explicit path for outputs).  Additionally every single-field "
    "template (form x type x modifier x supplied/unset) is enumerated.  Non-trivial = >=3 fields "
    "of >=2 different forms, or an output/multi/tuple field; distinct = the whole case."
)
ASSUMPTIONS = [
    "values come from a word alphabet, ints and floats are non-zero, strings non-empty: how a value "
    "is rendered/quoted (falsy values, blanks, metacharacters) is C22/C23, not C25",
    "only the documented forms are generated: one modifier per field, defaults only on typed "
    "scalars/tuples and on options, no positional bool, identifiers as field names",
    "<modify|x> is not in the tutorial (only in the builder and its unit test); it is generated with "
    "low weight and only its type, position in argv and pass-through output are checked",
    "field `position` numbers are not compared (the observable is the order in argv)",
    "argv is observed by replacing pydra.environments.base.execute (native environment, debug worker)",
]
EXHAUSTIVE_WHEN_COMPLETED = True
EXHAUSTIVE_NOTE = "single-field templates only (counter single_field_*); multi-field templates are sampled"

BASE_IN = {"executable", "append_args"}
BASE_OUT = {"stdout", "stderr", "return_code"}


def _same_default(observed, expected):
    import attrs

    if expected == "EMPTYLIST":
        return isinstance(observed, attrs.Factory) and observed.factory() == [] or observed == []
    return type(observed) is type(expected) and observed == expected


def check_fields(case, T):
    """field table of the defined class vs. the table the template spells"""
    from pydra.compose import shell
    from pydra.utils.general import get_fields

    out = []
    exp = R.expected_fields(case)
    ins = {f.name: f for f in get_fields(T)}
    outs = {f.name: f for f in get_fields(T.Outputs)}
    exp_in = set(exp) | BASE_IN
    exp_out = {n for n, e in exp.items() if e["outarg"] or e["passthrough"]} | BASE_OUT
    if set(ins) != exp_in:
        out.append(dict(signature="fields:input-set", observed=sorted(ins), expected=sorted(exp_in)))
    if set(outs) != exp_out:
        out.append(dict(signature="fields:output-set", observed=sorted(outs), expected=sorted(exp_out)))
    exe = ins["executable"].default if "executable" in ins else None
    if exe != R.expected_executable(case):
        out.append(dict(signature="fields:executable", observed=repr(exe),
                        expected=repr(R.expected_executable(case))))
    for n, e in exp.items():
        f = ins.get(n)
        if f is None:
            continue
        form = e["form"]

        def bad(attr, obs, want):
            out.append(dict(signature=f"field-{attr}:{form}", observed=repr(obs), expected=repr(want),
                            detail=dict(field=n)))

        if f.type != e["type"] and not (e["form"].startswith("optout:untyped") and f.type in (str, str | None)):
            # (an untyped output after an option: the docs give "text" for options and
            # "fs-object" for arguments and do not say which wins - both accepted here, the run decides)
            bad("type", f.type, e["type"])
        if f.argstr != e["argstr"]:
            bad("argstr", f.argstr, e["argstr"])
        if e["outarg"] != isinstance(f, shell.outarg):
            bad("outarg", type(f).__name__, "outarg" if e["outarg"] else "arg")
        if e["outarg"]:
            if getattr(f, "path_template", None) != e["path_template"]:
                bad("path_template", getattr(f, "path_template", None), e["path_template"])
            if e["default"] is None and f.default is not None:
                bad("default", f.default, None)
            o = outs.get(n)
            if o is not None and o.type != f.type:
                bad("output-type", o.type, f.type)
        elif e["default"] == R.MANDATORY:
            if not f.mandatory:
                bad("default", f.default, "no default (mandatory)")
        elif f.mandatory or not _same_default(f.default, e["default"]):
            bad("default", f.default, e["default"])
        if e["passthrough"]:
            o = outs.get(n)
            if o is not None and o.type != e["type"]:
                bad("output-type", o.type, e["type"])
    return out


def _str_typed_outs(case, T):
    """untyped outputs after an option that were typed str and are to be named by their template"""
    from pydra.utils.general import get_fields

    tp = {f.name: f.type for f in get_fields(T)}
    eff = R.effective_values(case)
    return [t for t in case["tokens"]
            if t["kind"] == "out" and t.get("opt") and t.get("type") is None
            and tp.get(t["name"]) in (str, str | None) and eff.get(t["name"]) is True]


def _str_typed_option_output(case, T):
    return bool(_str_typed_outs(case, T))


def _equals_inside(case):
    return any((t.get("mod") == "=" and isinstance(t.get("default"), str) and "=" in t["default"])
               or (t.get("mod") == "$" and "=" in t.get("tmpl", "")) for t in case["tokens"])


def _build_value(v, tok, src: Path, explicit: Path):
    if tok["kind"] == "out":
        return True if v is True else explicit / v["path"]
    if tok.get("mod") in ("+", "*"):
        return [_build_one(x, tok, src) for x in v]
    return _build_one(v, tok, src)


def _build_one(v, tok, src):
    if isinstance(v, dict):
        name = v.get("file") or v.get("dir")
        p = src / name
        if not p.exists():
            I.materialise(p, as_dir="dir" in v)
        return p
    return R.to_py(v, tok)


def check_case(case):
    from pydra.compose import shell
    from pydra.utils.general import get_fields

    text = R.template_text(case)
    try:
        T = shell.define(text)
    except Exception as e:  # noqa  every generated template is in the documented grammar
        forms = "+".join(sorted({R.form(t) for t in case["tokens"]})) if len(case["tokens"]) == 1 else "multi"
        sig = exception_signature(e, "define-raises") + (f":{forms}" if forms != "multi" else "")
        if _equals_inside(case):
            # defect model: the parser splits the token at every '=' before looking at quotes or '$'
            # (what is raised depends on what the pieces then look like: unpacking, eval, type lookup)
            sig = "define-raises:equals-sign-inside-default-or-path-template"
        return [dict(signature=sig, observed=short(e), expected="a task class", detail=dict(template=text))]
    out = check_fields(case, T)
    for r in out:
        r.setdefault("detail", {})["template"] = text
    if case.get("values") is None or out:
        return out  # the run below presupposes the class the template spells
    d = scratchdir.new("c25")
    try:
        src, explicit = d / "src", d / "explicit"
        src.mkdir()
        explicit.mkdir()
        toks = {t["name"]: t for t in case["tokens"]}
        dir_names = set()
        for t in case["tokens"]:
            if t["kind"] == "out" and R.type_is_dir(t.get("type")):
                v = case["values"].get(t["name"])
                dir_names.add(v["path"] if isinstance(v, dict) else R.out_name(t, R.effective_values(case)))

        def on_execute(argv, cwd):
            for a in argv[len(case["exe"]):]:
                p = Path(a)
                if p.is_absolute() and (p.parent == cwd or p.parent == explicit):
                    I.materialise(p, as_dir=p.name in dir_names)

        kwargs = {n: _build_value(v, toks[n], src, explicit) for n, v in case["values"].items()}
        with I.recording(on_execute=on_execute) as rec:
            try:
                task = T(**kwargs)
                task(cache_root=d / "cache", worker="debug")
            except Exception as e:  # noqa  all values are valid for the spelled types
                forms = sorted({R.form(t) for t in case["tokens"] if t["kind"] == "modify"})
                sig = exception_signature(e, "run-raises") + (":modify" if forms else "")
                out.append(dict(signature=sig,
                                observed=short(e), expected="the command is run and outputs collected",
                                detail=dict(template=text, values=case["values"])))
        if _str_typed_option_output(case, T):
            # defect model: `--opt <out|x>` was given type str, which neither the path-template
            # machinery nor the True default accepts: the option is missing from argv and/or the
            # run raises TypeError.  Whatever else happens in such a case is not looked at.
            argv_ok = bool(rec.calls) and all(t["opt"] in rec.calls[0][0] for t in _str_typed_outs(case, T))
            if out or not argv_ok:
                return [dict(signature="run-raises:untyped-option-output-typed-str",
                             observed=out[0]["observed"] if out else rec.calls[0][0] if rec.calls else "nothing run",
                             expected="the command is run with the templated output path and outputs collected",
                             detail=dict(template=text, values=case["values"]))]
        if len(rec.calls) > 1:
            out.append(dict(signature="executed-more-than-once", observed=len(rec.calls), expected=1))
        if rec.calls:
            argv, cwd = rec.calls[0]
            segs = R.expected_segments(case, src, Path(cwd), explicit)
            expected = list(case["exe"]) + [w for _, s in segs for w in s]
            if argv != expected:
                if argv[:len(case["exe"])] != list(case["exe"]):
                    sig = "argv-executable"
                else:
                    who = R.blame(segs, argv[len(case["exe"]):])
                    kind = "order" if sorted(argv) == sorted(expected) else "content"
                    sig = f"argv-{kind}:{who if isinstance(who, str) else R.form(who)}"
                out.append(dict(signature=sig, observed=argv, expected=expected,
                                detail=dict(template=text, values=case["values"])))
        elif not any(r["signature"].startswith("run-raises") for r in out):
            out.append(dict(signature="nothing-executed", observed="no call to execute",
                            expected="one command", detail=dict(template=text)))
        return out
    finally:
        scratchdir.rm(d)


def nontrivial(case):
    toks = case["tokens"]
    forms = {R.form(t) for t in toks}
    special = any(t["kind"] in ("out", "modify") or t.get("mod") in ("+", "*")
                  or R.is_tuple_type(t.get("type")) for t in toks)
    return (len(toks) >= 3 and len(forms) >= 2) or special


def labels_of(case):
    labs = {f"n_fields_{len(case['tokens'])}"}
    for t in case["tokens"]:
        labs.add("form_" + R.form(t))
        if t["kind"] == "out" and "{" in (t.get("tmpl") or ""):
            labs.add("out_template_with_reference")
        if t["kind"] == "out" and isinstance(case["values"].get(t["name"]), dict):
            labs.add("out_explicit_path")
        if t.get("mod") == "=" and t.get("default") in G.SPECIAL_STRS:
            labs.add("default_with_special_characters")
    if len(case["exe"]) > 1:
        labs.add("multiword_executable")
    return sorted(labs)


def run(sh):
    space = G.single_token_space()
    done = True
    for i, case in enumerate(space):
        if i % sh.n != sh.index:
            continue
        if sh.out_of_time():
            done = False
            break
        sh.run_case(case, nontrivial=nontrivial(case), labels=("single_field_" + R.form(case["tokens"][0]).split(":")[0],),
                    raise_unattributed=False)
    if done:
        sh.count("exhaustive_subspaces_completed")

    def body(case):
        sh.run_case(case, nontrivial=nontrivial(case), labels=labels_of(case), raise_unattributed=True)

    sh.given(G.template_case(), body, sh.budget(3000, 60000), tag="tmpl")
