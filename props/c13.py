"""C13  Failures are reported and never cached as success.

Case: {"kinds": [k1(,k2)], "ops": [...]} - a history over ONE cache root; every kind is a task that
fails while its *flip file* says "fail" and succeeds when it says "ok" (the file path is a `str`
input, so flipping never changes the cache identity).

  {"op":"flip","kind":k,"value":"ok"|"fail"}
  {"op":"submit","kind":k,"worker":"debug"|"cf","api":"call"|"submitter","rerun":b}

kinds: py_raise (raises ValueError("boom-<token>")), sh_exit ("boom-<token>" on stderr, then the
command fails the way the case field "sh_fail" says: ["exit", n] = exit status n, ["signal", n] =
killed by signal n, i.e. a negative return code; default ["exit", 3]),
wf_node (3-node workflow whose middle node is py_raise), and python tasks with two mandatory
outputs (a, b) whose failing return value is {"a":1} / {} / (1,2,3) / (1,) / None.
api "call" = Task.__call__; "submitter" = Submitter(...)(task, raise_errors=False).
Optional "inject": "poll-race" | "slow-start" (witnesses only): vlib/inject/cachehist.poll_race /
slow_start make one legal timing of the cf worker deterministic.
"""
from __future__ import annotations

from vlib import scratchdir
from vlib.gen import cachehist as gen
from vlib.ref.cachehist import FailModel

ID = "C13"
LEVEL = "exploration"
DESIGN_REF = "5/C13"
TECHNIQUE = "generated submit/flip histories vs an explicit model of what the cache may hold"
RULE = (
    "case = 1-2 task kinds out of 8 (python raise, shell command failing with a drawn exit status "
    "1|3|127|255 or killed by a drawn signal TERM|KILL|USR1, workflow with a failing "
    "node, python returning dict-with-missing-key / empty dict / too-long tuple / too-short tuple / "
    "None for two mandatory outputs) and a history of 2..8 (thorough ..10) operations (random, "
    "or the scenario fail-fix-again-break-rerun-again with random omissions) "
    "flip(kind, ok|fail) | submit(kind, worker debug|cf, api Task.__call__|Submitter(raise_errors="
    "False), rerun). Per submission the model says fail / ok / cached-ok; checked: a failure is "
    "reported (exception or errored result) with the original error text where the task has one, "
    "the body ran again (counter +1) unless a success is cached, a success is returned with the "
    "right outputs and never with an unset mandatory output, after a success the counter stops. "
    "Non-trivial = the history submits a kind again after a failed submission of it; distinct = "
    "(kinds, op list)."
)
ASSUMPTIONS = [
    "the flip file is read by the task body at run time; its path (a str input) is the identity",
    "'reports the failure' is accepted as either an exception from the call or a returned result "
    "with errored=True whose recorded error (Result.errors) is readable",
    "for the missing-output kinds only 'reported as failed' is demanded, no particular text",
    "after a violation whose after-state the statement does not fix, the kind is no longer judged "
    "in the rest of that history",
    "the independent first node of the workflow kind is only required not to run again once it "
    "has succeeded (unless rerun)",
]

TEXT_KINDS = ("py_raise", "sh_exit", "wf_node")
MISSING_KINDS = ("dict_missing", "dict_empty", "tuple_long", "tuple_short", "none_for_two")

SIG_STALE = "stale-errored-state-of-cached-failure-taken-for-the-current-run"
SIG_STALE_CF = "errored-result-of-earlier-run-read-by-status-polling-before-the-pool-reexecutes:cf"
SIG_POLL = "cf-workflow-aborted-by-status-polling-before-node-error-is-collected"
SIG_DICT = "python-dict-return-missing-key-accepted-as-success:NOTHING-output"


def _build(kind, d, inject=None, sh_fail=("exit", 3)):
    from vlib import tasks_cachehist as T

    flag, log, token = str(d / "flag"), str(d / "log"), f"tok-{kind}"
    (d / "flag").write_text("fail")
    if kind == "py_raise":
        t = T.RaiseIf(flag=flag, log=log, token=token)
    elif kind == "sh_exit":
        (d / "s.sh").write_text(T.SH_SCRIPT)
        t = T.ShFail(script=str(d / "s.sh"), flag=flag, log=log, token=token,
                     how=f"{sh_fail[0]}:{sh_fail[1]}")
    elif kind == "wf_node" and inject == "poll-race":
        t = T.FailWFSlow(flag=flag, log=log, prelog=str(d / "prelog"), token=token, gate=str(d))
    elif kind == "wf_node":
        t = T.FailWF(flag=flag, log=log, prelog=str(d / "prelog"), token=token)
    else:
        cls = dict(dict_missing=T.DictMissing, dict_empty=T.DictEmpty, tuple_long=T.TupleLong,
                   tuple_short=T.TupleShort, none_for_two=T.NoneForTwo)[kind]
        t = cls(flag=flag, log=log, token=token)
    return t


def _report_of_exc(e):
    parts, seen = [], set()
    while e is not None and id(e) not in seen:
        seen.add(id(e))
        parts.append(f"{type(e).__name__}: {e}")
        parts.extend(getattr(e, "__notes__", []) or [])
        e = e.__cause__ or e.__context__
    return "\n".join(parts)


def _outputs_dict(outputs):
    import attrs

    if outputs is None:  # a "successful" result without any outputs object
        return {"<outputs>": "NOTHING"}
    out = {}
    for a in attrs.fields(type(outputs)):
        if a.name.startswith("_"):
            continue
        v = getattr(outputs, a.name)
        out[a.name] = "NOTHING" if v is attrs.NOTHING else v
    return out


def _submit(task, root, op, inject=None):
    """-> dict(failed=bool, report=str, outputs=dict|None)"""
    if inject == "poll-race" and op["worker"] == "cf":
        from vlib.inject.cachehist import poll_race

        with poll_race(task.gate, "r"):
            return _submit(task, root, dict(op, n_procs=2))
    if inject == "slow-start" and op["worker"] == "cf":
        import os

        from vlib.inject.cachehist import slow_start

        with slow_start(os.path.dirname(task.flag)):
            return _submit(task, root, op)
    from pydra.engine.submitter import Submitter

    kw = dict(n_procs=op.get("n_procs", 1)) if op["worker"] == "cf" else {}
    try:
        if op["api"] == "call":
            outs = task(cache_root=root, worker=op["worker"], rerun=op["rerun"], **kw)
            return dict(failed=False, report="", outputs=_outputs_dict(outs), how="returned")
        with Submitter(cache_root=root, worker=op["worker"], **kw) as s:
            res = s(task, raise_errors=False, rerun=op["rerun"])
        if res.errored:
            errs = res.errors
            text = "\n".join(errs["error message"]) if errs else "<no recorded error>"
            return dict(failed=True, report=text, outputs=None, how="errored-result")
        return dict(failed=False, report="", outputs=_outputs_dict(res.outputs), how="returned")
    except Exception as e:
        return dict(failed=True, report=_report_of_exc(e), outputs=None, how="raised")


def _success_ok(kind, outputs):
    if kind == "py_raise":
        return outputs.get("out") == 7
    if kind == "wf_node":
        return outputs.get("out") == 8
    if kind == "sh_exit":
        return outputs.get("return_code") == 0 and str(outputs.get("stdout")).strip() == "fine"
    return outputs.get("a") == 1 and outputs.get("b") == 2


def _expected_success(kind):
    return {"py_raise": {"out": 7}, "wf_node": {"out": 8},
            "sh_exit": {"return_code": 0, "stdout": "fine\n"}}.get(kind, {"a": 1, "b": 2})


def check_case(case):
    from vlib.tasks_cachehist import read_lines

    base = scratchdir.new("c13")
    recs = []
    try:
        root = base / "root"
        tasks, dirs = {}, {}
        for k in case["kinds"]:
            dirs[k] = base / k
            dirs[k].mkdir()
            tasks[k] = _build(k, dirs[k], case.get("inject"), case.get("sh_fail", ["exit", 3]))
        model = FailModel(case["kinds"])
        desynced = set()
        pre_seen = {k: 0 for k in case["kinds"]}
        for step, op in enumerate(case["ops"]):
            k = op["kind"]
            if op["op"] == "flip":
                (dirs[k] / "flag").write_text(op["value"])
                model.flip(k, op["value"])
                continue
            if k in desynced or len(recs) >= 4:
                continue
            runs_before = model.runs[k]
            outcome, before = model.submit(k, op["rerun"])
            obs = _submit(tasks[k], root, op, case.get("inject"))
            runs = len(read_lines(dirs[k] / "log"))
            executed = runs - runs_before
            where = f"step {step}: {op}; model: {outcome}, cache before: {before}, flag {model.flag[k]}"
            token = f"boom-tok-{k}"
            bad = []

            def add(sig, observed, expected):
                bad.append(sig)
                recs.append(dict(signature=sig, observed=observed, expected=expected, detail=where))

            # a successful result never has an unset mandatory output
            unset = obs["outputs"] is not None and "NOTHING" in obs["outputs"].values()
            if outcome == "fail":
                if not obs["failed"]:
                    if k in ("dict_missing", "dict_empty") and unset and executed == 1:
                        add(SIG_DICT, obs["outputs"], "reported as failed")
                    elif unset:
                        add(f"unset-mandatory-output-in-successful-result:{k}", obs["outputs"],
                            "reported as failed")
                    elif executed == 0:
                        add(f"failure-served-as-success-without-execution:{k}", obs["outputs"],
                            "executed again and reported as failed")
                    else:
                        add(f"failure-not-reported:{k}", obs["outputs"], "reported as failed")
                else:
                    if executed != 1:
                        add(f"failed-task-not-executed-again:{k}" if executed == 0 else
                            f"failed-task-executed-{executed}-times:{k}", executed, 1)
                    if k in TEXT_KINDS and token not in obs["report"]:
                        # cf only: the submitter's status polling noticed the node's errored
                        # result before the node's future (which carries the recorded error)
                        # was collected and raised a secondary ValueError out of the workflow
                        polled = (k == "wf_node" and op["worker"] == "cf" and executed == 1
                                  and any(t in obs["report"] for t in
                                          ("ValueError: Job 'r' failed",
                                           "from r as the node errored")))
                        add(SIG_POLL if polled else
                            f"failure-report-lacks-recorded-error:{k}:{obs['how']}",
                            obs["report"][-400:], f"report containing {token!r}")
            elif outcome == "ok":
                if obs["failed"]:
                    inproc = op["worker"] == "debug" or k == "wf_node"
                    norecord = any(s in obs["report"] for s in
                                   ("NOT RETRIEVED", "UNKNOWN-TIME", "<no recorded error>"))
                    if (before == "failed" and k == "wf_node" and op["worker"] == "cf" and norecord
                            and executed == 1):
                        # timing dependent (F-C13-4): the submitter polls the node's directory
                        # while it still holds the errored result of the earlier run
                        add(SIG_STALE_CF, obs["report"][-300:], _expected_success(k))
                    elif before == "failed" and inproc and norecord and executed == 1:
                        add(SIG_STALE, obs["report"][-300:], _expected_success(k))
                    else:
                        add(f"success-reported-as-failure:{k}", obs["report"][-400:],
                            _expected_success(k))
                else:
                    if unset:
                        add(f"unset-mandatory-output-in-successful-result:{k}", obs["outputs"],
                            _expected_success(k))
                    elif not _success_ok(k, obs["outputs"]):
                        add(f"wrong-outputs:{k}", obs["outputs"], _expected_success(k))
                    if executed != 1:
                        add(f"stale-result-served-after-failure:{k}" if executed == 0 else
                            f"executed-{executed}-times:{k}", executed, 1)
            else:  # cached-ok
                if obs["failed"]:
                    add(f"cached-success-reported-as-failure:{k}", obs["report"][-400:],
                        _expected_success(k))
                elif unset or not _success_ok(k, obs["outputs"]):
                    add(f"wrong-cached-outputs:{k}", obs["outputs"], _expected_success(k))
                if executed != 0:
                    add(f"executed-again-after-success:{k}", executed, 0)
            if runs != model.runs[k]:
                model.runs[k] = runs
            if k == "wf_node":
                pre = len(read_lines(dirs[k] / "prelog"))
                if pre > pre_seen[k] and pre_seen[k] > 0 and not op["rerun"]:
                    add("successful-node-executed-again-after-workflow-failure", pre - pre_seen[k], 0)
                pre_seen[k] = pre
            # can the history go on?  only when the state after the violation is what the model says
            if bad and not (bad == [SIG_STALE] and k != "wf_node"):
                desynced.add(k)
        return recs
    finally:
        scratchdir.rm(base)


# ------------------------------------------------------------------------------- classification
def describe(case):
    m = FailModel(case["kinds"])
    labels = set("kind_" + k for k in case["kinds"])
    if "sh_exit" in case["kinds"]:
        labels.add("sh_fail_" + case.get("sh_fail", ["exit", 3])[0])
    failed_before = set()
    nontrivial = False
    for op in case["ops"]:
        k = op["kind"]
        if op["op"] == "flip":
            m.flip(k, op["value"])
            continue
        outcome, before = m.submit(k, op["rerun"])
        labels.add("outcome_" + outcome)
        if k in failed_before:
            nontrivial = True
            labels.add(f"{outcome}_after_failure")
        if before == "failed" and outcome == "ok":
            labels.add("ok_directly_after_cached_failure:" + ("debug" if op["worker"] == "debug" else "cf"))
        if before == "ok" and outcome == "fail":
            labels.add("rerun_of_success_fails")
        if outcome == "cached-ok" and m.flag[k] == "fail":
            labels.add("cached_ok_while_flag_fail")
        if outcome == "fail":
            failed_before.add(k)
        if op["worker"] == "cf":
            labels.add("cf")
        labels.add("api_" + op["api"])
    return nontrivial, sorted(labels)


def run(sh):
    max_ops = 8 if sh.quick else 10

    def body(case):
        nt, labels = describe(case)
        sh.run_case(case, nontrivial=nt, labels=labels, raise_unattributed=True)

    sh.given(gen.c13_history(max_ops=max_ops, cf_weight=0), body, sh.budget(240, 4000), tag="hist")
    sh.given(gen.c13_scenario(cf_weight=0), body, sh.budget(96, 1000), tag="scen")
    # process-pool submissions cost ~1 s each: a few shards run them, with enough examples each
    # for Hypothesis to leave its minimal first examples behind
    if sh.index % 8 == 0:
        sh.given(gen.c13_history(max_ops=5 if sh.quick else 6, cf_weight=6), body,
                 4 if sh.quick else 60, tag="cf")
    if sh.index % 8 == 4:
        sh.given(gen.c13_scenario(cf_weight=4), body, 4 if sh.quick else 60, tag="scen-cf")
