"""C14  A failing job never stops independent jobs (asynchronous workers).

Workflow programs run under the schedule-owning worker with a generated subset of jobs made to
fail and a generated completion order.  Oracle over the gate event log, at NODE granularity (the
coarser reading, so the engine's documented whole-node barrier is never flagged):
 * every job of a node that is not downstream of a failed job's node ran (S and E events);
 * no job of a node downstream of a failed node ran;
 * the submission fails and its error text names every failed node.
"""
from __future__ import annotations

from hypothesis import strategies as st

from vlib import scratchdir, schedcase
from vlib.gen import workflows as G
from vlib.harness import short
from vlib.ref import workflow as RW

ID = "C14"
LEVEL = "fault_enumeration"
DESIGN_REF = "5/C14, 4.2"
TECHNIQUE = "property-based fault injection: generated failing job subsets x generated completion orders"
WALL = {"quick": 120, "thorough": 1500}
RULE = (
    "cases = (workflow program without nested workflows in the region where pydra agrees with the "
    "reference, non-empty subset of its jobs made to raise, completion-order choice list) under the "
    "schedule-owning worker (plus a cf sample). Non-trivial = at least one job that does not depend "
    "on a failing job had not finished when the first failure happened; distinct = full case."
)
ASSUMPTIONS = [
    "dependence is taken at node granularity (a node is downstream if it consumes a failed node)",
    "a job made to fail that never starts (because it is downstream of another failure) does not count",
    "programs on which pydra deviates from the reference without faults are excluded by a dry run "
    "of the same program (counted)",
]


def error_text(obs):
    return obs.error_text


def _unused_error_text(obs):
    parts = []
    if obs.exception is not None:
        parts.append(str(obs.exception))
        parts.extend(getattr(obs.exception, "__notes__", []) or [])
    res = obs.result
    if res is not None and res.errored:
        try:
            errs = res.errors
            if errs:
                parts.append("\n".join(map(str, errs.get("error message", []))) if isinstance(errs, dict) else str(errs))
        except Exception as e:  # noqa
            parts.append(f"<unreadable error file: {e}>")
    return "\n".join(parts)


def check_case(case):
    prog = case["prog"]
    d = scratchdir.new("c14")
    try:
        jobs = RW.jobs_of(prog)
        tok_nodes = schedcase.node_of_token(prog)
        obs = schedcase.run_case(case, d)
        if obs.timed_out:  # inconclusive (C18 owns termination)
            case["_obs"] = dict(timed_out=True)
            return []
        started = [e[1] for e in obs.events if e[0] == "S"]
        ended_ok = {e[1] for e in obs.events if e[0] == "E" and e[2] == "ok"}
        failed = [e[1] for e in obs.events if e[0] == "E" and e[2] == "fail"]
        failed_nodes = set()
        for t in failed:
            failed_nodes |= tok_nodes.get(t, set())
        down = schedcase.downstream_nodes(prog, failed_nodes)
        recs = []
        # first failure position: which independent jobs were still unfinished then?
        first_fail = next((i for i, e in enumerate(obs.events) if e[0] == "E" and e[2] == "fail"), None)
        pending_at_failure = 0
        for j in jobs:
            nodes = tok_nodes[j["token"]]
            if nodes <= down:
                if j["token"] in started:
                    recs.append(dict(signature="job-downstream-of-failure-was-executed",
                                     observed=dict(job=j["token"], failed=failed), expected="never executed"))
                continue
            if j["token"] in case["fails"]:
                continue
            if nodes & (down | failed_nodes) and not nodes <= failed_nodes:
                continue  # ambiguous token shared between nodes: not judged
            if j["token"] not in ended_ok:
                recs.append(dict(signature="independent-job-not-executed",
                                 observed=dict(job=j["token"], node=sorted(nodes), failed=failed,
                                               started=j["token"] in started),
                                 expected="executed and cached although another job failed"))
            if first_fail is not None:
                idx = next((i for i, e in enumerate(obs.events) if e[0] == "E" and e[1] == j["token"]), None)
                if idx is None or idx > first_fail:
                    pending_at_failure += 1
        case["_obs"] = dict(pending_at_failure=pending_at_failure, failed=len(failed),
                            timeouts=obs.settle_timeouts)
        if failed:
            errored = obs.exception is not None or obs.errored
            if not errored:
                recs.append(dict(signature="workflow-succeeded-despite-failed-job",
                                 observed=dict(failed=failed, outputs=obs.outputs), expected="an error"))
            else:
                text = error_text(obs)
                # a failed job counts as named when its own recorded error (which carries the job's
                # provenance token) appears in the report, or the node name with its state index
                index_of = {}
                per_node = {}
                for j in jobs:
                    k = per_node.get(j["node"], 0)
                    per_node[j["node"]] = k + 1
                    index_of.setdefault(j["token"], []).append(f"{j['node']}({k})")
                missing = [t for t in failed
                           if f"injected failure in {t}" not in text
                           and not any(nm in text for nm in index_of.get(t, []))]
                if missing:
                    recs.append(dict(signature="error-does-not-name-every-failed-job",
                                     observed=dict(failed_nodes=sorted(failed_nodes), missing=missing,
                                                   text=text[-1500:]),
                                     expected="every failed job named in the error"))
        seen, out = set(), []
        for r in recs:
            if r["signature"] not in seen:
                seen.add(r["signature"])
                r["detail"] = dict(releases=obs.releases[:40], error=obs.exception)
                out.append(r)
        return out
    finally:
        scratchdir.rm(d)


@st.composite
def cases(draw):
    prog = draw(st.one_of(
        G.mixed_programs(max_nodes=5, allow_nested=False, allow_wf_split=False),
        G.template_programs(allow_nested=False, shapes=[
            "split_consumer_and_independent_chain", "fan_in_independent", "three_way_join"])))
    try:
        jobs = RW.jobs_of(prog)
    except RW.Undefined:
        return None
    toks = sorted({j["token"] for j in jobs})
    if len(toks) < 2:
        return None
    by_node = {}
    for j in jobs:
        by_node.setdefault(j["node"], set()).add(j["token"])
    partial = sorted(t for ts in by_node.values() if len(ts) >= 2 for t in ts)
    if partial and draw(st.integers(0, 2)) == 0:
        # partial failure: one job of a node that has several jobs fails, its siblings succeed
        fails = [draw(st.sampled_from(partial))]
    else:
        fails = draw(st.lists(st.sampled_from(toks), min_size=1, max_size=min(3, len(toks)), unique=True))
    # some outcomes are reported late by the worker: the job is finished (result on disk) while
    # another completion makes the submitter poll the job states
    if len(fails) >= 2 or draw(st.booleans()):
        hold = draw(st.lists(st.integers(1, max(2, len(toks))), min_size=1, max_size=4, unique=True))
    else:
        hold = []
    return dict(prog=prog, fails=sorted(fails), worker=draw(st.sampled_from(["sched"] * 5 + ["cf"])),
                choices=draw(st.lists(st.integers(0, 7), max_size=40)), k=None, hold=hold)


_agree_cache = {}


def agrees_without_faults(prog):
    """dry run (debug worker, no faults): pydra's outputs equal the reference"""
    import json

    from props import c03

    key = json.dumps(prog, sort_keys=True)
    if key not in _agree_cache:
        _agree_cache[key] = c03.observe(prog) is None
    return _agree_cache[key]


def run(sh):
    def body(case):
        if case is None:
            sh.count("discarded_fewer_than_two_jobs")
            return
        if not agrees_without_faults(case["prog"]):
            sh.count("excluded_c03_region")
            return
        sh.run_case(case, nontrivial=False, labels=[f"worker_{case['worker']}", f"nfail_{len(case['fails'])}"],
                    raise_unattributed=True)
        obs = case.pop("_obs", {})
        if obs.get("timed_out"):
            sh.count("inconclusive_timed_out")
        if obs.get("timeouts"):
            sh.count("settle_timeouts", obs["timeouts"])
        if obs.get("failed") and obs.get("pending_at_failure"):
            sh.record_case(case, True, labels=["independent_job_pending_at_failure"])
            sh.evaluations -= 1

    sh.given(cases(), body, sh.budget(64, 1600), tag="faults")
